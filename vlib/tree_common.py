"""Shared generator, shadow specification and oracles of the `tree` engine (C35, C36, C28).

The engine's Rust side is the `dsim` scenario interpreter (binary `tree` = `dsim`), its Lean side `dustmodel tree`
(Driver/Tree.lean -> Model/Tree.lean). Only the sub-language documented in notes/tree.md is generated; everything
else would answer `bad-op` on the Lean side.

`Shadow` is the ORACLE's own statement of the DDS rules (independent of the Lean model): it follows a history
using only the implementation's answers and says, per property, where the implementation deviates from
  C35  unique handles among live entities, no creation panics/hangs;
  C36  deletion preconditions, AlreadyDeleted on deleted entities, delete_contained_entities empties the parent;
  C28  the writer instance-management contract.
"""
from vlib.core import Case
from vlib.dsim_common import expand, is_ok, err_kind, BAD

ENGINE = "tree"
BINS = ["dsim", "tree"]
BUILTIN_TOPICS = ["DCPSParticipant", "DCPSTopic", "DCPSPublication", "DCPSSubscription", "TypeLookupRequest",
                  "TypeLookupReply"]
WIDTH = {"pub": 256, "sub": 256, "topic": 65536, "writer": 65536, "reader": 65536}
# causes of the findings fixed by fixes/D40.patch, fixes/D-tree-1.patch, fixes/D-tree-2.patch are no longer emitted:
# a creation that crashes at the counter rail, a participant that cannot be deleted because of a content-filtered
# topic, a topic deleted while used through a content-filtered topic are plain violations now
# (the causes of D33 / D33b are no longer emitted: fixes/D33.patch, fixes/D33b.patch; such answers are plain violations)
CREATE_OPS = ("participant", "publisher", "subscriber", "topic", "find-topic", "cft", "writer", "reader")
INST_OPS = ("register", "unregister", "dispose", "lookup", "write")


def kv_of(tokens):
    plain, kv = [], {}
    for t in tokens:
        if "=" in t:
            k, _, v = t.partition("=")
            kv[k] = v
        else:
            plain.append(t)
    return plain, kv


def cft_valid(ty, params, expr):
    """the validation of create_contentfilteredtopic on main: `<member> <=|= ...` on an INT32 member, first parameter an i32"""
    e = " ".join(expr)
    member = e.split("<=", 1)[0].strip() if "<=" in e else (e.split("=", 1)[0].strip() if "=" in e else None)
    int32 = (member == "value" and ty in ("ki", "ni")) or (member == "id" and ty in ("ki", "kb"))
    first = None if params == "-" else params.split(",")[0]
    try:
        ok = first is not None and -2**31 <= int(first) < 2**31
    except ValueError:
        ok = False
    return bool(member is not None and int32 and ok)


class Ent:
    def __init__(self, kind, **kw):
        self.kind = kind
        self.alive = True
        self.handle = None
        self.__dict__.update(kw)


class Shadow:
    def __init__(self):
        self.factory_auto = True
        self.names = {}
        self.ents = []
        self.viol = {"C35": [], "C36": [], "C28": []}
        self.stats = {}

    # ------------------------------------------------------------------ helpers
    def count(self, k):
        self.stats[k] = self.stats.get(k, 0) + 1

    def add(self, name, e, handle):
        e.handle = handle
        # C35: the new handle must differ from the handle of every live entity
        for o in self.ents:
            if o.alive and o.handle is not None and o.handle == handle:
                self.v("C35", f"new {e.kind} {name} got handle {handle} which a live {o.kind} already has", None)
                break
        self.ents.append(e)
        self.names[name] = e

    def v(self, prop, what, cause):
        self.viol[prop].append({"what": what, "at": self.at, "cause": cause})

    def children(self, part, kinds):
        return [o for o in self.ents if o.alive and o.kind in kinds and getattr(o, "part", None) is part]

    def topic_alive(self, part, tname):
        return next((o for o in self.ents if o.alive and o.kind == "topic" and o.part is part and o.tname == tname), None)

    def cft_named(self, part, cname):
        # content-filtered topics are looked up by name (first match)
        return next((o for o in self.ents if o.alive and o.kind == "cft" and o.part is part and o.cname == cname), None)

    def expect(self, prop, got, want, what, cause=None):
        """want: a canonical answer prefix ('ok', 'err:X') or a tuple of acceptable ones"""
        wants = want if isinstance(want, tuple) else (want,)
        ok = any((w == "ok" and is_ok(got)) or got == w for w in wants)
        if not ok:
            self.v(prop, f"{what}: expected {' or '.join(wants)}, got {got}", cause)
        return ok

    def resolved(self, e):
        """is the entity (and everything above it) alive?"""
        if e.kind == "participant":
            return e.alive
        if e.kind in ("publisher", "subscriber"):
            return e.alive and e.part.alive
        if e.kind == "topic":
            return e.part.alive and self.topic_alive(e.part, e.tname) is not None
        if e.kind in ("writer", "reader"):
            return e.alive and e.parent.alive and e.part.alive
        if e.kind == "cft":
            return e.part.alive
        return False

    # ------------------------------------------------------------------ one primitive op
    def op(self, at, t, got):
        self.at = at
        if not t or t[0].startswith("#"):
            return
        op = t[0]
        if got == "POISONED":
            return
        if got in ("PANIC", "HANG", "CRASH"):
            self.on_crash(t, got)
            return
        if got == "bad-op":
            # an op that names an entity whose creation failed is refused by both sides (the name is unbound)
            plain, _ = kv_of(t[1:])
            refs = plain[1:] if op in CREATE_OPS else plain
            if op == "cft":
                refs = plain[1:3]
            if op in INST_OPS:
                refs = plain[:1]
            if all(x in self.names for x in refs):
                self.v("C36", f"harness refused a generated op: {' '.join(t)}", "generator-bug")
            return
        self.count(op)
        f = getattr(self, "op_" + op.replace("-", "_"), None)
        if f is not None:
            f(t[1:], got)

    def on_crash(self, t, got):
        self.v("C35", f"{' '.join(t)} -> {got}", None)

    def exhausted(self, part, kind, got):
        """with fixes/D40.patch a creation whose counter has handed out its last value answers OutOfResources
        (counter values 0 .. width-2 are usable); that is an error return, which C35 allows"""
        if got == "err:OutOfResources" and part.incs.get(kind, 0) >= WIDTH[kind] - 1:
            self.count("exhausted:" + kind)
            return True
        return False

    def op_factory_qos(self, a, got):
        _, kv = kv_of(a)
        if is_ok(got) and "autoenable" in kv:
            self.factory_auto = kv["autoenable"] == "1"

    def op_participant(self, a, got):
        plain, kv = kv_of(a)
        if self.expect("C36", got, "ok", f"create participant {plain[0]}"):
            e = Ent("participant", enabled=self.factory_auto, autoenable=kv.get("autoenable", "1") == "1",
                    incs={})
            self.add(plain[0], e, got.split()[1])

    def group(self, a, got, kind, short):
        plain, kv = kv_of(a)
        name, parent = plain[0], self.names.get(plain[1])
        if parent is None or parent.kind != "participant":
            return
        if not parent.alive:
            self.expect("C36", got, "err:AlreadyDeleted", f"create {kind} on deleted participant {plain[1]}")
            return
        if self.exhausted(parent, short, got):
            return
        if self.expect("C36", got, "ok", f"create {kind} {name}"):
            parent.incs[short] = parent.incs.get(short, 0) + 1
            e = Ent(kind, part=parent, enabled=parent.enabled and parent.autoenable,
                    autoenable=kv.get("autoenable", "1") == "1")
            self.add(name, e, got.split()[1])

    def op_publisher(self, a, got):
        self.group(a, got, "publisher", "pub")

    def op_subscriber(self, a, got):
        self.group(a, got, "subscriber", "sub")

    def op_topic(self, a, got):
        name, parent, tname, ty = a[0], self.names.get(a[1]), a[2], a[3]
        if parent is None or parent.kind != "participant":
            return
        if not parent.alive:
            self.expect("C36", got, "err:AlreadyDeleted", f"create topic on deleted participant {a[1]}")
            return
        if tname in BUILTIN_TOPICS or self.topic_alive(parent, tname) is not None:
            return  # BadParameter / PreconditionNotMet: not part of C35/C36/C28
        if self.exhausted(parent, "topic", got):
            return
        if self.expect("C36", got, "ok", f"create topic {name}"):
            parent.incs["topic"] = parent.incs.get("topic", 0) + 1
            self.add(name, Ent("topic", part=parent, tname=tname, keyed=ty in ("ki", "kb"), ty=ty), got.split()[1])

    def op_find_topic(self, a, got):
        """find_topic: a live local topic of that name -> the same entity (same handle, nothing new); otherwise a topic
        discovered from some participant -> a NEW local Topic entity (tracked like a created one); otherwise Timeout"""
        name, parent, tname, ty = a[0], self.names.get(a[1]), a[2], a[3]
        if parent is None or parent.kind != "participant":
            return
        if not parent.alive:
            self.expect("C36", got, "err:AlreadyDeleted", f"find_topic on deleted participant {a[1]}")
            return
        if not is_ok(got):
            return          # Timeout (nothing of that name known / counter exhausted): creates nothing
        h = got.split()[1]
        local = self.topic_alive(parent, tname)
        if local is not None:
            if local.handle != h:
                self.v("C35", f"find_topic {name}: the live local topic {tname} has handle {local.handle}, find_topic answered {h}", None)
            self.names[name] = local
            return
        parent.incs["topic"] = parent.incs.get("topic", 0) + 1
        self.add(name, Ent("topic", part=parent, tname=tname, keyed=ty in ("ki", "kb"), ty=ty), h)

    def op_cft(self, a, got):
        name, tp, cname = a[0], self.names.get(a[2]), a[3]
        if tp is None or tp.kind != "topic":
            return
        part = tp.part
        if not part.alive:
            self.expect("C36", got, "err:AlreadyDeleted", "create content-filtered topic on deleted participant")
            return
        related = self.topic_alive(part, tp.tname)
        if related is None:
            return
        if not cft_valid(related.ty, a[4], a[5:]):
            return      # BadParameter for an unsupported filter expression: not part of C35 / C36 (the model predicts it)
        if self.exhausted(part, "topic", got):
            return
        if self.expect("C36", got, "ok", f"create content-filtered topic {name}"):
            part.incs["topic"] = part.incs.get("topic", 0) + 1
            e = Ent("cft", part=part, cname=cname, related=tp.tname)
            self.ents.append(e)
            self.names[name] = e

    def op_writer(self, a, got):
        plain, kv = kv_of(a)
        name, pub, tp = plain[0], self.names.get(plain[1]), self.names.get(plain[2])
        if pub is None or tp is None or pub.kind != "publisher" or tp.kind != "topic":
            return
        part = pub.part
        topic = self.topic_alive(part, tp.tname)
        if not part.alive or not pub.alive or topic is None:
            self.expect("C36", got, "err:AlreadyDeleted", f"create writer {name} on a deleted publisher/topic/participant")
            return
        if self.exhausted(part, "writer", got):
            return
        if got == "err:InconsistentPolicy":
            part.incs["writer"] = part.incs.get("writer", 0) + 1   # the counter has already moved (as-is quirk)
            return
        if self.expect("C36", got, "ok", f"create writer {name}"):
            part.incs["writer"] = part.incs.get("writer", 0) + 1
            mi = kv.get("max_instances", "inf")
            e = Ent("writer", part=part, parent=pub, tname=tp.tname, base=tp.tname, keyed=topic.keyed,
                    enabled=pub.enabled and pub.autoenable, max_inst=None if mi == "inf" else int(mi),
                    live=[], known=[])
            self.add(name, e, got.split()[1])

    def op_reader(self, a, got):
        plain, kv = kv_of(a)
        name, sub, tp = plain[0], self.names.get(plain[1]), self.names.get(plain[2])
        if sub is None or tp is None or sub.kind != "subscriber" or tp.kind not in ("topic", "cft"):
            return
        part = sub.part
        given = tp.tname if tp.kind == "topic" else tp.cname
        c = self.cft_named(part, given)
        base = c.related if c is not None else given
        topic = self.topic_alive(part, base)
        if not part.alive or not sub.alive or topic is None:
            self.expect("C36", got, "err:AlreadyDeleted", f"create reader {name} on a deleted subscriber/topic/participant")
            return
        if got == "err:InconsistentPolicy" or self.exhausted(part, "reader", got):
            return
        if self.expect("C36", got, "ok", f"create reader {name}"):
            part.incs["reader"] = part.incs.get("reader", 0) + 1
            e = Ent("reader", part=part, parent=sub, tname=given, base=base, keyed=topic.keyed,
                    enabled=sub.enabled and sub.autoenable)
            self.add(name, e, got.split()[1])

    # ------------------------------------------------------------------ deletion
    def op_delete(self, a, got):
        self.delete(None, a[0], got)

    def op_delete_from(self, a, got):
        self.delete(self.names.get(a[0]), a[1], got)

    def delete(self, via, name, got):
        e = self.names.get(name)
        if e is None:
            return
        k = e.kind
        if k == "participant":
            if not e.alive:
                self.expect("C36", got, "err:AlreadyDeleted", f"delete deleted participant {name}")
            elif self.children(e, ("publisher", "subscriber", "topic", "cft")):
                self.expect("C36", got, "err:PreconditionNotMet", f"delete participant {name} that still contains entities")
            elif self.expect("C36", got, "ok", f"delete empty participant {name}"):
                e.alive = False
            return
        if k in ("publisher", "subscriber"):
            v = via if via is not None else e.part
            kids = [o for o in self.ents if o.alive and o.kind == ("writer" if k == "publisher" else "reader") and o.parent is e]
            if not v.alive:
                self.expect("C36", got, "err:AlreadyDeleted", f"delete {k} {name} through a deleted participant")
            elif v is not e.part:
                self.expect("C36", got, "err:PreconditionNotMet", f"delete {k} {name} through a participant that is not its parent")
            elif not e.alive:
                self.expect("C36", got, "err:AlreadyDeleted", f"delete deleted {k} {name}")
            elif kids:
                self.expect("C36", got, "err:PreconditionNotMet", f"delete {k} {name} that still has {len(kids)} endpoint(s)")
            elif self.expect("C36", got, "ok", f"delete empty {k} {name}"):
                e.alive = False
            return
        if k == "topic":
            v = via if via is not None else e.part
            t = self.topic_alive(e.part, e.tname)
            direct = [o for o in self.ents if o.alive and o.kind in ("writer", "reader") and o.part is e.part and o.tname == e.tname]
            through = [o for o in self.ents if o.alive and o.kind == "reader" and o.part is e.part and o.base == e.tname and o.tname != e.tname]
            referring = [o for o in self.ents if o.alive and o.kind == "cft" and o.part is e.part and o.related == e.tname]
            if not e.part.alive:
                self.expect("C36", got, "err:AlreadyDeleted", f"delete topic {name} of a deleted participant")
            elif v is not e.part:
                self.expect("C36", got, "err:PreconditionNotMet", f"delete topic {name} through a participant that is not its parent")
            elif t is None:
                self.expect("C36", got, "err:AlreadyDeleted", f"delete deleted topic {name}")
            elif direct or through or referring:
                ok = self.expect("C36", got, "err:PreconditionNotMet",
                                 f"delete topic {name} still used by {len(direct)} endpoint(s) directly, {len(through)} reader(s) through and {len(referring)} content-filtered topic(s)")
                if not ok and is_ok(got):
                    t.alive = False
            elif self.expect("C36", got, "ok", f"delete unused topic {name}"):
                t.alive = False
            return
        if k == "cft":
            same = [o for o in self.ents if o.alive and o.kind == "cft" and o.part is e.part and o.cname == e.cname]
            users = [o for o in self.ents if o.alive and o.kind == "reader" and o.part is e.part and o.tname == e.cname]
            if not e.part.alive:
                self.expect("C36", got, "err:AlreadyDeleted", f"delete content-filtered topic {name} of a deleted participant")
            elif not same:
                self.expect("C36", got, "err:AlreadyDeleted", f"delete deleted content-filtered topic {name}")
            elif users:
                self.expect("C36", got, "err:PreconditionNotMet", f"delete content-filtered topic {name} still used by {len(users)} reader(s)")
            elif self.expect("C36", got, "ok", f"delete unused content-filtered topic {name}"):
                for o in same:          # a content-filtered topic is its name: every one of that name goes
                    o.alive = False
            return
        if k in ("writer", "reader"):
            v = via if via is not None else e.parent
            if not v.part.alive or not v.alive:
                self.expect("C36", got, "err:AlreadyDeleted", f"delete {k} {name} through a deleted parent")
            elif v is not e.parent:
                # the DDS rule is PreconditionNotMet; the code answers AlreadyDeleted (it searches the given parent's list)
                self.expect("C36", got, ("err:PreconditionNotMet", "err:AlreadyDeleted"), f"delete {k} {name} through a parent that is not its own")
            elif not e.alive:
                self.expect("C36", got, "err:AlreadyDeleted", f"delete deleted {k} {name}")
            elif self.expect("C36", got, "ok", f"delete {k} {name}"):
                e.alive = False

    def op_delete_contained(self, a, got):
        e = self.names.get(a[0])
        if e is None or e.kind != "participant":
            return
        if not e.alive:
            self.expect("C36", got, "err:AlreadyDeleted", f"delete_contained_entities of deleted participant {a[0]}")
        elif self.expect("C36", got, "ok", f"delete_contained_entities of {a[0]}"):
            for o in self.ents:
                if o.kind != "participant" and getattr(o, "part", None) is e:
                    o.alive = False     # the DDS rule: the participant is empty afterwards (content-filtered topics too)

    def op_enable(self, a, got):
        e = self.names.get(a[0])
        if e is None or got == "unsupported":
            return
        if not self.resolved(e):
            self.expect("C36", got, "err:AlreadyDeleted", f"enable deleted {e.kind} {a[0]}")
        elif self.expect("C36", got, "ok", f"enable {e.kind} {a[0]}"):
            if e.kind == "topic":
                return
            e.enabled = True

    def op_probe(self, a, got):
        e = self.names.get(a[0])
        if e is None or got == "unsupported":
            return
        if self.resolved(e):
            self.expect("C36", got, "ok", f"get_qos of live {e.kind} {a[0]} (state must be unchanged by failed deletes)")
        else:
            self.expect("C36", got, "err:AlreadyDeleted", f"get_qos of deleted {e.kind} {a[0]}")

    # ------------------------------------------------------------------ writer instance contract (C28)
    def inst(self, op, a, got):
        w = self.names.get(a[0])
        if w is None or w.kind != "writer":
            return
        k = int(a[1])
        what = f"{op} {a[0]} {k}"
        if not self.resolved(w):
            self.expect("C36", got, "err:AlreadyDeleted", what + " on a deleted writer")
            return
        self.count(f"inst:{op}:{'keyed' if w.keyed else 'keyless'}:{'en' if w.enabled else 'dis'}")
        if not w.enabled:
            self.expect("C28", got, "err:NotEnabled", what + " on a writer that is not enabled")
            return
        if not w.keyed:
            if op == "write":
                if is_ok(got) and 0 not in w.known:
                    w.known.append(0)
                    w.live.append(0)
                return
            self.expect("C28", got, "err:IllegalOperation", what + " on a keyless type")
            return
        room = w.max_inst is None or len(w.live) < w.max_inst
        hk = f"ok h({k})"
        if op in ("register", "write"):
            want = ("ok" if op == "write" else hk) if (k in w.live or room) else "err:OutOfResources"
            if op == "register" and is_ok(got) and got != hk and want == hk:
                self.v("C28", f"{what}: returned {got}, the handle of the key is h({k})", None)
            else:
                self.expect("C28", got, want, what)
            if is_ok(got):
                if k not in w.live:
                    w.live.append(k)
                if k not in w.known:
                    w.known.append(k)
        elif op == "unregister":
            if k in w.live:
                if self.expect("C28", got, "ok", what):
                    w.live.remove(k)
            else:
                self.expect("C28", got, "err:BadParameter", what + " (instance not registered)")
        elif op == "dispose":
            if k in w.live:
                self.expect("C28", got, "ok", what)
            else:
                self.expect("C28", got, "err:BadParameter", what + " (instance not registered)")
        elif op == "lookup":
            if k in w.live:
                self.expect("C28", got, hk, what)
            else:
                self.expect("C28", got, "ok none", what + " (instance not registered)")

    def op_register(self, a, got):
        self.inst("register", a, got)

    def op_unregister(self, a, got):
        self.inst("unregister", a, got)

    def op_dispose(self, a, got):
        self.inst("dispose", a, got)

    def op_lookup(self, a, got):
        self.inst("lookup", a, got)

    def op_write(self, a, got):
        self.inst("write", a, got)


def shadow_run(case, out):
    sh = Shadow()
    for i, t, o in expand(case.lines, out):
        sh.op(i, t, o)
    return sh


def oracle_for(prop):
    def oracle(case, out):
        sh = shadow_run(case, out)
        viol = list(sh.viol[prop])
        if prop == "C35":
            # a crash that the per-op rule did not see (e.g. the supervisor's CRASH on a whole line)
            for i, o in enumerate(out):
                if o.startswith("CRASH") and not any(v["at"] == i for v in viol):
                    viol.append({"what": f"line {i} crashed the process", "at": i, "cause": None})
        return viol
    return oracle


# ----------------------------------------------------------------------------- generator

class Profile:
    def __init__(self, **kw):
        self.nops = kw.get("nops", (8, 35))
        self.w = kw.get("weights", {})
        self.loops = kw.get("loops", 0)            # percent of cases that contain a counter loop
        self.loop_sizes = kw.get("loop_sizes", [3, 10, 253, 254, 255, 256, 300])
        self.inst_heavy = kw.get("inst_heavy", False)
        self.disabled = kw.get("disabled", 12)     # percent of autoenable=0 on factory/participant/publisher
        self.cft = kw.get("cft", 8)                # percent weight of content-filtered-topic ops


DEFAULT_W = {"publisher": 8, "subscriber": 6, "topic": 8, "writer": 10, "reader": 7, "cft": 2, "delete": 18,
             "delete_from": 4, "delete_contained": 2, "enable": 4, "probe": 10, "handle": 2, "inst": 10, "participant": 1}
KEYS = [0, 1, 2, 2, 3, -1, 2147483647, -2147483648]
TYPE_OF_NAME = {"A": "ki", "B": "kb", "C": "ni", "D": "nb", "T1": "ki", "T2": "kb", "T3": "ni"}
VALUES = ["00", "11", "42"]     # valid both as an i32 value and as hex bytes


def pick(r, weights):
    tot = sum(weights.values())
    x = r.below(tot)
    for k, w in weights.items():
        if x < w:
            return k
        x -= w
    return k


def gen_case(r, prof):
    names = {"participant": [], "publisher": [], "subscriber": [], "topic": [], "cft": [], "writer": [], "reader": []}
    owner = {}
    n = {"i": 0}

    def fresh(prefix):
        n["i"] += 1
        return f"{prefix}{n['i']}"

    def off():
        return r.below(100) < prof.disabled

    lines = []
    if off():
        lines.append("factory-qos autoenable=0")
    for _ in range(r.range(1, 2)):
        p = fresh("P")
        lines.append(f"participant {p}" + (" autoenable=0" if off() else ""))
        names["participant"].append(p)
    if off() and r.chance(1, 2):
        lines.append("factory-qos autoenable=1")
    weights = dict(DEFAULT_W)
    weights.update(prof.w)
    weights["cft"] = prof.cft
    any_name = lambda kinds: [x for k in kinds for x in names[k]]
    nops = r.range(*prof.nops)
    loop_at = r.below(nops) if r.below(100) < prof.loops else -1
    for step in range(nops):
        if step == loop_at:
            p = r.choice(names["participant"])
            kind = r.choice(["publisher", "publisher", "subscriber"])
            nloop = r.choice(prof.loop_sizes)
            keep = r.chance(1, 3)
            tmp = fresh("L")
            if keep:
                lines.append(f"repeat {nloop} {kind} {tmp}_%i {p}")
                names[kind].append(f"{tmp}_0")
                names[kind].append(f"{tmp}_{nloop - 1}")
                owner[f"{tmp}_0"] = p
                owner[f"{tmp}_{nloop - 1}"] = p
            else:
                lines.append(f"repeat {nloop} {kind} {tmp}_%i {p} ; delete {tmp}_%i")
                names[kind].append(f"{tmp}_{nloop - 1}")
                owner[f"{tmp}_{nloop - 1}"] = p
            continue
        k = pick(r, weights)
        if k == "participant":
            p = fresh("P")
            lines.append(f"participant {p}" + (" autoenable=0" if off() else ""))
            names["participant"].append(p)
        elif k in ("publisher", "subscriber"):
            x = fresh("pb" if k == "publisher" else "sb")
            p = r.choice(names["participant"])
            lines.append(f"{k} {x} {p}" + (" autoenable=0" if off() else ""))
            names[k].append(x)
            owner[x] = p
        elif k == "topic":
            x = fresh("t")
            # the type is a function of the topic name, so a stale Topic object of a re-created name keeps its type
            tn = r.choice(["A", "B", "C", "D", "A", "B"] + (["DCPSTopic"] if r.chance(1, 10) else []))
            ty = TYPE_OF_NAME.get(tn, "ki")
            p = r.choice(names["participant"])
            lines.append(f"topic {x} {p} {tn} {ty}")
            names["topic"].append(x)
            owner[x] = p
        elif k == "cft":
            if names["topic"]:
                x = fresh("c")
                t = r.choice(names["topic"])
                # `value <= %0` / `id = %0` with an integer parameter is what the code supports (INT32 members only,
                # so it is refused for the bytes-valued / keyless types); the old `value > 5` form is refused everywhere
                c = r.below(10)
                e = "10 value <= %0" if c < 6 else ("3 id = %0" if c < 8 else ("- value > 5" if c < 9 else "x value <= %0"))
                lines.append(f"cft {x} {owner[t]} {t} F{r.range(1, 2)} {e}")
                names["cft"].append(x)
                owner[x] = owner[t]
        elif k == "writer":
            if names["publisher"] and names["topic"]:
                x = fresh("w")
                q = ""
                c = r.below(10)
                if c == 0:
                    q = " history=keep_last:5 max_spi=2"
                elif c < 4:
                    q = f" max_instances={r.choice([1, 2, 2, 3])} history=keep_all"
                else:
                    q = " history=keep_all"
                pb = r.choice(names["publisher"])
                same = [t for t in names["topic"] if owner[t] == owner[pb]]
                if same:
                    lines.append(f"writer {x} {pb} {r.choice(same)}{q}")
                    names["writer"].append(x)
        elif k == "reader":
            if names["subscriber"] and (names["topic"] or names["cft"]):
                x = fresh("r")
                sb = r.choice(names["subscriber"])
                pool = [t for t in names["topic"] + (names["cft"] if r.chance(1, 2) else []) if owner[t] == owner[sb]]
                q = " history=keep_last:3 max_spi=1" if r.chance(1, 12) else ""
                if pool:
                    lines.append(f"reader {x} {sb} {r.choice(pool)}{q}")
                    names["reader"].append(x)
        elif k == "delete":
            pool = any_name(["publisher", "subscriber", "topic", "writer", "reader", "writer", "reader", "cft"]) + \
                   (names["participant"] if r.chance(1, 3) else [])
            if pool:
                x = r.choice(pool)
                lines.append(f"delete {x}")
                if r.chance(1, 3):
                    lines.append(f"probe {x}")
        elif k == "delete_from":
            c = r.below(3)
            if c == 0 and names["writer"] and names["publisher"]:
                lines.append(f"delete-from {r.choice(names['publisher'])} {r.choice(names['writer'])}")
            elif c == 1 and names["reader"] and names["subscriber"]:
                lines.append(f"delete-from {r.choice(names['subscriber'])} {r.choice(names['reader'])}")
            else:
                pool = any_name(["publisher", "subscriber", "topic"])
                if pool:
                    lines.append(f"delete-from {r.choice(names['participant'])} {r.choice(pool)}")
        elif k == "delete_contained":
            p = r.choice(names["participant"])
            lines.append(f"delete-contained {p}")
            if r.chance(1, 2):
                lines.append(f"delete {p}")
        elif k == "enable":
            pool = any_name(["participant", "topic", "writer", "writer", "reader"])
            if pool:
                lines.append(f"enable {r.choice(pool)}")
        elif k == "probe":
            pool = any_name(["participant", "publisher", "subscriber", "topic", "writer", "reader"])
            if pool:
                lines.append(f"probe {r.choice(pool)}")
        elif k == "handle":
            pool = any_name(["participant", "publisher", "subscriber", "topic", "writer", "reader"])
            if pool:
                lines.append(f"handle {r.choice(pool)}")
        elif k == "inst":
            if names["writer"]:
                w = r.choice(names["writer"][-3:] if prof.inst_heavy else names["writer"])
                for _ in range(r.range(1, 6) if prof.inst_heavy else 1):
                    o = r.choice(["register", "register", "write", "unregister", "dispose", "lookup", "lookup"])
                    key = r.choice(KEYS)
                    lines.append(f"write {w} {key} {r.choice(VALUES)}" if o == "write" else f"{o} {w} {key}")
    return Case(lines, {})


def find_case(r):
    """C35 with find_topic: a second participant announces 1-2 topics; on the first one created topics, found topics
    (a found topic is a NEW local Topic entity taking a value of the same counter) and deletions are interleaved.
    All participants default-enabled, one domain (what the Lean driver's discovery bookkeeping assumes)."""
    lines = ["participant P", "participant Q"]
    remote = r.shuffle(["T1", "T2", "T3"])[: r.range(1, 2)]
    for i, tn in enumerate(remote):
        lines.append(f"topic q{i} Q {tn} {TYPE_OF_NAME[tn]}")
    lines.append("advance 100000000")
    local, found, n = [], [], 0
    for _ in range(r.range(5, 16)):
        n += 1
        c = r.below(100)
        if c < 30:
            tn = r.choice(["A", "B", "C", "D"])
            lines.append(f"topic t{n} P {tn} {TYPE_OF_NAME[tn]}")
            local.append(f"t{n}")
        elif c < 62:
            tn = r.choice(remote * 3 + ["A", "NOPE"])
            who = "P" if r.chance(4, 5) else "Q"
            lines.append(f"find-topic f{n} {who} {tn} {TYPE_OF_NAME.get(tn, 'ki')}" + (" 1000000" if r.chance(1, 2) else ""))
            found.append(f"f{n}")
        elif c < 80 and (local or found):
            lines.append(f"delete {r.choice(local + found + found)}")
        elif c < 88 and (local or found):
            lines.append(f"handle {r.choice(local + found)}")
        elif c < 94 and (local or found):
            lines.append(f"probe {r.choice(local + found)}")
        elif c < 97:
            lines.append(f"delete {r.choice(['q0', 'Q'])}")
        else:
            lines.append("participant R")
            lines.append(f"find-topic fr{n} R {r.choice(remote)} ki")
    for x in (local + found)[-4:]:
        lines.append(f"handle {x}")
    return Case(lines, {"family": "find"})


def inst_case(r):
    """C28-focused: one participant, keyed and keyless topics, writers created enabled or not, long instance histories"""
    lines = []
    fq = r.chance(1, 8)
    if fq:
        lines.append("factory-qos autoenable=0")
    lines.append("participant P" + (" autoenable=0" if r.chance(1, 8) else ""))
    lines.append("publisher pb P" + (" autoenable=0" if r.chance(1, 4) else ""))
    lines.append(f"topic tk P K {r.choice(['ki', 'kb'])}")
    lines.append(f"topic tn P N {r.choice(['ni', 'nb'])}")
    writers = []
    for i in range(r.range(1, 3)):
        keyed = r.chance(3, 4)
        mi = r.choice(["inf", "inf", 1, 2, 3])
        lines.append(f"writer w{i} pb {'tk' if keyed else 'tn'} max_instances={mi} history=keep_all")
        writers.append(f"w{i}")
    keys = [r.choice(KEYS) for _ in range(r.range(1, 4))]
    for _ in range(r.range(6, 40)):
        w = r.choice(writers)
        c = r.below(100)
        if c < 6:
            lines.append(f"enable {w}")
        elif c < 8:
            lines.append("enable P")
        elif c < 10:
            lines.append(f"delete {w}")
        else:
            o = r.choice(["register", "register", "write", "unregister", "unregister", "dispose", "lookup", "lookup"])
            k = r.choice(keys)
            lines.append(f"write {w} {k} {r.choice(VALUES)}" if o == "write" else f"{o} {w} {k}")
    return Case(lines, {})


def nontrivial(case, out):
    """at least 3 entities were created and at least one delete / instance call was answered"""
    created = sum(1 for l, o in zip(case.lines, out) if l.split()[:1] and l.split()[0] in CREATE_OPS and is_ok(o))
    acted = sum(1 for l in case.lines if l.split()[:1] and l.split()[0] in
                ("delete", "delete-from", "delete-contained", "repeat") + INST_OPS)
    return created >= 3 and acted >= 1


def count_ops(ctx, cases):
    for c in cases:
        for l in c.lines:
            t = l.split()
            if t:
                ctx.count("op:" + t[0])


def count_answers(ctx, outs):
    for o in outs:
        for l in o:
            for a in l.split(";"):
                ctx.count("ans:" + (a if not a.startswith("ok") else "ok"))
