"""Core of the /verif check pipeline (see DESIGN.md section 2.1).

steps: (1) Lean proof obligations + axiom audit, (2) build harness from /repo's working tree,
(3) correspondence model vs implementation, (4) property oracle on the implementation,
(5) verdict, (6) evidence.
"""
import hashlib, json, os, re, subprocess, sys, time, importlib

VERIF = os.path.dirname(os.path.dirname(os.path.abspath(__file__)))
LEAN = os.path.join(VERIF, "lean", "DustVerif")
HARNESS = os.path.join(VERIF, "harness")
BUILD = os.path.join(VERIF, ".build")
ALLOWED_AXIOMS = {"propext", "Classical.choice", "Quot.sound"}
FORBIDDEN = re.compile(r"\bsorry\b|\badmit\b|^axiom |native_decide|bv_decide|implemented_by|\bunsafe |maxHeartbeats 0", re.M)

TRUSTED_BASE = [
    "Lean 4.33.0 kernel; axioms limited to propext, Classical.choice, Quot.sound (audited with #print axioms); no native_decide/bv_decide/sorry/own axioms",
    "hand-written Lean model (DustVerif/Model/*.lean) of the anchored Rust code: modelled, not verified; tied to /repo by the differential correspondence run of this check",
    "correspondence harness (Rust, /verif/harness), generators, canonicalisers and Python oracle",
    "rustc/cargo dev profile with overflow checks",
]


class SplitMix64:
    def __init__(self, seed):
        self.s = seed & 0xFFFFFFFFFFFFFFFF
    def next(self):
        self.s = (self.s + 0x9E3779B97F4A7C15) & 0xFFFFFFFFFFFFFFFF
        z = self.s
        z = ((z ^ (z >> 30)) * 0xBF58476D1CE4E5B9) & 0xFFFFFFFFFFFFFFFF
        z = ((z ^ (z >> 27)) * 0x94D049BB133111EB) & 0xFFFFFFFFFFFFFFFF
        return z ^ (z >> 31)
    def below(self, n):
        return self.next() % n if n > 0 else 0
    def range(self, lo, hi):  # inclusive
        return lo + self.below(hi - lo + 1)
    def choice(self, xs):
        return xs[self.below(len(xs))]
    def chance(self, num, den):
        return self.below(den) < num
    def shuffle(self, xs):
        xs = list(xs)
        for i in range(len(xs) - 1, 0, -1):
            j = self.below(i + 1)
            xs[i], xs[j] = xs[j], xs[i]
        return xs
    def bytes(self, n):
        return bytes(self.below(256) for _ in range(n))


def sh(cmd, cwd=None, timeout=None, env=None, input=None):
    e = dict(os.environ)
    e["CARGO_NET_OFFLINE"] = "true"
    if env:
        e.update(env)
    p = subprocess.run(cmd, cwd=cwd, shell=isinstance(cmd, str), stdout=subprocess.PIPE,
                       stderr=subprocess.STDOUT, timeout=timeout, env=e, input=input)
    return p.returncode, p.stdout.decode("utf-8", "replace")


# ----------------------------------------------------------------------------- Lean side

def strip_comments(src):
    # remove /- ... -/ (nested not handled beyond one level) and -- comments
    src = re.sub(r"/-.*?-/", "", src, flags=re.S)
    src = re.sub(r"--.*", "", src)
    return src


def lean_theorems(prop_file):
    """(namespace, [theorem names]) of a Props file; only names starting with the property id count
    as obligations, helper lemmas in the same file are audited too."""
    src = strip_comments(open(prop_file).read())
    ns = re.search(r"^namespace\s+(\S+)", src, re.M)
    ns = ns.group(1) if ns else ""
    names = re.findall(r"^(?:private\s+)?theorem\s+(\S+)", src, re.M)
    return ns, names


def lean_sources_for(modules):
    """transitive closure of local imports"""
    seen, todo = [], list(modules)
    while todo:
        m = todo.pop()
        if m in seen:
            continue
        path = os.path.join(LEAN, m.replace(".", "/") + ".lean")
        if not os.path.exists(path):
            continue
        seen.append(m)
        for imp in re.findall(r"^import\s+(DustVerif\.\S+)", open(path).read(), re.M):
            todo.append(imp)
    return seen


def lean_check(pid, modules, tier, log):
    """build + audit under an exclusive lock on the Lean project: checks may run in parallel, but two `lake build`s (and the
    thorough tier's clean rebuild of a property's own modules) must not work on one build directory at the same time"""
    import fcntl
    os.makedirs(os.path.join(LEAN, ".lake"), exist_ok=True)
    with open(os.path.join(LEAN, ".lake", "verif.lock"), "w") as lock:
        fcntl.flock(lock, fcntl.LOCK_EX)
        try:
            return lean_check_locked(pid, modules, tier, log)
        finally:
            fcntl.flock(lock, fcntl.LOCK_UN)


def lean_check_locked(pid, modules, tier, log):
    """build + audit; returns dict(obligations, discharged, failures[list of str], names)"""
    res = {"obligations": 0, "discharged": 0, "failures": [], "names": [], "axioms": {}}
    t0 = time.time()
    targets = list(modules) + ["dustmodel"]
    if tier == "thorough":
        # rebuild the property's own modules from clean
        for m in modules:
            base = os.path.join(LEAN, ".lake", "build", "lib", "lean", m.replace(".", "/"))
            for ext in (".olean", ".ilean", ".olean.hash", ".trace", ".olean.server", ".olean.private"):
                try:
                    os.remove(base + ext)
                except OSError:
                    pass
    rc, out = sh(["lake", "build"] + targets, cwd=LEAN, timeout=3000)
    log.write(out)
    build_ok = rc == 0
    if not build_ok:
        res["failures"].append("lake build failed: " + "\n".join(
            l for l in out.splitlines() if l.startswith("error"))[:2000])
    # forbidden tokens
    for m in lean_sources_for(modules + ["DustVerif.Driver.Main"]):
        path = os.path.join(LEAN, m.replace(".", "/") + ".lean")
        hit = FORBIDDEN.search(strip_comments(open(path).read()))
        if hit:
            res["failures"].append(f"forbidden token {hit.group(0)!r} in {m}")
    # obligations
    allnames = []
    for m in modules:
        path = os.path.join(LEAN, m.replace(".", "/") + ".lean")
        ns, names = lean_theorems(path)
        for n in names:
            allnames.append((m, (ns + "." + n) if ns else n, n))
    oblig = [x for x in allnames if x[2].startswith(pid + "_")]
    res["obligations"] = len(oblig)
    res["names"] = [x[1] for x in oblig]
    if not oblig:
        res["failures"].append("no property theorem found")
    if build_ok:
        os.makedirs(os.path.join(LEAN, "Audit"), exist_ok=True)
        audit = os.path.join(LEAN, "Audit", pid + ".lean")
        with open(audit, "w") as f:
            for m in modules:
                f.write(f"import {m}\n")
            for _, full, _ in allnames:
                f.write(f"#print axioms {full}\n")
        rc, out = sh(["lake", "env", "lean", audit], cwd=LEAN, timeout=1200)
        log.write(out)
        axioms = {}
        for mm in re.finditer(r"'([^']+)' depends on axioms: \[([^\]]*)\]", out.replace("\n", " ")):
            axioms[mm.group(1)] = [a.strip() for a in mm.group(2).split(",") if a.strip()]
        for mm in re.finditer(r"'([^']+)' does not depend on any axioms", out):
            axioms[mm.group(1)] = []
        res["axioms"] = {k: v for k, v in axioms.items()}
        for _, full, short in allnames:
            if full not in axioms:
                res["failures"].append(f"theorem {full} not checked (audit produced no axiom report)")
                continue
            extra = set(axioms[full]) - ALLOWED_AXIOMS
            if extra:
                res["failures"].append(f"theorem {full} depends on disallowed axioms {sorted(extra)}")
            elif short.startswith(pid + "_"):
                res["discharged"] += 1
        if tier == "thorough":
            for m in modules:
                rc, out = sh(["lake", "env", "leanchecker", m], cwd=LEAN, timeout=3000)
                log.write(out)
                if rc != 0:
                    res["failures"].append(f"leanchecker rejected {m}: {out[-500:]}")
    res["lean_s"] = round(time.time() - t0, 2)
    return res


# ----------------------------------------------------------------------------- harness side

def harness_build(bins, log):
    t0 = time.time()
    lock_src = "/repo/Cargo.lock"
    lock_dst = os.path.join(HARNESS, "Cargo.lock")
    try:
        if open(lock_src, "rb").read() != (open(lock_dst, "rb").read() if os.path.exists(lock_dst) else b""):
            pass  # harness keeps its own lock (superset); do not overwrite
    except OSError:
        pass
    cmd = ["cargo", "build", "--offline"] + sum((["--bin", b] for b in bins), [])
    rc, out = sh(cmd, cwd=HARNESS, timeout=3000)
    log.write(out)
    return rc == 0, out, round(time.time() - t0, 2)


def harness_bin(name):
    return os.path.join(BUILD, "harness", "debug", name)


def model_bin():
    return os.path.join(LEAN, ".lake", "build", "bin", "dustmodel")


def run_lines(cmd, lines, timeout=600, env=None):
    """feed lines, return (rc, output lines, stderr-ish)"""
    data = ("\n".join(lines) + "\n").encode()
    e = dict(os.environ)
    if env:
        e.update(env)
    try:
        p = subprocess.run(cmd, input=data, stdout=subprocess.PIPE, stderr=subprocess.PIPE, timeout=timeout, env=e)
    except subprocess.TimeoutExpired as ex:
        outs = (ex.stdout or b"").decode("utf-8", "replace").splitlines()
        return -9, outs, "TIMEOUT"
    return p.returncode, p.stdout.decode("utf-8", "replace").splitlines(), p.stderr.decode("utf-8", "replace")[-2000:]


# ----------------------------------------------------------------------------- cases

class Case:
    """a correspondence case: list of op lines executed from a fresh state"""
    __slots__ = ("lines", "meta")
    def __init__(self, lines, meta=None):
        self.lines = list(lines)
        self.meta = meta or {}


def flatten(cases):
    lines, spans = [], []
    for c in cases:
        lines.append("reset")
        start = len(lines)
        lines.extend(c.lines)
        spans.append((start, len(lines)))
    return lines, spans


def run_cases(cmd, cases, timeout=900, env=None):
    """runs cases in one process; returns list (per case) of output line lists, or None per case on failure.
    If the process dies, the remaining cases are re-run one by one to isolate the culprit."""
    lines, spans = flatten(cases)
    rc, outs, err = run_lines(cmd, lines, timeout=timeout, env=env)
    if rc == 0 and len(outs) == len(lines):
        return [outs[a:b] for a, b in spans], None
    # process died / desynchronised: isolate
    results = []
    first_bad = None
    for idx, c in enumerate(cases):
        l2 = ["reset"] + c.lines
        rc2, o2, err2 = run_lines(cmd, l2, timeout=120, env=env)
        if rc2 == 0 and len(o2) == len(l2):
            results.append(o2[1:])
        else:
            results.append(o2[1:] + [f"CRASH rc={rc2} {'TIMEOUT' if err2 == 'TIMEOUT' else ''}".strip()])
            if first_bad is None:
                first_bad = (idx, rc2, err2)
    return results, first_bad


def shrink_case(lines, still_fails, budget=200):
    """delta debugging over op lines"""
    cur = list(lines)
    n = 2
    calls = 0
    while len(cur) >= 2 and calls < budget:
        chunk = max(1, len(cur) // n)
        reduced = False
        i = 0
        while i < len(cur) and calls < budget:
            cand = cur[:i] + cur[i + chunk:]
            calls += 1
            if cand and still_fails(cand):
                cur = cand
                n = max(n - 1, 2)
                reduced = True
            else:
                i += chunk
        if not reduced:
            if chunk == 1:
                break
            n = min(n * 2, len(cur))
    return cur


# ----------------------------------------------------------------------------- verdict / evidence

def _hist(xs):
    h = {}
    for x in xs:
        h[x] = h.get(x, 0) + 1
    return h


def load_known():
    p = os.path.join(VERIF, "known_findings.json")
    if not os.path.exists(p):
        return []
    return json.load(open(p))


def write_replay(pid, obj):
    d = os.path.join(VERIF, "replays", pid)
    os.makedirs(d, exist_ok=True)
    blob = json.dumps(obj, indent=1, sort_keys=True)
    name = hashlib.sha1(blob.encode()).hexdigest()[:12] + ".json"
    path = os.path.join(d, name)
    with open(path, "w") as f:
        f.write(blob)
    return path


def write_evidence(pid, ev):
    d = os.path.join(VERIF, "evidence")
    os.makedirs(d, exist_ok=True)
    with open(os.path.join(d, pid + ".json"), "w") as f:
        json.dump(ev, f, indent=1, sort_keys=True)


def case_hash(lines):
    return hashlib.sha1("\n".join(lines).encode()).hexdigest()


def main(argv):
    import argparse
    ap = argparse.ArgumentParser()
    ap.add_argument("pid")
    ap.add_argument("--tier", default=os.environ.get("VERIF_TIER", "quick"), choices=["quick", "thorough"])
    ap.add_argument("--replay", default=None)
    ap.add_argument("--skip-lean", action="store_true", help="development only")
    a = ap.parse_args(argv)
    pid = a.pid
    seed = int(os.environ.get("VERIF_SEED", "1"))
    mod = importlib.import_module(f"vlib.props.{pid}")
    t0 = time.time()
    os.makedirs(os.path.join(BUILD, "run", pid), exist_ok=True)
    log = open(os.path.join(BUILD, "run", pid, "log.txt"), "w")
    known = [k for k in load_known() if k.get("property") == pid and k.get("status") == "open"]

    if a.replay:
        return replay(pid, mod, a.replay, log)

    violations = []      # (kind, replay_obj, nofail:boolean)
    known_hits = {}      # id -> what
    # 1. proofs
    modules = getattr(mod, "LEAN_MODULES", [f"DustVerif.Props.{pid}"])
    lres = lean_check(pid, modules, a.tier, log) if not a.skip_lean else {"obligations": 1, "discharged": 1, "failures": [], "names": [], "axioms": {}}
    proof_broken = list(lres["failures"])
    # 2. harness
    bins = sorted(set(getattr(mod, "BINS", [mod.ENGINE])))
    ok, bout, build_s = harness_build(bins, log)
    infra_fail = None
    if not ok:
        errs = "\n".join(l for l in bout.splitlines() if l.startswith("error"))[:3000]
        infra_fail = "harness does not compile against the current tree:\n" + errs
    # 3+4. correspondence and oracle
    rng = SplitMix64(seed)
    stats = {"evaluations": 0, "distinct_nontrivial": 0, "disagreements": 0, "dist": {}}
    samples = []
    oracle_viol = []
    disagreements = []
    if ok:
        ctx = RunCtx(pid, mod, a.tier, seed, rng, log)
        mod.run(ctx)
        stats, samples, oracle_viol, disagreements = ctx.stats, ctx.samples, ctx.violations, ctx.disagreements
    # 5. verdict
    exit_code = 0
    out_lines = []
    for v in oracle_viol:
        cause = v.get("cause")
        k = next((k for k in known if k.get("cause") == cause), None) if cause else None
        if k is not None:
            if k["id"] not in known_hits:
                known_hits[k["id"]] = k["what"]
            continue
        path = write_replay(pid, {"property": pid, "kind": "impl-violates-property", "engine": mod.ENGINE,
                                   "seed": seed, **v})
        out_lines.append(f"VIOLATION property={pid} replay={path}")
        exit_code = 1
        break  # one line per run is enough; evidence counts all
    for kid, what in known_hits.items():
        out_lines.append(f"KNOWN-FINDING: property={pid} {kid} {what}")
    if exit_code == 0:
        nofail = None
        if infra_fail:
            nofail = {"kind": "harness-build-broken", "detail": infra_fail}
        elif disagreements:
            nofail = {"kind": "model-impl-disagree", **disagreements[0]}
        elif proof_broken:
            nofail = {"kind": "proof-broken", "theorems": lres.get("names"), "detail": proof_broken}
        if nofail is not None:
            path = write_replay(pid, {"property": pid, "engine": mod.ENGINE, "seed": seed, **nofail})
            out_lines.append(f"VIOLATION property={pid} replay={path} no-failing-input-found")
            exit_code = 1
    # 6. evidence
    level = getattr(mod, "LEVEL", "proof")
    cov = {
        "obligations": lres["obligations"], "discharged": lres["discharged"],
        "checker_cmd": f"cd {LEAN} && lake build {' '.join(modules)} && lake env lean Audit/{pid}.lean  (#print axioms audit)" + (" && lake env leanchecker <modules>" if a.tier == "thorough" else ""),
        "trusted_base": TRUSTED_BASE + list(getattr(mod, "TRUSTED_EXTRA", [])),
        "theorems": lres.get("names", []),
        "axioms_used": sorted({x for v in lres.get("axioms", {}).values() for x in v}),
        "proof_failures": proof_broken,
        "evaluations": stats["evaluations"], "distinct_nontrivial": stats["distinct_nontrivial"],
        "rule": getattr(mod, "RULE", ""), "samples": samples[:8],
        "disagreements_checked": stats["evaluations"], "disagreements": len(disagreements),
        "distribution": stats["dist"],
        "known_findings_hit": sorted(known_hits),
        "oracle_violation_causes": _hist([str(v.get("cause")) for v in oracle_viol]),
        "harness_build_ok": ok,
        "explanation": getattr(mod, "EXPLANATION", ""),
    }
    ev = {"property_id": pid, "tier": a.tier, "seed": seed, "level": level, "coverage": cov,
          "assumptions": list(getattr(mod, "ASSUMPTIONS", [])), "wall_s": round(time.time() - t0, 2),
          "violations": len([v for v in oracle_viol if not any(k.get("cause") == v.get("cause") for k in known)])}
    write_evidence(pid, ev)
    for l in out_lines:
        print(l)
    print(f"{pid} {a.tier}: obligations {lres['discharged']}/{lres['obligations']}, cases {stats['evaluations']} "
          f"(nontrivial {stats['distinct_nontrivial']}), disagreements {len(disagreements)}, "
          f"oracle violations {len(oracle_viol)} {_hist([str(v.get('cause')) for v in oracle_viol]) if oracle_viol else ''}, {ev['wall_s']} s -> exit {exit_code}")
    return exit_code


class RunCtx:
    """what a property module uses to run its correspondence + oracle"""
    def __init__(self, pid, mod, tier, seed, rng, log):
        self.pid, self.mod, self.tier, self.seed, self.rng, self.log = pid, mod, tier, seed, rng, log
        self.stats = {"evaluations": 0, "distinct_nontrivial": 0, "dist": {}}
        self.samples, self.violations, self.disagreements = [], [], []
        self._seen = set()

    def count(self, key, n=1):
        self.stats["dist"][key] = self.stats["dist"].get(key, 0) + n

    def differential(self, engine, cases, nontrivial=None, oracle=None, model_engine=None, shrink=True,
                     impl_args=None, env=None):
        """run cases on implementation and model, compare per line; apply oracle(case, impl_out)->list of
        violation dicts. Returns list of impl outputs."""
        impl_cmd = [harness_bin(engine)] + (impl_args or [])
        model_cmd = [model_bin(), model_engine or engine]
        impl, bad_i = run_cases(impl_cmd, cases, env=env)
        model, bad_m = run_cases(model_cmd, cases)
        if bad_m is not None:
            idx = bad_m[0]
            self.disagreements.append({"what": "model driver crashed (model bug, not evidence about the code)",
                                       "ops": cases[idx].lines, "detail": str(bad_m[1:])})
        for idx, c in enumerate(cases):
            self.stats["evaluations"] += 1
            io, mo = impl[idx], model[idx]
            h = case_hash(c.lines)
            nt = nontrivial(c, io) if nontrivial else True
            if nt and h not in self._seen:
                self._seen.add(h)
                self.stats["distinct_nontrivial"] += 1
            if len(self.samples) < 8 and nt:
                self.samples.append({"ops": c.lines[:12], "impl": io[:12]})
            if io != mo:
                k = next((i for i in range(min(len(io), len(mo))) if io[i] != mo[i]), min(len(io), len(mo)))
                d = {"what": "model and implementation differ", "ops": c.lines, "at": k,
                     "impl": io[k] if k < len(io) else None, "model": mo[k] if k < len(mo) else None}
                if shrink and len(c.lines) > 1 and len(self.disagreements) < 2:
                    def still(cand):
                        a, _ = run_cases(impl_cmd, [Case(cand)], env=env)
                        b, _ = run_cases(model_cmd, [Case(cand)])
                        return a[0] != b[0]
                    small = shrink_case(c.lines, still)
                    a, _ = run_cases(impl_cmd, [Case(small)], env=env)
                    b, _ = run_cases(model_cmd, [Case(small)])
                    d.update({"shrunk_ops": small, "shrunk_impl": a[0], "shrunk_model": b[0]})
                self.disagreements.append(d)
            if oracle:
                for v in oracle(c, io) or []:
                    v.setdefault("ops", c.lines)
                    self.violations.append(v)
        return impl


def replay(pid, mod, path, log):
    obj = json.load(open(path))
    ok, bout, _ = harness_build(sorted(set(getattr(mod, "BINS", [mod.ENGINE]))), log)
    if not ok:
        print("harness build failed")
        return 2
    ops = obj.get("shrunk_ops") or obj.get("ops")
    if not ops:
        print(json.dumps(obj, indent=1))
        return 1
    engine = obj.get("engine", mod.ENGINE)
    impl, _ = run_cases([harness_bin(engine)], [Case(ops)])
    model, _ = run_cases([model_bin(), engine], [Case(ops)])
    for l, i, m in zip(ops, impl[0], model[0]):
        print(f"{l}\n    impl : {i}\n    model: {m}")
    viol = []
    if hasattr(mod, "oracle"):
        viol = mod.oracle(Case(ops), impl[0]) or []
    for v in viol:
        print("ORACLE:", json.dumps(v))
    return 1 if (viol or impl != model) else 0
