"""Shared code of the engine `gen` (C40 derive macro, C41 IDL compiler).

The implementation under test is a proc-macro / a code generator, so the Rust side of the correspondence is
a GENERATED CRATE (under .build/gencrates/, compiled against the repo checkout the harness uses, sharing the
harness's cargo target dir). Its binary reads the same op lines as the Lean driver (`dustmodel gen`) and
answers for the declaration with the index given in the line; it ignores the AST text.

Textual AST (s-expressions, one op per line) -- see notes/gen.md:
  decl <i> TYPE                         -> description of the i-th declaration (`<T as TypeSupport>::get_type()`)
  val  <i> <k> TYPE VALUE               -> round trip of the k-th value of declaration i
"""
import hashlib, os, re, shutil, subprocess, sys, time

VERIF = os.path.dirname(os.path.dirname(os.path.abspath(__file__)))
BUILD = os.path.join(VERIF, ".build")
HARNESS = os.path.join(VERIF, "harness")
GENCRATES = os.path.join(BUILD, "gencrates")
ENGINE = "gen"


# ------------------------------------------------------------------------------------------ s-expressions

def sx(o):
    if isinstance(o, (list, tuple)):
        return "(" + " ".join(sx(x) for x in o) + ")"
    return str(o)


def parse_sexp(s):
    toks = re.findall(r"\(|\)|[^\s()]+", s)
    pos = 0

    def go():
        nonlocal pos
        t = toks[pos]
        pos += 1
        if t == "(":
            out = []
            while toks[pos] != ")":
                out.append(go())
            pos += 1
            return out
        return t
    out = []
    while pos < len(toks):
        out.append(go())
    return out


# ------------------------------------------------------------------------------------------ derive: types

PRIMS = ["u8", "i8", "u16", "i16", "u32", "i32", "u64", "i64", "f32", "f64", "bool", "char", "string"]
INTS = ["u8", "i8", "u16", "i16", "u32", "i32", "u64", "i64"]
RANGE = {"u8": (0, 255), "i8": (-128, 127), "u16": (0, 65535), "i16": (-32768, 32767), "u32": (0, 2**32 - 1),
         "i32": (-2**31, 2**31 - 1), "u64": (0, 2**64 - 1), "i64": (-2**63, 2**63 - 1), "bool": (0, 1), "char": (0, 127)}
KIND = {"u8": "UINT8", "i8": "INT8", "u16": "UINT16", "i16": "INT16", "u32": "UINT32", "i32": "INT32", "u64": "UINT64",
        "i64": "INT64", "f32": "FLOAT32", "f64": "FLOAT64", "bool": "BOOLEAN", "char": "CHAR8", "string": "STRING8"}
U32MAX = 2**32 - 1
CHARS = "abcxyzABZ019"


def prim(p): return {"k": "prim", "p": p}
def vec(t): return {"k": "vec", "t": t}
def arr(n, t): return {"k": "arr", "n": n, "t": t}
def opt(t): return {"k": "opt", "t": t}


def field(name, t, key=False, id=None, optional=False, nonser=False, hashid=False):
    return {"name": name, "key": key, "id": id, "optional": optional, "nonser": nonser, "hashid": hashid, "t": t}


def struct(ident, fields, ext="final", nested=False, tuple_=False, rename=None):
    return {"k": "struct", "ident": ident, "rename": rename, "ext": ext, "nested": nested, "tuple": tuple_, "fields": fields}


def enum(ident, variants, bits=32, dflt=0, nested=False, rename=None):
    return {"k": "enum", "ident": ident, "rename": rename, "nested": nested, "bits": bits, "dflt": dflt, "variants": variants}


def variant(name, t=None, cases=(), default=False, field_name=None):
    return {"name": name, "cases": list(cases), "default": default, "field": field_name, "t": t}


def union(ident, disc, variants, ext="final", nested=False, dkey=False, rename=None):
    return {"k": "union", "ident": ident, "rename": rename, "ext": ext, "nested": nested, "disc": disc, "dkey": dkey,
            "variants": variants}


def b01(b): return "1" if b else "0"
def optatom(x): return "-" if x is None else str(x)


def ty_sexp(t):
    k = t["k"]
    if k == "prim":
        return t["p"]
    if k == "vec":
        return ["vec", ty_sexp(t["t"])]
    if k == "arr":
        return ["arr", t["n"], ty_sexp(t["t"])]
    if k == "opt":
        return ["opt", ty_sexp(t["t"])]
    if k == "struct":
        return ["struct", t["ident"], optatom(t["rename"]), t["ext"], b01(t["nested"]), b01(t["tuple"]),
                [["f", f["name"], b01(f["key"]), optatom(f["id"]), b01(f["optional"]), b01(f["nonser"]), b01(f["hashid"]),
                  ty_sexp(f["t"])] for f in t["fields"]]]
    if k == "enum":
        return ["enum", t["ident"], optatom(t["rename"]), b01(t["nested"]), t["bits"], t["dflt"],
                [[n, optatom(d)] for n, d in t["variants"]]]
    if k == "union":
        return ["union", t["ident"], optatom(t["rename"]), t["ext"], b01(t["nested"]), t["disc"], b01(t["dkey"]),
                [["v", v["name"], list(v["cases"]), b01(v["default"]), optatom(v["field"])] +
                 ([ty_sexp(v["t"])] if v["t"] is not None else []) for v in t["variants"]]]
    raise ValueError(k)


def ty_from_sexp(s):
    if isinstance(s, str):
        assert s in PRIMS, s
        return prim(s)
    h = s[0]
    if h == "vec":
        return vec(ty_from_sexp(s[1]))
    if h == "arr":
        return arr(int(s[1]), ty_from_sexp(s[2]))
    if h == "opt":
        return opt(ty_from_sexp(s[1]))
    un = lambda x: None if x == "-" else x
    if h == "struct":
        return struct(s[1], [field(f[1], ty_from_sexp(f[7]), f[2] == "1", None if f[3] == "-" else int(f[3]), f[4] == "1",
                                   f[5] == "1", f[6] == "1") for f in s[6]],
                      s[3], s[4] == "1", s[5] == "1", un(s[2]))
    if h == "enum":
        return enum(s[1], [(v[0], None if v[1] == "-" else int(v[1])) for v in s[6]], int(s[4]), int(s[5]), s[3] == "1", un(s[2]))
    if h == "union":
        return union(s[1], s[5], [variant(v[1], ty_from_sexp(v[5]) if len(v) > 5 else None, [int(c) for c in v[2]],
                                          v[3] == "1", un(v[4])) for v in s[7]],
                     s[3], s[4] == "1", s[6] == "1", un(s[2]))
    raise ValueError(h)


def is_elem(t): return t["k"] in ("prim", "struct", "enum", "union")


def defaultable(t):
    k = t["k"]
    if k == "union":
        return False
    if k == "arr":
        return t["n"] <= 32 and defaultable(t["t"])
    if k == "struct":
        return all(defaultable(f["t"]) for f in t["fields"])
    return True


def field_mode(s, f):
    if f["nonser"]:
        return "skip"
    if f["optional"] or (s["tuple"] and s["ext"] == "mutable"):
        return "opt"
    return "plain"


def walk(t, fn):
    """pre-order over the declaration tree"""
    fn(t)
    k = t["k"]
    if k in ("vec", "arr", "opt"):
        walk(t["t"], fn)
    elif k == "struct":
        for f in t["fields"]:
            walk(f["t"], fn)
    elif k == "union":
        for v in t["variants"]:
            if v["t"] is not None:
                walk(v["t"], fn)


# ------------------------------------------------------------------------------------------ derive: Rust text

def rust_ty(t):
    k = t["k"]
    if k == "prim":
        return "String" if t["p"] == "string" else t["p"]
    if k == "vec":
        return f"Vec<{rust_ty(t['t'])}>"
    if k == "arr":
        return f"[{rust_ty(t['t'])}; {t['n']}]"
    if k == "opt":
        return f"Option<{rust_ty(t['t'])}>"
    return t["ident"]


def _style_rng(*key):
    """deterministic pseudo-random choices derived from the declaration itself, so that a replay (which regenerates the Rust text
    from the op lines alone) writes the same concrete spelling"""
    h = int(hashlib.sha1("|".join(str(k) for k in key).encode()).hexdigest()[:15], 16)

    class R:
        def __init__(self, s): self.s = s
        def below(self, n):
            self.s = (self.s * 6364136223846793005 + 1442695040888963407) & 0xFFFFFFFFFFFFFFFF
            return (self.s >> 33) % n if n > 0 else 0
    return R(h)


def spell_attrs(a, *key, keep_order=()):
    """the same attribute set in one of its concrete spellings: ONE combined `#[dust_dds(a, b)]`, or split
    `#[dust_dds(a)] #[dust_dds(b)]` (any grouping), in any order — except that the entries named in `keep_order`
    (union `case`s: the first one is the label that is written) keep their relative order. Order and grouping do not
    change the declaration (attributes.rs reads every `dust_dds` attribute), so the model's AST is the same."""
    if not a:
        return ""
    r = _style_rng(*key)
    a = list(a)
    # shuffle, then restore the relative order of the `keep_order` entries
    for i in range(len(a) - 1, 0, -1):
        j = r.below(i + 1)
        a[i], a[j] = a[j], a[i]
    fixed = [x for x in keep_order if x in a]
    it = iter(fixed)
    a = [next(it) if x in fixed else x for x in a]
    mode = r.below(3)           # 0: one combined attribute, 1: one attribute per entry, 2: random grouping
    groups = []
    for x in a:
        if groups and (mode == 0 or (mode == 2 and r.below(2) == 0)):
            groups[-1].append(x)
        else:
            groups.append([x])
    sep = [" ", "\n", ""][r.below(3)]
    return sep.join("#[dust_dds(" + ", ".join(g) + ("," if r.below(4) == 0 else "") + ")]" for g in groups) + " "


def rust_decls(t, seen, out):
    """Rust item for every declared type of the tree (children first), once per identifier"""
    k = t["k"]
    if k in ("vec", "arr", "opt"):
        rust_decls(t["t"], seen, out)
        return
    if k == "prim" or t["ident"] in seen:
        return
    seen.add(t["ident"])
    if k == "struct":
        for f in t["fields"]:
            rust_decls(f["t"], seen, out)
        attrs = []
        if t["rename"] is not None:
            attrs.append(f'name = "{t["rename"]}"')
        if t["ext"] != "final" or len(t["ident"]) % 2 == 0:   # "final" is also the default: write it half of the time
            attrs.append(f'extensibility = "{t["ext"]}"')
        if t["nested"]:
            attrs.append("nested")
        derives = "Debug, Clone, PartialEq, DdsType" + (", Default" if defaultable(t) else "")
        s = f"#[derive({derives})]\n" + spell_attrs(attrs, t["ident"]) + "\n"
        items = []
        for f in t["fields"]:
            a = []
            if f["key"]: a.append("key")
            if f["id"] is not None: a.append(f"id = {f['id']}")
            if f["optional"]: a.append("optional")
            if f["nonser"]: a.append("non_serialized")
            if f["hashid"]: a.append("hashid")
            at = spell_attrs(a, t["ident"], f["name"])
            items.append(at + ("" if t["tuple"] else f"{f['name']}: ") + rust_ty(f["t"]))
        if t["tuple"]:
            s += f"struct {t['ident']}({', '.join(items)});\n"
        else:
            s += f"struct {t['ident']} {{ {', '.join(items)} }}\n"
        out.append(s)
    elif k == "enum":
        attrs = []
        if t["rename"] is not None:
            attrs.append(f'name = "{t["rename"]}"')
        if t["nested"]:
            attrs.append("nested")
        if t["bits"] != 32 or len(t["ident"]) % 2 == 0:
            attrs.append(f'bit_bound = "{t["bits"]}"')
        s = "#[derive(Debug, Clone, PartialEq, DdsType, Default)]\n" + spell_attrs(attrs, t["ident"]) + "\n"
        vs = []
        for i, (n, d) in enumerate(t["variants"]):
            vs.append(("#[default] " if i == t["dflt"] else "") + n + (f" = {d}" if d is not None else ""))
        s += f"enum {t['ident']} {{ {', '.join(vs)} }}\n"
        out.append(s)
    elif k == "union":
        for v in t["variants"]:
            if v["t"] is not None:
                rust_decls(v["t"], seen, out)
        attrs = [f"switch({'key, ' if t['dkey'] else ''}{t['disc']})"]
        if t["rename"] is not None:
            attrs.append(f'name = "{t["rename"]}"')
        if t["ext"] != "final":
            attrs.append(f'extensibility = "{t["ext"]}"')
        if t["nested"]:
            attrs.append("nested")
        s = "#[derive(Debug, Clone, PartialEq, DdsType)]\n" + spell_attrs(attrs, t["ident"]) + "\n"
        vs = []
        for v in t["variants"]:
            a = [f"case = {c}" for c in v["cases"]] + (["default"] if v["default"] else [])
            at = spell_attrs(a, t["ident"], v["name"], keep_order=[f"case = {c}" for c in v["cases"]])
            if v["t"] is None:
                vs.append(at + v["name"])
            elif v["field"] is not None:
                vs.append(at + f"{v['name']} {{ {v['field']}: {rust_ty(v['t'])} }}")
            else:
                vs.append(at + f"{v['name']}({rust_ty(v['t'])})")
        s += f"enum {t['ident']} {{ {', '.join(vs)} }}\n"
        out.append(s)


def fl_str(q):
    """Rust `{:?}` of the float q/4"""
    s = "-" if q < 0 else ""
    a = abs(q)
    return f"{s}{a // 4}.{['0', '25', '5', '75'][a % 4]}"


def rust_val(t, v):
    k = t["k"]
    if k == "prim":
        p = t["p"]
        if p in ("f32", "f64"):
            return f"{fl_str(v[1])}{p}"
        if p == "string":
            return f'String::from("{v[1]}")'
        if p == "bool":
            return "true" if v[1] else "false"
        if p == "char":
            return "'\\0'" if v[1] == 0 else f"'{chr(v[1])}'"
        return f"({v[1]}{p})" if v[1] < 0 else f"{v[1]}{p}"
    if k == "vec":
        return "vec![" + ", ".join(rust_val(t["t"], x) for x in v[1]) + "]"
    if k == "arr":
        return "[" + ", ".join(rust_val(t["t"], x) for x in v[1]) + "]"
    if k == "opt":
        return "None" if v[0] == "none" else f"Some({rust_val(t['t'], v[1])})"
    if k == "struct":
        if t["tuple"]:
            return f"{t['ident']}(" + ", ".join(rust_val(f["t"], x) for f, x in zip(t["fields"], v[1])) + ")"
        return f"{t['ident']} {{ " + ", ".join(f"{f['name']}: {rust_val(f['t'], x)}" for f, x in zip(t["fields"], v[1])) + " }"
    if k == "enum":
        return f"{t['ident']}::{t['variants'][v[1]][0]}"
    if k == "union":
        va = t["variants"][v[1]]
        if va["t"] is None:
            return f"{t['ident']}::{va['name']}"
        if va["field"] is not None:
            return f"{t['ident']}::{va['name']} {{ {va['field']}: {rust_val(va['t'], v[2])} }}"
        return f"{t['ident']}::{va['name']}({rust_val(va['t'], v[2])})"
    raise ValueError(k)


def val_sexp(v):
    h = v[0]
    if h == "i": return f"I{v[1]}"
    if h == "f": return f"F{v[1]}"
    if h == "s": return f"S{v[1]}"
    if h == "none": return "N"
    if h == "some": return ["some", val_sexp(v[1])]
    if h == "l": return ["l"] + [val_sexp(x) for x in v[1]]
    if h == "st": return ["st"] + [val_sexp(x) for x in v[1]]
    if h == "e": return ["e", v[1]]
    if h == "u": return ["u", v[1]] + ([val_sexp(v[2])] if v[2] is not None else [])
    raise ValueError(h)


def val_from_sexp(s):
    if isinstance(s, str):
        if s == "N": return ("none",)
        if s[0] == "I": return ("i", int(s[1:]))
        if s[0] == "F": return ("f", int(s[1:]))
        if s[0] == "S": return ("s", s[1:])
        raise ValueError(s)
    h = s[0]
    if h == "some": return ("some", val_from_sexp(s[1]))
    if h == "l": return ("l", [val_from_sexp(x) for x in s[1:]])
    if h == "st": return ("st", [val_from_sexp(x) for x in s[1:]])
    if h == "e": return ("e", int(s[1]))
    if h == "u": return ("u", int(s[1]), val_from_sexp(s[2]) if len(s) > 2 else None)
    raise ValueError(h)


def dbg(t, v):
    """Rust `{:?}` (derived Debug) of a value -- written from the Rust formatting rules, independent of the Lean driver"""
    k = t["k"]
    if k == "prim":
        p = t["p"]
        if p in ("f32", "f64"): return fl_str(v[1])
        if p == "string": return f'"{v[1]}"'
        if p == "bool": return "true" if v[1] else "false"
        if p == "char": return "'\\0'" if v[1] == 0 else f"'{chr(v[1])}'"
        return str(v[1])
    if k in ("vec", "arr"):
        return "[" + ", ".join(dbg(t["t"], x) for x in v[1]) + "]"
    if k == "opt":
        return "None" if v[0] == "none" else f"Some({dbg(t['t'], v[1])})"
    if k == "struct":
        if not t["fields"]:
            return t["ident"]
        if t["tuple"]:
            return f"{t['ident']}(" + ", ".join(dbg(f["t"], x) for f, x in zip(t["fields"], v[1])) + ")"
        return f"{t['ident']} {{ " + ", ".join(f"{f['name']}: {dbg(f['t'], x)}" for f, x in zip(t["fields"], v[1])) + " }"
    if k == "enum":
        return t["variants"][v[1]][0]
    if k == "union":
        va = t["variants"][v[1]]
        if va["t"] is None: return va["name"]
        if va["field"] is not None: return f"{va['name']} {{ {va['field']}: {dbg(va['t'], v[2])} }}"
        return f"{va['name']}({dbg(va['t'], v[2])})"
    raise ValueError(k)


def default_val(t):
    k = t["k"]
    if k == "prim":
        p = t["p"]
        return ("f", 0) if p in ("f32", "f64") else ("s", "") if p == "string" else ("i", 0)
    if k == "vec": return ("l", [])
    if k == "arr": return ("l", [default_val(t["t"]) for _ in range(t["n"])])
    if k == "opt": return ("none",)
    if k == "struct": return ("st", [default_val(f["t"]) for f in t["fields"]])
    if k == "enum": return ("e", t["dflt"])
    raise ValueError("union has no default")


def scrub(t, v):
    """the value the round trip must return: non_serialized members as their default"""
    k = t["k"]
    if k == "opt" and v[0] == "some": return ("some", scrub(t["t"], v[1]))
    if k in ("vec", "arr"): return ("l", [scrub(t["t"], x) for x in v[1]])
    if k == "struct":
        return ("st", [default_val(f["t"]) if f["nonser"] else scrub(f["t"], x) for f, x in zip(t["fields"], v[1])])
    if k == "union" and v[2] is not None:
        return ("u", v[1], scrub(t["variants"][v[1]]["t"], v[2]))
    return v


def has_bare_none(t, v):
    """a `None` in an Option member without `#[dust_dds(optional)]`: documented to panic (data_storage.rs:663)"""
    k = t["k"]
    if k in ("vec", "arr"): return any(has_bare_none(t["t"], x) for x in v[1])
    if k == "opt": return v[0] == "some" and has_bare_none(t["t"], v[1])
    if k == "struct":
        for f, x in zip(t["fields"], v[1]):
            m = field_mode(t, f)
            if m == "skip":
                continue
            if f["t"]["k"] == "opt" and x[0] == "none":
                if m == "plain":
                    return True
                continue
            if m == "opt" and x == default_val(f["t"]) if defaultable(f["t"]) else False:
                continue
            if has_bare_none(f["t"], x): return True
        return False
    if k == "union" and v[2] is not None:
        va = t["variants"][v[1]]
        if va["t"]["k"] == "opt" and v[2][0] == "none": return True
        return has_bare_none(va["t"], v[2])
    return False


# ------------------------------------------------------------------------------------------ derive: documented rules (oracle)

def md5_id(name):
    return int.from_bytes(hashlib.md5(name.encode()).digest()[:4], "little")


def documented_ids(s):
    """README 'Struct Field Attributes' + XTypes 1.3 7.3.1.2.1.1: an explicit id is the member's id, `hashid` is the MD5-derived id,
    every other member gets the id of the previous member plus one (the first one 0)."""
    out, nxt = [], 0
    positional = s["ext"] != "mutable" and not any(f["id"] is not None and not f["hashid"] for f in s["fields"])
    for i, f in enumerate(s["fields"]):
        name = str(i) if s["tuple"] else f["name"]
        if f["hashid"]:
            out.append(md5_id(name))
            continue
        # without any explicit id in a final / appendable type the ids are the positions (what a member after a `hashid`
        # member gets is not documented anywhere; the position is taken as the rule there)
        x = i if positional else (f["id"] if f["id"] is not None else nxt)
        out.append(x)
        nxt = x + 1
    return out


def enum_values(e):
    out, n = [], 0
    for _, d in e["variants"]:
        if d is not None:
            n = d
        out.append(n)
        n += 1
    return out


def expected_desc(t):
    """description tree [kind, name, ext, nested, bounds, elem, disc, members] the declaration documents"""
    k = t["k"]
    if k == "prim":
        if t["p"] == "string":
            return ["STRING8", '""', "F", "0", [str(U32MAX)], "-", "-", []]
        return [KIND[t["p"]], '""', "F", "1", [], "-", "-", []]
    if k == "opt":
        return expected_desc(t["t"])
    if k == "arr":
        return ["ARRAY", '""', "F", "0", [str(t["n"])], expected_desc(t["t"]), "-", []]
    if k == "vec":
        name = '""' if t["t"]["k"] == "prim" else '"SequenceComplexValue"'
        return ["SEQUENCE", name, "F", "0", [str(U32MAX)], expected_desc(t["t"]), "-", []]
    nm = '"' + (t["rename"] if t["rename"] is not None else t["ident"]) + '"'
    if k == "struct":
        ids = documented_ids(t)
        ms = []
        for i, f in enumerate(t["fields"]):
            ms.append(["m", '"' + (str(i) if t["tuple"] else f["name"]) + '"', str(ids[i]), str(i), b01(f["key"]), b01(f["optional"]),
                       b01(f["key"]), [], "0", expected_desc(f["t"])])
        return ["STRUCTURE", nm, t["ext"][0].upper(), b01(t["nested"]), [], "-", "-", ms]
    if k == "enum":
        disc = expected_desc(prim({8: "i8", 16: "i16", 32: "i32"}[t["bits"]]))
        ms = [["m", '"' + n + '"', str(v), str(i), "0", "0", "0", [], b01(i == t["dflt"] and False), "-"]
              for i, ((n, _), v) in enumerate(zip(t["variants"], enum_values(t)))]
        return ["ENUM", nm, "F", b01(t["nested"]), [], "-", disc, ms]
    if k == "union":
        d = expected_desc(prim(t["disc"]))
        ms = [["m", '"discriminator"', "0", "0", b01(t["dkey"]), "0", "1", [], "0", d]]
        for i, v in enumerate(t["variants"]):
            labels = [str(c) for c in v["cases"]] if v["cases"] or v["default"] else [str(i)]   # README: "defaults to the 0-indexed index"
            ms.append(["m", '"' + v["name"] + '"', str(i + 1), str(i + 1), "0", "0", "0", labels, b01(v["default"]),
                       expected_desc(v["t"]) if v["t"] is not None else ["NONE", '""', "F", "0", [], "-", "-", []]])
        return ["UNION", nm, t["ext"][0].upper(), b01(t["nested"]), [], "-", d, ms]
    raise ValueError(k)


def code_ids(s):
    """member ids as the expansion computes them (used only to CLASSIFY a deviation, never to accept one)"""
    out, nxt = [], 0
    for i, f in enumerate(s["fields"]):
        name = str(i) if s["tuple"] else f["name"]
        if f["hashid"]:
            out.append(md5_id(name))
            continue
        x = i if s["ext"] != "mutable" else (f["id"] if f["id"] is not None else nxt)
        out.append(x)
        nxt = x + 1
    return out


def compare_desc(t, got, path, viol):
    """compare the implementation's description tree with the documented one; appends violation dicts"""
    exp = expected_desc(t)
    _cmp(t, exp, got, path, viol)


def _cmp(t, exp, got, path, viol):
    if not isinstance(got, list) or len(got) != 8:
        viol.append({"what": f"{path}: malformed description {sx(got)[:200]}"})
        return
    names = ["kind", "name", "extensibility", "nested", "bound"]
    for i, n in enumerate(names):
        if exp[i] != got[i]:
            viol.append({"what": f"{path}: {n} is {sx(got[i])}, declared {sx(exp[i])}"})
    # element / discriminator
    while t["k"] == "opt":
        t = t["t"]
    for i, n in ((5, "element type"), (6, "discriminator type")):
        if (exp[i] == "-") != (got[i] == "-"):
            viol.append({"what": f"{path}: {n} is {sx(got[i])[:80]}, declared {sx(exp[i])[:80]}"})
        elif exp[i] != "-":
            if i == 5:
                _cmp(t["t"], exp[i], got[i], path + "/elem", viol)     # (D-gen-4 repaired: Vec<i8> is no longer special)
            else:
                sub = prim(t["disc"]) if t["k"] == "union" else prim({8: "i8", 16: "i16", 32: "i32"}[t["bits"]])
                _cmp(sub, exp[i], got[i], path + "/disc", viol)
    em, gm = exp[7], got[7]
    if t["k"] == "enum":
        if gm == [] and em != []:
            viol.append({"what": f"{path}: the enumerators {[m[1] for m in em]} and their values are not part of the published type (member list empty)",
                         "cause": "enum-literals-not-described"})
            return
    if len(em) != len(gm):
        viol.append({"what": f"{path}: {len(gm)} members published, {len(em)} declared"})
        return
    if t["k"] == "struct":
        gids = [int(m[2]) for m in gm]
        if len(set(gids)) != len(gids):
            viol.append({"what": f"{path}: member ids {gids} are not distinct"})
        explicit_nonmut = t["ext"] != "mutable" and any(f["id"] is not None and not f["hashid"] for f in t["fields"])
    for j, (e, g) in enumerate(zip(em, gm)):
        p2 = f"{path}.{e[1]}"
        for i, n in ((1, "name"), (3, "index"), (4, "key flag"), (5, "optional flag"), (6, "must-understand flag"), (8, "default-label flag")):
            if e[i] != g[i]:
                viol.append({"what": f"{p2}: {n} is {g[i]}, declared {e[i]}"})
        if e[2] != g[2]:
            v = {"what": f"{p2}: member id is {g[2]}, the declaration documents {e[2]}"}
            if t["k"] == "struct" and explicit_nonmut and [int(m[2]) for m in gm] == code_ids(t):
                v["cause"] = "explicit-id-ignored-unless-mutable"
            viol.append(v)
        if e[7] != g[7]:
            v = {"what": f"{p2}: labels are {g[7]}, declared {e[7]}"}
            if t["k"] == "union" and j >= 1 and not t["variants"][j - 1]["cases"] and g[7] == [str(j)]:
                v["cause"] = "union-implicit-label-is-index-plus-one"
            viol.append(v)
        if t["k"] == "struct":
            _cmp(t["fields"][j]["t"], e[9], g[9], p2, viol)
        elif t["k"] == "union":
            if j == 0:
                _cmp(prim(t["disc"]), e[9], g[9], p2, viol)
            elif t["variants"][j - 1]["t"] is not None:
                _cmp(t["variants"][j - 1]["t"], e[9], g[9], p2, viol)
            elif e[9] != g[9]:
                viol.append({"what": f"{p2}: unit variant type is {sx(g[9])[:80]}"})


def union_select(u, k):
    """which variant the generated `match disc {...}` should select for a value of variant k: k itself.
    Returns the cause string if the arms as documented cannot do that, else None (pure reading of the declaration).
    Since the repair of D-gen-5 the position of the default variant does not matter: only a label collision is left."""
    def first(i, v): return v["cases"][0] if v["cases"] else i + 1
    d = first(k, u["variants"][k])
    for i, v in enumerate(u["variants"]):
        if v["default"] or i == k:
            if i == k and not v["default"]:
                return None          # the first non-default arm with this label is k itself
            continue
        if first(i, v) == d:
            return "union-first-label-collision"
    return None


def roundtrip_blockers(t, v, out):
    """declaration features on the path of value v for which the round trip is known to fail (classification of known findings)"""
    k = t["k"]
    if k in ("vec", "arr"):
        for x in v[1]:
            roundtrip_blockers(t["t"], x, out)
    elif k == "opt" and v[0] == "some":
        roundtrip_blockers(t["t"], v[1], out)
    elif k == "struct":
        for f, x in zip(t["fields"], v[1]):
            if not f["nonser"]:
                roundtrip_blockers(f["t"], x, out)
    elif k == "union":
        c = union_select(t, v[1])
        if c:
            out.add(c)
        if v[2] is not None:
            roundtrip_blockers(t["variants"][v[1]]["t"], v[2], out)


# ------------------------------------------------------------------------------------------ derive: random generation

class DeriveGen:
    def __init__(self, rng, prefix="T"):
        self.r = rng
        self.n = 0
        self.prefix = prefix

    def ident(self, kind):
        self.n += 1
        return f"{self.prefix}{self.n}{kind}"

    def prim(self):
        r = self.r
        return prim(r.choice(PRIMS) if r.chance(2, 3) else r.choice(["u8", "i8", "i32", "string", "f32", "u64", "bool", "char"]))

    def elem(self, depth):
        r = self.r
        c = r.below(100)
        if depth >= 3 or c < 55:
            return self.prim()
        if c < 80:
            return self.struct(depth + 1)
        if c < 92:
            return self.enum()
        return self.union(depth + 1)

    def ty(self, depth, allow_opt=True):
        r = self.r
        c = r.below(100)
        if c < 50:
            return self.elem(depth)
        if c < 65:
            return vec(self.elem(depth))
        if c < 77:
            return arr(r.choice([0, 1, 2, 3, 3, 5, 33]), self.elem(depth))
        if allow_opt:
            c2 = r.below(10)
            inner = self.elem(depth) if c2 < 5 else vec(self.elem(depth)) if c2 < 8 else arr(r.choice([1, 2, 4]), self.elem(depth))
            return opt(inner)
        return self.elem(depth)

    def struct(self, depth=0, wild=None):
        r = self.r
        if wild is None:
            wild = r.chance(1, 8)
        ext = r.choice(["final", "appendable", "mutable", "mutable"])
        tuple_ = r.chance(1, 7)
        nf = r.choice([0, 1, 1, 2, 2, 3, 3, 4, 5, 6]) if depth == 0 else r.choice([1, 1, 2, 2, 3])
        fields = []
        names = r.shuffle(["a", "b", "c", "d", "id", "value", "x", "y", "key_", "msg", "seq", "data"])[:nf]
        explicit = r.chance(1, 2) and (ext == "mutable" or r.chance(1, 6))
        for i in range(nf):
            t = self.ty(depth)
            f = field(names[i], t)
            if t["k"] == "opt":
                f["optional"] = not r.chance(1, 25)             # a bare Option member is rare: None panics (documented)
            elif r.chance(1, 14) and defaultable(t):
                f["optional"] = True                           # `optional` on a non-Option type: accepted by the macro
            if not f["optional"] and r.chance(1, 5):
                f["key"] = True
            if r.chance(1, 12) and defaultable(t):
                f["nonser"] = True
            if r.chance(1, 12):
                f["hashid"] = True
            elif explicit and r.chance(1, 2):
                if wild:
                    f["id"] = r.choice([0, 1, 2, 3, 5, 100, 2**28 - 1, 2**32 - 20])
                else:
                    # tame: larger than every id so far (explicit ids out of order only in the wild mode)
                    sofar = [x for x, g in zip(code_ids({"fields": fields, "tuple": tuple_, "ext": "mutable"}), fields) if not g["hashid"]]
                    f["id"] = (max(sofar) + 1 if sofar else 0) + r.choice([0, 0, 1, 2, 10, 100])
            fields.append(f)
        if tuple_ and ext == "mutable":
            # every member is compared with its default: it must have one
            fields = [f for f in fields if defaultable(f["t"])]
        s = struct(self.ident("S"), fields, ext, r.chance(1, 5), tuple_, None)
        if r.chance(1, 6):
            s["rename"] = r.choice(["Renamed", "my::scoped::Name", "X"]) + str(self.n)
        return s

    def enum(self):
        r = self.r
        bits = r.choice([8, 16, 32, 32])
        hi = {8: 127, 16: 32767, 32: 2**31 - 1}[bits]
        n = r.choice([1, 2, 3, 3, 4, 6])
        names = r.shuffle(["A", "B", "C", "Red", "Green", "Blue", "On", "Off"])[:n]
        vs, cur = [], 0
        gaps = r.chance(1, 2)
        for i in range(n):
            d = None
            if gaps and r.chance(1, 2):
                room = hi - (n - i)
                d = min(room, cur + r.choice([0, 1, 2, 5, 50, 100, hi]))
                cur = d
            vs.append((names[i], d))
            cur += 1
        return enum(self.ident("E"), vs, bits, r.below(n), r.chance(1, 5), None if r.chance(5, 6) else f"EnumName{self.n}")

    def union(self, depth=0, wild=None):
        r = self.r
        if wild is None:
            wild = r.chance(1, 6)
        disc = r.choice(["i32", "i32", "u8", "i8", "i16", "u16", "u32", "i64"])
        lo, hi = RANGE[disc]
        lo, hi = max(lo, -2**31), min(hi, 2**31 - 1)
        n = r.choice([1, 2, 2, 3, 3, 4, 5])
        names = r.shuffle(["Va", "Vb", "Vc", "Vd", "Ve", "Circle", "Square"])[:n]
        used = set()
        vs = []
        has_default = r.chance(1, 2)
        dpos = n - 1 if not wild else r.below(n)
        implicit = wild and r.chance(1, 2)
        for i in range(n):
            c = r.below(10)
            if c < 2:
                t, fname = None, None
            else:
                t = self.ty(depth + 1, allow_opt=False)
                fname = r.choice(["inner", "v"]) if r.chance(1, 3) else None
            cases = []
            if not (implicit and r.chance(1, 2)):
                for _ in range(r.choice([1, 1, 1, 2, 3])):
                    while True:
                        x = r.choice([lo, hi, 0, 1, 2, 3, 4, 5, 10, 100]) if r.chance(1, 2) else r.range(max(lo, -20), min(hi, 120))
                        if lo <= x <= hi and (x not in used or (wild and r.chance(1, 3))):
                            break
                    used.add(x)
                    cases.append(x)
            vs.append(variant(names[i], t, cases, has_default and i == dpos, fname))
        if all(v["t"] is None for v in vs):
            # an enum whose variants are all unit variants is an ENUMERATION for the macro (is_enum_xtypes_union)
            vs[r.below(n)]["t"] = self.ty(depth + 1, allow_opt=False)
        if not wild:
            # implicit labels (index + 1) must not collide with the explicit ones in the tame mode
            for i, v in enumerate(vs):
                if not v["cases"] and not v["default"]:
                    v["cases"] = [next(x for x in range(1, 200) if x not in used and lo <= x <= hi)]
                    used.add(v["cases"][0])
        return union(self.ident("U"), disc, vs, r.choice(["final", "appendable", "mutable"]), r.chance(1, 5), r.chance(1, 6),
                     None if r.chance(5, 6) else f"UnionName{self.n}")

    def top(self):
        c = self.r.below(100)
        if c < 70:
            return self.struct(0)
        if c < 83:
            return self.enum()
        return self.union(0)

    # ---- values
    def pval(self, p, mode):
        r = self.r
        if p in ("f32", "f64"):
            return ("f", 0 if mode == 0 else r.choice([1, -1, 2, 3, -6, 10, 400, -1023, 4096]))
        if p == "string":
            return ("s", "" if mode == 0 else "".join(r.choice(CHARS) for _ in range(r.choice([1, 1, 3, 8]))))
        if p == "bool":
            return ("i", 0 if mode == 0 else r.below(2))
        if p == "char":
            return ("i", 0 if mode == 0 else ord(r.choice(CHARS)))
        lo, hi = RANGE[p]
        if mode == 0:
            return ("i", 0)
        if mode == 1:
            return ("i", r.choice([lo, hi, lo + 1, hi - 1]))
        return ("i", r.choice([lo, hi, 0, 1, 2, 7, 100]) if r.chance(1, 3) else r.range(max(lo, -100), min(hi, 100)))

    def val(self, t, mode):
        """mode 0: all-default, 1: boundary, 2: random"""
        r = self.r
        k = t["k"]
        if k == "prim":
            return self.pval(t["p"], mode)
        if k == "vec":
            n = 0 if mode == 0 else r.choice([0, 1, 1, 2, 3])
            return ("l", [self.val(t["t"], mode) for _ in range(n)])
        if k == "arr":
            return ("l", [self.val(t["t"], mode) for _ in range(t["n"])])
        if k == "opt":
            if mode == 0 or r.chance(1, 4):
                return ("none",)
            return ("some", self.val(t["t"], mode))
        if k == "struct":
            return ("st", [self.val(f["t"], mode if r.chance(4, 5) else r.below(3)) for f in t["fields"]])
        if k == "enum":
            return ("e", t["dflt"] if mode == 0 else r.below(len(t["variants"])))
        if k == "union":
            i = r.below(len(t["variants"]))
            va = t["variants"][i]
            return ("u", i, self.val(va["t"], mode) if va["t"] is not None else None)
        raise ValueError(k)


# ------------------------------------------------------------------------------------------ generated crates

PRELUDE = r'''#![allow(warnings)]
use dust_dds::infrastructure::type_support::DdsType;
use dust_dds::xtypes::type_support::TypeSupport;
use dust_dds::xtypes::dynamic_type::{DynamicType, DynamicData, TypeKind, ExtensibilityKind};
use dust_dds::xtypes::data_storage::DataStorage;
use std::io::{BufRead, Write};
use std::panic::{catch_unwind, AssertUnwindSafe};

fn q(s: &str) -> String { format!("\"{}\"", s) }
fn join<T: std::fmt::Debug>(v: &[T]) -> String { v.iter().map(|x| format!("{:?}", x)).collect::<Vec<_>>().join(" ") }

/// canonical s-expression of a DynamicType: (KIND "name" F|A|M nested (bounds) elem|- disc|- (members))
fn desc(t: &DynamicType<'static>) -> String {
    let d = t.get_descriptor();
    let x = match d.extensibility_kind { ExtensibilityKind::Final => "F", ExtensibilityKind::Appendable => "A", ExtensibilityKind::Mutable => "M" };
    let b = d.bound.iter().map(|x| x.to_string()).collect::<Vec<_>>().join(" ");
    let e = d.element_type.as_ref().map(desc).unwrap_or("-".to_string());
    let di = d.discriminator_type.as_ref().map(desc).unwrap_or("-".to_string());
    let mut ms = Vec::new();
    for i in 0..t.get_member_count() {
        let m = &t.get_member_by_index(i).unwrap().descriptor;
        let l = m.label.iter().map(|x| x.to_string()).collect::<Vec<_>>().join(" ");
        ms.push(format!("(m {} {} {} {} {} {} ({}) {} {})", q(m.name), m.id, m.index, m.is_key as u8, m.is_optional as u8,
            m.is_must_understand as u8, l, m.is_default_label as u8, desc(&m.r#type)));
    }
    let base = if d.base_type.is_some() { " BASE" } else { "" };
    format!("({:?} {} {} {} ({}) {} {} ({}){})", d.kind, q(d.name), x, d.is_nested as u8, b, e, di, ms.join(" "), base)
}

fn st(s: &DataStorage) -> String {
    match s {
        DataStorage::UInt8(x) => format!("(u8 {x})"), DataStorage::Int8(x) => format!("(i8 {x})"),
        DataStorage::UInt16(x) => format!("(u16 {x})"), DataStorage::Int16(x) => format!("(i16 {x})"),
        DataStorage::UInt32(x) => format!("(u32 {x})"), DataStorage::Int32(x) => format!("(i32 {x})"),
        DataStorage::UInt64(x) => format!("(u64 {x})"), DataStorage::Int64(x) => format!("(i64 {x})"),
        DataStorage::Float32(x) => format!("(f32 {x:?})"), DataStorage::Float64(x) => format!("(f64 {x:?})"),
        DataStorage::Char8(x) => format!("(char {x:?})"), DataStorage::Boolean(x) => format!("(bool {x})"),
        DataStorage::String(x) => format!("(string {x:?})"),
        DataStorage::ComplexValue(d) => format!("(c {})", dynp(d)),
        DataStorage::SequenceUInt8(v) => format!("(u8s {})", join(v)), DataStorage::SequenceInt8(v) => format!("(i8s {})", join(v)),
        DataStorage::SequenceUInt16(v) => format!("(u16s {})", join(v)), DataStorage::SequenceInt16(v) => format!("(i16s {})", join(v)),
        DataStorage::SequenceUInt32(v) => format!("(u32s {})", join(v)), DataStorage::SequenceInt32(v) => format!("(i32s {})", join(v)),
        DataStorage::SequenceUInt64(v) => format!("(u64s {})", join(v)), DataStorage::SequenceInt64(v) => format!("(i64s {})", join(v)),
        DataStorage::SequenceFloat32(v) => format!("(f32s {})", join(v)), DataStorage::SequenceFloat64(v) => format!("(f64s {})", join(v)),
        DataStorage::SequenceChar8(v) => format!("(chars {})", join(v)), DataStorage::SequenceBoolean(v) => format!("(bools {})", join(v)),
        DataStorage::SequenceString(v) => format!("(strings {})", join(v)),
        DataStorage::SequenceComplexValue(v) => format!("(cs {})", v.iter().map(dynp).collect::<Vec<_>>().join(" ")),
        other => format!("(other {:?})", other),
    }
}

/// canonical s-expression of a DynamicData: (d (id storage) ...), ids ascending (BTreeMap order)
fn dynp(d: &DynamicData<'_>) -> String {
    let mut v = Vec::new();
    for i in 0..d.get_item_count() {
        let id = d.get_member_id_at_index(i).unwrap();
        v.push(format!("({} {})", id, st(d.get_value(id).unwrap())));
    }
    format!("(d {})", v.join(" "))
}

fn describe<T: TypeSupport>() -> String { format!("T {}", desc(&T::get_type())) }

/// create_dynamic_sample, then create_sample; `eq` by the derived PartialEq
fn rt<T: TypeSupport + PartialEq + std::fmt::Debug + Clone>(v: T) -> String {
    let v2 = v.clone();
    let d = match catch_unwind(AssertUnwindSafe(move || v2.create_dynamic_sample())) { Ok(d) => d, Err(_) => return "eq=0 dyn=PANIC rt=-".to_string() };
    let ds = dynp(&d);
    let mut d2 = d.clone();
    match catch_unwind(AssertUnwindSafe(move || T::create_sample(&mut d2))) {
        Err(_) => format!("eq=0 dyn={} rt=PANIC", ds),
        Ok(None) => format!("eq=0 dyn={} rt=None", ds),
        Ok(Some(b)) => format!("eq={} dyn={} rt=Some({:?})", (b == v) as u8, ds, b),
    }
}

fn main() {
    std::panic::set_hook(Box::new(|_| {}));
    let stdin = std::io::stdin();
    let stdout = std::io::stdout();
    let mut out = std::io::BufWriter::new(stdout.lock());
    for line in stdin.lock().lines() {
        let line = line.unwrap();
        let t: Vec<&str> = line.split_whitespace().collect();
        let r = match t.as_slice() {
            ["reset"] => "ok".to_string(),
            ["decl", i, ..] => answer_decl(i.parse().unwrap_or(usize::MAX)),
            ["val", i, k, ..] => answer_val(i.parse().unwrap_or(usize::MAX), k.parse().unwrap_or(usize::MAX)),
            _ => "bad-op".to_string(),
        };
        writeln!(out, "{}", r).unwrap();
    }
}
'''


def repo_dir():
    """the repo checkout the harness is built against (path of its dust_dds dependency)"""
    m = re.search(r'dust_dds\s*=\s*\{\s*path\s*=\s*"([^"]+)/dds"', open(os.path.join(HARNESS, "Cargo.toml")).read())
    return m.group(1)


def clean_gencrates(prefix):
    os.makedirs(GENCRATES, exist_ok=True)
    for d in os.listdir(GENCRATES):
        if d.startswith(prefix):
            shutil.rmtree(os.path.join(GENCRATES, d), ignore_errors=True)


def write_crate(dirname, pkg, main_rs, bins=None):
    """crate directory .build/gencrates/<dirname>: package <pkg> with bin <pkg> (src/main.rs) and optional extra bins {name: source}"""
    d = os.path.join(GENCRATES, dirname)
    shutil.rmtree(d, ignore_errors=True)
    os.makedirs(os.path.join(d, "src", "bin"), exist_ok=True)
    os.makedirs(os.path.join(d, ".cargo"), exist_ok=True)
    shutil.copy(os.path.join(HARNESS, "Cargo.lock"), os.path.join(d, "Cargo.lock"))
    # same flags as the harness; the (relative) target-dir of the harness config is made absolute so that dust_dds is shared
    cfg = open(os.path.join(HARNESS, ".cargo", "config.toml")).read()
    cfg = re.sub(r'target-dir\s*=\s*"[^"]*"', 'target-dir = "%s"' % os.path.join(os.path.dirname(HARNESS), ".build", "harness"), cfg)
    with open(os.path.join(d, ".cargo", "config.toml"), "w") as f:
        f.write(cfg)
    repo = repo_dir()
    prof = open(os.path.join(HARNESS, "Cargo.toml")).read().split("[profile.dev]")[1]
    with open(os.path.join(d, "Cargo.toml"), "w") as f:
        f.write(f'[package]\nname = "{pkg}"\nversion = "0.1.0"\nedition = "2024"\n\n[workspace]\n\n[dependencies]\n'
                f'dust_dds = {{ path = "{repo}/dds", features = ["xtypes-xml"] }}\n'
                f'dust_dds_derive = {{ path = "{repo}/dds_derive" }}\n'
                f'dust_dds_gen = {{ path = "{repo}/dds_gen" }}\n'      # unused: same dependency graph as the harness, so dust_dds is shared
                'critical-section = { version = "1.2.0", default-features = false, features = ["std"] }\n\n'
                f'[profile.dev]{prof}')
    with open(os.path.join(d, "src", "main.rs"), "w") as f:
        f.write(main_rs)
    for name, src in (bins or {}).items():
        with open(os.path.join(d, "src", "bin", name + ".rs"), "w") as f:
            f.write(src)
    return d


def cargo_build(d, log=None, keep_going=False, timeout=3000):
    """returns (ok, output, seconds)"""
    t0 = time.time()
    env = dict(os.environ)
    env["CARGO_NET_OFFLINE"] = "true"
    cmd = ["cargo", "build", "--offline", "--bins"] + (["--keep-going"] if keep_going else [])
    p = subprocess.run(cmd, cwd=d, stdout=subprocess.PIPE, stderr=subprocess.STDOUT, env=env, timeout=timeout)
    out = p.stdout.decode("utf-8", "replace")
    if log is not None:
        log.write(out)
    return p.returncode == 0, out, round(time.time() - t0, 2)


def bin_path(name):
    return os.path.join(BUILD, "harness", "debug", name)


def derive_main_rs(decls):
    """decls: list of (type tree, [values]) -- index in the list = id used in the op lines --
    or a dict {id: (type tree, {k: value})} (replay of arbitrary op lines)"""
    if isinstance(decls, dict):
        entries = [(i, t, sorted(vals.items())) for i, (t, vals) in sorted(decls.items())]
    else:
        entries = [(i, t, list(enumerate(vals))) for i, (t, vals) in enumerate(decls)]
    seen, items = set(), []
    for _, t, _ in entries:
        rust_decls(t, seen, items)
    a = ["fn answer_decl(i: usize) -> String {\n    match i {"]
    for i, t, _ in entries:
        a.append(f"        {i} => describe::<{t['ident']}>(),")
    a.append('        _ => "bad-op".to_string(),\n    }\n}\n')
    b = ["fn answer_val(i: usize, k: usize) -> String {\n    match (i, k) {"]
    for i, t, vals in entries:
        for k, v in vals:
            b.append(f"        ({i}, {k}) => rt::<{t['ident']}>({rust_val(t, v)}),")
    b.append('        _ => "bad-op".to_string(),\n    }\n}\n')
    return PRELUDE + "\n" + "\n".join(items) + "\n" + "\n".join(a) + "\n" + "\n".join(b)


def derive_case_lines(i, t, vals):
    ts = sx(ty_sexp(t))
    return [f"decl {i} {ts}"] + [f"val {i} {k} {ts} {sx(val_sexp(v))}" for k, v in enumerate(vals)]


def parse_derive_lines(lines):
    """inverse of derive_case_lines over a list of op lines: {id: (type, {k: value})}"""
    out = {}
    for l in lines:
        t = l.split(None, 1)
        if not t or t[0] not in ("decl", "val"):
            continue
        if t[0] == "decl":
            i, rest = t[1].split(None, 1)
            out.setdefault(int(i), [None, {}])[0] = ty_from_sexp(parse_sexp(rest)[0])
        else:
            i, k, rest = t[1].split(None, 2)
            ss = parse_sexp(rest)
            e = out.setdefault(int(i), [None, {}])
            e[0] = ty_from_sexp(ss[0])
            e[1][int(k)] = val_from_sexp(ss[1])
    return out


# ------------------------------------------------------------------------------------------ replay launcher

def launch(lines):
    """used by harness/src/bin/gen.rs (`./check C40 --replay f`): regenerate the crate from the op lines alone, build it, run it"""
    kinds = {l.split(None, 1)[0] for l in lines if l.strip() and l.strip() != "reset"}
    if kinds <= {"decl", "val"}:
        decls = {i: (t, vals) for i, (t, vals) in parse_derive_lines(lines).items()}
        d = write_crate("replay_derive", "gen_derive", derive_main_rs(decls))
        ok, out, _ = cargo_build(d)
        if not ok:
            return ["COMPILE-ERROR " + " | ".join(l for l in out.splitlines() if l.startswith("error"))[:500]] * len(lines)
        exe = bin_path("gen_derive")
    else:
        from vlib import gen_idl
        return gen_idl.launch(lines)
    p = subprocess.run([exe], input=("\n".join(lines) + "\n").encode(), stdout=subprocess.PIPE)
    return p.stdout.decode("utf-8", "replace").splitlines()


if __name__ == "__main__":
    if len(sys.argv) > 1 and sys.argv[1] == "launch":
        ls = [l.rstrip("\n") for l in sys.stdin]
        for o in launch(ls):
            print(o)
