"""Shared generator / parsers / oracles for the `rtps` engine (RTPS endpoint state machines; C01, C02, C05 and the
protocol parts of C03/C04).

Op lines (one output line each; harness/src/bin/rtps.rs and Driver/Rtps.lean implement the same protocol):
  cfg d1=<0|1> d2=<0|1> d43=<0|1> d4=<0|1> r1=<0|1>   which repairs the tree under test contains (model variant); -> ok d2=<x>
  init <rel|be> <vol|tl> <f>                  fresh writer (data_max_size_serialized = f) and reader       -> ok
  match                                       add_matched_reader + add_matched_writer (repeat = re-announcement)
  write <pspec>                               add_change with the next sequence number
  remove <sn>                                 remove_change
  tick <ms>                                   advance the clock, RtpsStatefulWriter::write_message
  deliver <i> | drop <i> | dup <i>            adversary: in-flight datagram number i mod len
  flush                                       deliver FIFO until nothing is in flight
  net                                         list the in-flight datagrams
  frags <pspec> <f>                           pure: fragment count and every fragment
  reasm <f> <pspecA> <pspecB> <tok>...        pure: push fragments a<k>/b<k> (sn 1 / sn 2), then reconstruct 1, 2, 1
pspec: x<hex> | x- | p<len>.<seed>.  Step output: "<emitted datagrams or -> | <reader cache: sn=payload ...>".
"""
import functools, hashlib, os, re
from vlib.core import Case, HARNESS

ENGINE = "rtps"
F_CLASSES = [8, 8, 8, 9, 12, 16, 33, 100, 255, 256, 1000, 1001, 1344, 8192, 32768, 64999, 65000]

# ----------------------------------------------------------------------------- payloads (same formulas as both sides)

@functools.lru_cache(maxsize=4096)
def pattern(n, seed):
    return bytes((seed + i * 7 + (i // 256) * 11 + (i // 65536) * 13) % 256 for i in range(n))


def fnv(b):
    h = 2166136261
    for x in b:
        h = ((h ^ x) * 16777619) & 0xFFFFFFFF
    return h


@functools.lru_cache(maxsize=8192)
def show_payload(b):
    if len(b) <= 32:
        return b.hex() if b else "-"
    return f"L{len(b)}.{fnv(b):08x}"


def pspec_bytes(s):
    if s.startswith("x"):
        return b"" if s == "x-" else bytes.fromhex(s[1:])
    a, b = s[1:].split(".")
    return pattern(int(a), int(b))


def div_ceil(a, b):
    return -(-a // b)


# ----------------------------------------------------------------------------- which tree is under test

def repo_dir():
    txt = open(os.path.join(HARNESS, "Cargo.toml")).read()
    m = re.search(r'dust_dds\s*=\s*\{\s*path\s*=\s*"([^"]+)/dds"', txt)
    return m.group(1) if m else "/repo"


def _norm(s):
    return re.sub(r"\s+", " ", s).strip()


def _fn_body(src, name):
    i = src.find("fn " + name)
    if i < 0:
        return ""
    j = src.find("\n    fn ", i + 1)
    k = src.find("\n    pub fn ", i + 1)
    ends = [x for x in (j, k) if x > 0]
    return src[i:min(ends)] if ends else src[i:]


def detect(repo=None):
    """-> (cfg dict, problems list). Reads the source text of the tree the harness is built against."""
    repo = repo or repo_dir()
    rd = lambda p: open(os.path.join(repo, p)).read()
    wp, sw, sr = rd("dds/src/rtps/writer_proxy.rs"), rd("dds/src/rtps/stateful_writer.rs"), rd("dds/src/rtps/stateful_reader.rs")
    cm = rd("dds/src/dcps/dcps_domain_participant/communication_methods.rs")
    problems = []
    def pair(name, a, b):
        if a != b:
            problems.append(f"repair {name} is only half applied")
        return a and b
    d1 = pair("D1+D44", "self.nack_frag_count = self.nack_frag_count.wrapping_add(1)" in wp and "frag_num - base < 256" in wp,
              "(1..=number_of_fragments).contains(&request_fragment_number)" in sw)
    d2 = pair("D2+D8", "pub fn irrelevant_change_range_set" in wp, "writer_proxy.irrelevant_change_range_set(" in cm)
    d43 = pair("D43", "*wp = rtps_writer_proxy;" not in sr, "*rp = rtps_reader_proxy;" not in sw)
    d4 = sw.count("self.set_highest_sent_seq_num(gap_end_sequence_number);") == 2 and \
        _norm("cc.sequence_number == next_unsent_change_seq_num && next_unsent_change_seq_num > self.first_relevant_sample_seq_num()") in _norm(_fn_body(sw, "write_message_best_effort"))
    if sw.count("self.set_highest_sent_seq_num(gap_end_sequence_number);") not in (0, 2):
        problems.append("repair D4+D42 is only half applied")
    r1 = "retain(|f| f.writer_sn() > available_changes_max)" in _norm(_fn_body(wp, "write_message")).replace(" .retain", ".retain")
    cfg = {"d1": int(bool(d1)), "d2": int(bool(d2)), "d43": int(bool(d43)), "d4": int(bool(d4)), "r1": int(bool(r1))}
    # the harness transcribes handle_gap_submessage / handle_heartbeat_submessage (private module): guard the transcription
    g = hashlib.sha1(_norm(_fn_body(cm, "handle_gap_submessage")).encode()).hexdigest()[:16]
    h = hashlib.sha1(_norm(_fn_body(cm, "handle_heartbeat_submessage")).encode()).hexdigest()[:16]
    if g not in GLUE_GAP:
        problems.append(f"handle_gap_submessage changed (hash {g}): re-validate the transcription in harness/src/bin/rtps.rs")
    elif GLUE_GAP[g] != cfg["d2"]:
        problems.append("handle_gap_submessage variant and writer_proxy.rs disagree about the D2 repair")
    if h not in GLUE_HB:
        problems.append(f"handle_heartbeat_submessage changed (hash {h}): re-validate the transcription in harness/src/bin/rtps.rs")
    return cfg, problems


# sha1 (16 hex) of the whitespace-normalised text of the two glue functions the harness transcribes
GLUE_GAP = {"6e6422b7277714aa": 0, "72a6d8ffa346dbfb": 1}
GLUE_HB = {"8406ad1e3b2dd680"}


def cfg_line(cfg):
    return f"cfg d1={cfg['d1']} d2={cfg['d2']} d43={cfg['d43']} d4={cfg['d4']} r1={cfg['r1']}"


# ----------------------------------------------------------------------------- parsers

def parse_step(o):
    """-> dict(kind = 'step'|'panic'|'poisoned'|'bad'|'other', emitted=[...], cache=[(sn, payloadstr)], empty=bool)"""
    if o == "PANIC" or o.startswith("CRASH"):
        return {"kind": "panic"}
    if o == "POISONED":
        return {"kind": "poisoned"}
    if " | " not in o:
        return {"kind": "bad" if o == "bad-op" else "other", "raw": o}
    e, c = o.split(" | ", 1)
    cache = []
    if c != "-":
        for t in c.split():
            sn, p = t.split("=", 1)
            cache.append((int(sn), p))
    limit = e.endswith(" flush-limit")
    if limit:
        e = e[:-len(" flush-limit")]
    return {"kind": "step", "emitted": [] if e in ("-", "empty") else e.split(), "cache": cache, "empty": e == "empty",
            "limit": limit}


def subs_of(dgram):
    """'W[dst+ts-+data:1:ab]' -> ('W', ['dst','ts-','data:1:ab'])"""
    return dgram[0], dgram[2:-1].split("+")


class Track:
    """replays the op lines (not the outputs) to know what was published / is held / is relevant"""
    def __init__(self):
        self.rel = None; self.tl = None; self.f = None
        self.published = {}      # sn -> bytes
        self.held = set()
        self.last_sn = 0
        self.matched = False
        self.first_relevant = None
        self.rematch = False

    def op(self, t):
        if t[0] == "init":
            self.__init__()
            self.rel = t[1] == "rel"; self.tl = t[2] == "tl"; self.f = int(t[3])
        elif t[0] == "match":
            if self.matched:
                self.rematch = True
            else:
                self.matched = True
                self.first_relevant = 0 if self.tl else (max(self.held) if self.held else 0)
        elif t[0] == "write":
            self.last_sn += 1
            self.published[self.last_sn] = pspec_bytes(t[1])
            self.held.add(self.last_sn)
        elif t[0] == "remove":
            self.held.discard(int(t[1]))

    def nfrag(self, sn):
        return div_ceil(len(self.published[sn]), self.f)


def safety_oracle(case, out, check_skip):
    """the delivered cache on the implementation's output alone:
       (a) grows only at the end, (b) strictly increasing sequence numbers, (c) every entry is byte-identical to what
       was published under that number, (d) volatile: nothing published before the match, (e) reliable (check_skip):
       when sn is delivered every smaller relevant number the writer still holds was delivered before.
       Violations carry a `cause` naming the pattern."""
    tr = Track()
    viol = []
    prev = []
    for i, (l, o) in enumerate(zip(case.lines, out)):
        t = l.split()
        st = parse_step(o)
        if st["kind"] == "panic":
            big = any(tr.nfrag(sn) >= 258 for sn in tr.published) if tr.f else False
            viol.append({"what": f"op {i} `{l}` panicked", "at": i,
                         "cause": "nackfrag-set-spans-256" if big and tr.rel else "panic"})
            break
        held_before = set(tr.held)
        tr.op(t)
        if st["kind"] != "step":
            continue
        cache = st["cache"]
        if cache[:len(prev)] != prev:
            viol.append({"what": f"op {i} `{l}`: delivered samples changed or disappeared", "at": i, "cause": "cache-rewritten"})
            break
        new = cache[len(prev):]
        seen = [sn for sn, _ in prev]
        for sn, p in new:
            if sn in seen:
                viol.append({"what": f"op {i} `{l}`: sample {sn} delivered twice", "at": i,
                             "cause": "rematch-resets-proxies" if tr.rematch else "duplicate"})
            elif seen and sn < seen[-1]:
                viol.append({"what": f"op {i} `{l}`: sample {sn} delivered after {seen[-1]}", "at": i,
                             "cause": "rematch-resets-proxies" if tr.rematch else "reordered"})
            if sn not in tr.published:
                viol.append({"what": f"op {i} `{l}`: sample {sn} was never published", "at": i, "cause": "forged"})
            elif show_payload(tr.published[sn]) != p:
                viol.append({"what": f"op {i} `{l}`: payload of sample {sn} differs from what was written "
                                     f"({p} vs {show_payload(tr.published[sn])}, {tr.nfrag(sn)} fragments)", "at": i,
                             "cause": "payload-corrupted"})
            if tr.first_relevant is not None and not tr.tl and sn <= tr.first_relevant:
                viol.append({"what": f"op {i} `{l}`: volatile reader received sample {sn} published before the match "
                                     f"(first relevant {tr.first_relevant})", "at": i,
                             "cause": "best-effort-ignores-first-relevant" if not tr.rel else "old-sample-to-volatile"})
            if check_skip and tr.rel and not tr.rematch:
                skipped = [x for x in held_before if x < sn and x > (tr.first_relevant or 0) and x not in seen and
                           x not in [s for s, _ in new]]
                if skipped:
                    viol.append({"what": f"op {i} `{l}`: sample {sn} delivered although {sorted(skipped)} are still held by "
                                         f"the writer and were never delivered", "at": i, "cause": "gap-skips-held-change"})
            seen.append(sn)
            if viol:
                break
        prev = cache
        if viol:
            break
    return viol


def final_state(case, out):
    tr = Track()
    cache = []
    ok = True
    for l, o in zip(case.lines, out):
        tr.op(l.split())
        st = parse_step(o)
        if st["kind"] == "step":
            cache = st["cache"]
        elif st["kind"] in ("panic", "poisoned"):
            ok = False
    return tr, cache, ok


def liveness_oracle(case, out):
    """reliable pair whose op list ends with the healing suffix (meta heal=True): every relevant change the writer still
    holds is in the cache. The cause names the pattern visible in the implementation's own output."""
    if not case.meta.get("heal"):
        return []
    tr, cache, ok = final_state(case, out)
    if not ok or not tr.rel or not tr.matched:
        return []
    got = {sn for sn, _ in cache}
    want = {sn for sn in tr.held if sn > tr.first_relevant}
    miss = sorted(want - got)
    if not miss:
        return []
    sn = miss[0]
    skipped = any(g > sn for g in got)
    # what the two endpoints said last
    last_hb, last_an = None, None
    for o in out:
        st = parse_step(o)
        if st["kind"] != "step":
            continue
        for d in st["emitted"]:
            who, subs = subs_of(d)
            for x in subs:
                a = x.split(":")
                if who == "W" and a[0] == "hb":
                    last_hb = (int(a[1]), int(a[2]))
                if who == "R" and a[0] == "an":
                    nf = [y.split(":") for y in subs if y.startswith("nf:")]
                    last_an = (int(a[1]), a[2], bool(nf), int(nf[0][4]) if nf else None)
    if tr.rematch:
        cause = "rematch-resets-proxies"
    elif skipped:
        cause = "gap-skips-held-change"
    elif last_an and last_hb and last_an[1] == "-" and not last_an[2] and last_an[0] <= last_hb[1]:
        # ACKNACK with an empty set and no NACK_FRAG although the heartbeat announces changes from its base on
        cause = "stale-fragments-block-acknack"
    elif tr.nfrag(sn) > 1 or (last_an and last_an[2] and last_an[3] == 0):
        # the first missing sample is fragmented, or the reader's last request is a NACK_FRAG with count 0 (D1: the
        # count is never incremented, the writer ignores it, so neither the fragment nor a GAP is ever sent)
        cause = "lost-fragment-never-repaired"
    else:
        cause = "not-delivered-after-healing"
    return [{"what": f"after the healing suffix samples {miss} are still held by the writer and relevant but were not "
                     f"delivered (first: {tr.nfrag(sn)} fragments; last heartbeat first..last = {last_hb}, last acknack "
                     f"base/set/nackfrag = {last_an})", "cause": cause}]


def be_complete_oracle(case, out):
    """best-effort pair: a fragmented sample written after the match ALL of whose fragment datagrams reached the reader
    before anything of a later sample (DATA / DATA_FRAG with a higher number, or a GAP reaching it) did, must be in the
    delivered list from that step on — whatever happened to earlier samples. Which datagrams reached the reader is read
    from the case's own trace: the emitted datagrams of the implementation and the deliver / drop / dup / flush ops."""
    tr = Track()
    net = []                   # in-flight datagram strings, as the engine keeps them
    seen = {}                  # sn -> set of fragment numbers delivered while nothing later had been delivered
    total = {}                 # sn -> N from the fragment headers
    spoiled = 0                # highest number such that something of it (or a GAP up to it) has reached the reader
    due = {}                   # sn -> op index at which the sample became complete
    done = set()               # complete inside the current step (a flush delivers many datagrams)
    viol = []

    def reach(d):
        nonlocal spoiled
        who, subs = subs_of(d)
        if who != "W":
            return
        for x in subs:
            a = x.split(":")
            if a[0] == "frag":
                sn, start, fsize, dsize = int(a[1]), int(a[2]), int(a[4]), int(a[5])
                if sn > spoiled or (sn == spoiled and sn in seen):
                    total[sn] = div_ceil(dsize, fsize)
                    seen.setdefault(sn, set()).add(start)
                    if seen[sn] >= set(range(1, total[sn] + 1)):
                        done.add(sn)
                # a fragment of sn closes the window of every smaller number that is not complete yet
                for k in list(seen):
                    if k < sn and k not in due and k not in done:
                        seen.pop(k)
                spoiled = max(spoiled, sn)
            elif a[0] == "data":
                sn = int(a[1])
                for k in list(seen):
                    if k <= sn and k not in due and k not in done:
                        seen.pop(k)
                spoiled = max(spoiled, sn)
            elif a[0] == "gap":
                top = max([int(a[2]) - 1] + ([int(v) for v in a[3].split(",")] if a[3] != "-" else []))
                for k in list(seen):
                    if k <= top and k not in due and k not in done:
                        seen.pop(k)
                spoiled = max(spoiled, top)

    for i, (l, o) in enumerate(zip(case.lines, out)):
        t = l.split()
        st = parse_step(o)
        if st["kind"] in ("panic", "poisoned"):
            break
        was_matched = tr.matched
        tr.op(t)
        if st["kind"] != "step" or tr.rel or tr.rel is None:
            continue
        if t[0] in ("deliver", "drop", "dup") and not st.get("empty") and net:
            k = int(t[1]) % len(net)
            if t[0] == "deliver":
                reach(net.pop(k))
            elif t[0] == "drop":
                net.pop(k)
            else:
                net.append(net[k])
        if t[0] == "flush":
            for d in net + st["emitted"]:
                reach(d)
            net = []
        else:
            net += st["emitted"]
        have = {sn for sn, _ in st["cache"]}
        for sn in sorted(done):
            relevant = tr.matched and tr.first_relevant is not None and sn > tr.first_relevant
            if sn not in due and sn in tr.published and relevant:
                due[sn] = i
        for sn, at in due.items():
            if sn not in have and not tr.rematch:
                viol.append({"what": f"op {i} `{l}`: best-effort reader: every one of the {total[sn]} fragments of sample {sn} reached the reader "
                                     f"(complete at op {at}) before anything of a later sample did, but the sample is not delivered "
                                     f"(delivered: {sorted(have)})", "at": i, "cause": "complete-fragmented-sample-not-delivered"})
                return viol
    return viol


def gen_be_frag_loss(r, cfg):
    """best-effort pair, two or three fragmented samples (2-4 fragments each); exactly one fragment of an EARLIER sample is
    dropped, the later samples arrive completely (in order, shuffled inside a sample, or delivered one by one between the writes)"""
    f = r.choice([8, 8, 9, 16, 100, 1000])
    lines = [cfg_line(cfg), f"init be {r.choice(['vol', 'tl'])} {f}", "match"]
    ns = r.range(2, 3)
    ks = [r.choice([2, 3, 3, 4]) for _ in range(ns)]
    sizes = [r.choice([k * f, k * f - 1, (k - 1) * f + 1]) for k in ks]
    victim = r.below(ns - 1)                      # an earlier one
    lost = r.below(ks[victim])
    mode = r.below(3)
    if mode == 0:                                 # everything written, one drop, FIFO
        for n in sizes:
            lines.append(f"write p{n}.{r.below(256)}")
        lines.append(f"drop {sum(ks[:victim]) + lost}")
        if r.chance(1, 3):
            lines.append(f"dup {r.below(sum(ks) - 1)}")
        lines.append("flush")
    elif mode == 1:                               # per sample: write, then deliver its fragments in a shuffled order
        for j, n in enumerate(sizes):
            lines.append(f"write p{n}.{r.below(256)}")
            left = list(range(ks[j]))
            if j == victim:
                lines.append(f"drop {lost}")
                left.remove(lost)
            order = r.shuffle(left)
            cur = sorted(left)
            for x in order:
                lines.append(f"deliver {cur.index(x)}")
                cur.remove(x)
    else:                                         # all written; blocks in order, shuffled inside each block
        for n in sizes:
            lines.append(f"write p{n}.{r.below(256)}")
        cur = [(j, x) for j in range(ns) for x in range(ks[j])]
        lines.append(f"drop {cur.index((victim, lost))}")
        cur.remove((victim, lost))
        for j in range(ns):
            for x in r.shuffle([y for y in range(ks[j]) if (j, y) in cur]):
                lines.append(f"deliver {cur.index((j, x))}")
                cur.remove((j, x))
    if r.chance(1, 2):
        lines += [f"write x{r.below(256):02x}", "flush"]
    return Case(lines, {"rel": False, "kind": "be-frag-loss"})


# ----------------------------------------------------------------------------- generators

def gen_payload(r, f, small=False):
    c = r.below(12)
    if small:
        n = r.choice([0, 1, 2, f - 1, f, f + 1, 2 * f, 2 * f + 1, 3 * f + 1])
    elif c < 8:
        n = r.choice([0, 1, f - 1, f, f + 1, 2 * f - 1, 2 * f, 2 * f + 1, 3 * f, 3 * f + 1, 5 * f + 3])
    elif c < 11:
        n = r.range(0, 6 * f)
    else:
        n = r.choice([257 * f, 258 * f + 1, 300 * f, 520 * f + 1]) if f <= 16 else 7 * f + 5
    return f"p{n}.{r.below(256)}"


def heal_suffix(rounds):
    s = []
    for _ in range(rounds):
        s += ["tick 250", "flush"]
    return s


def gen_gap_replay_case(r, cfg, rel=False, heal=False):
    """GAP duplication and late redelivery of old traffic: a late joiner on a writer with holes in its history (removed
    changes -> GAP for TRANSIENT_LOCAL, everything before the match -> GAP for VOLATILE) gets DATA and GAP datagrams; a
    random subset (often all) of the in-flight datagrams is duplicated, some originals are dropped or delivered out of
    order, then everything is delivered, the late copies last. A GAP that is applied a second time must not rewind the
    writer proxy: the old DATA copies behind it must be refused."""
    tl = r.chance(3, 4)
    f = r.choice([8, 8, 16, 100])
    lines = [cfg_line(cfg), f"init {'rel' if rel else 'be'} {'tl' if tl else 'vol'} {f}"]
    n0 = r.range(3, 7)
    for _ in range(n0):
        lines.append(f"write {gen_payload(r, f, small=True) if r.chance(1, 4) else 'x%02x' % r.below(256)}")
    holes = sorted(set(r.range(1 if r.chance(1, 3) else 2, n0 - 1) for _ in range(r.range(1, 2))))
    for h in holes:
        lines.append(f"remove {h}")
    late = r.chance(3, 4)
    if not late:
        lines.insert(2, "match")
    else:
        lines.append("match")
    nlater = r.range(1, 3)
    for _ in range(nlater):
        lines.append(f"write x{r.below(256):02x}")
    lines.append("tick 1")
    if r.chance(1, 3):                          # a second hole after the match: GAP in the middle of live traffic
        lines += [f"write x{r.below(256):02x}", f"write x{r.below(256):02x}", f"remove {n0 + nlater + 1}" if False else "tick 1"]
    k = n0 + nlater + 3
    mode = r.below(3)
    if mode == 0:                               # duplicate everything, deliver originals then copies
        for i in range(k + 2):
            lines.append(f"dup {i}")
        lines.append("flush")
    elif mode == 1:                             # duplicate a few, drop / reorder some originals
        for _ in range(r.range(2, 6)):
            lines.append(f"dup {r.below(k)}")
        for _ in range(r.range(0, 3)):
            lines.append(f"{r.choice(['drop', 'deliver'])} {r.below(k)}")
        lines.append("flush")
    else:                                       # copies first in reverse-ish order, then the rest
        for i in range(k):
            lines.append(f"dup {i}")
        for _ in range(r.range(2, 8)):
            lines.append(f"deliver {k + r.below(k)}")
        lines.append("flush")
    if r.chance(1, 2):
        lines += [f"write x{r.below(256):02x}", "flush"]
    if heal:
        lines += heal_suffix(6)
    return Case(lines, {"rel": rel, "tl": tl, "f": f, "heal": heal, "kind": "gap-replay"})


def gen_system_case(r, cfg, rel=None, heal=False, max_dir=40, fs=None, rematch=False, removals=True):
    rel = r.chance(1, 2) if rel is None else rel
    tl = r.chance(1, 2)
    f = r.choice(fs or [8, 8, 8, 9, 12, 16, 33, 100, 1000])
    lines = [cfg_line(cfg), f"init {'rel' if rel else 'be'} {'tl' if tl else 'vol'} {f}"]
    nw = r.range(1, 7)
    late = r.chance(1, 3)            # late joiner: some writes before the match
    pre = r.range(1, min(3, nw)) if late else 0
    ndir = 0
    written = 0
    held = []
    def adversary(k):
        nonlocal ndir
        for _ in range(k):
            if ndir >= max_dir:
                return
            ndir += 1
            c = r.below(10)
            if c < 5:
                lines.append(f"deliver {r.below(8) if r.chance(1, 2) else 0}")
            elif c < 8:
                lines.append(f"drop {r.below(8)}")
            else:
                lines.append(f"dup {r.below(8)}")
    for _ in range(pre):
        lines.append(f"write {gen_payload(r, f, small=(f >= 100))}"); written += 1; held.append(written)
        if removals and r.chance(1, 3) and held:
            x = r.choice(held); held.remove(x); lines.append(f"remove {x}")
    lines.append("match")
    while written < nw:
        lines.append(f"write {gen_payload(r, f, small=(f >= 100))}"); written += 1; held.append(written)
        adversary(r.below(7))
        if removals and r.chance(1, 4) and held:
            x = r.choice(held); held.remove(x); lines.append(f"remove {x}")
        if r.chance(1, 3):
            lines.append(f"tick {r.choice([1, 50, 199, 200, 201, 250, 1000])}")
            adversary(r.below(5))
        if rematch and r.chance(1, 5):
            lines.append("match")
    adversary(r.below(6))
    if heal:
        lines += heal_suffix(written + 4)
    else:
        if r.chance(1, 2):
            lines += ["tick 250", "flush"]
    return Case(lines, {"rel": rel, "tl": tl, "f": f, "heal": heal, "rematch": rematch})


def nontrivial_system(case, out):
    """at least two writes or one fragmented sample, at least one fault directive (drop, dup or out-of-order deliver),
    and at least one sample delivered"""
    tr = Track()
    faults = 0
    for l in case.lines:
        t = l.split()
        tr.op(t)
        if t[0] in ("drop", "dup") or (t[0] == "deliver" and t[1] != "0"):
            faults += 1
    frag = any(tr.nfrag(sn) > 1 for sn in tr.published) if tr.f else False
    delivered = any(parse_step(o).get("cache") for o in out)
    return (len(tr.published) >= 2 or frag) and faults >= 1 and delivered


# a symptom is attributed to a known defect only while the source text of the tree still shows the defect
CAUSE_FLAG = {"lost-fragment-never-repaired": "d1", "nackfrag-set-spans-256": "d1", "gap-skips-held-change": "d2",
              "rematch-resets-proxies": "d43", "stale-fragments-block-acknack": "r1",
              "best-effort-ignores-first-relevant": "d4"}


def attribute(case, viols):
    """rename the cause of a violation whose repair is present in the tree under test (first op line `cfg ...`), so that
    no open known finding can suppress a regression of repaired code"""
    flags = dict(x.split("=") for x in case.lines[0].split()[1:]) if case.lines and case.lines[0].startswith("cfg") else {}
    for v in viols:
        fl = CAUSE_FLAG.get(v.get("cause"))
        if fl and flags.get(fl) == "1":
            v["cause"] = v["cause"] + "-despite-repair"
    return viols


def count_ops(ctx, cases):
    for c in cases:
        for l in c.lines:
            ctx.count(l.split()[0])


def preflight(ctx):
    """detect the variant of the tree; a changed glue source is reported as a correspondence failure"""
    cfg, problems = detect()
    for p in problems:
        ctx.disagreements.append({"what": "source guard: " + p, "ops": []})
    ctx.count("tree:" + cfg_line(cfg).replace(" ", "_"))
    return cfg
