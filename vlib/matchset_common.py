"""Generator, canonicaliser and specification-level oracle for the `matchset` engine (C16).

Scenario sub-language (a subset of notes/dsim.md; everything else is `bad-op` in the Lean driver):
  participant P<i>                                   (domain 0, default QoS)
  topic <name> P<i> <A|B> ki
  publisher <name> P<i>          subscriber <name> P<i>
  writer <name> <publisher> <topic> [reliability=reliable|best_effort] [deadline=<ns>|inf] [user_data=<hex>|-] [listener=publication_matched]
  reader <name> <subscriber> <topic> [same keys]                                                             [listener=subscription_matched]
  set-qos <writer|reader> [deadline=…] [user_data=…]
  delete <writer|reader>       delete-contained P<i>       delete P<i>
  drop-if from=P<i>            (silent death: everything the participant sends is lost from now on)
  advance <ns>                 (never ends inside the window 94 s … 101 s after a `drop-if`)
  status <writer> publication_matched     status <reader> subscription_matched
  matched <writer|reader>      log
  trace on / write <writer> <id> <value> / trace show      (always this triple: the digest of the destinations of one write)
"""
from vlib.core import Case

ENGINE = "matchset"
SEC = 1000000000
LEASE_LO, LEASE_HI = 94 * SEC, 101 * SEC
HOST_APP = "b1b2b3b4a1a2a3a4"


# The harness binary `matchset` (harness/src/bin/matchset.rs) runs the scenario on `dsim` and canonicalises two answers:
# `log` (entries sorted) and `trace show` (reduced to `ok P<from>/<writer entity id>><port|->` ..., the set of destinations of
# the user DATA / HEARTBEAT / GAP submessages recorded since `trace on`).

# ----------------------------------------------------------------------------- generator

DEADLINES = ["inf", str(SEC), str(2 * SEC)]
UDATA = ["-", "aa", "bb", "aabb"]


class Gen:
    def __init__(self, r, tier):
        self.r = r
        self.lines = []
        self.parts = []          # dict(name, alive, cut, topics{tname:name}, pub, sub)
        self.eps = []            # dict(name, w, part, alive)
        self.nw = self.nr = 0
        self.wid = 0
        self.cut_done = False

    def emit(self, l):
        self.lines.append(l)

    def new_part(self, both_topics):
        i = len(self.parts)
        p = {"name": f"P{i}", "alive": True, "cut": False, "topics": {}, "idx": i}
        self.emit(f"participant P{i}")
        for tn in (["A", "B"] if both_topics else ["A"]):
            self.emit(f"topic t{i}{tn} P{i} {tn} ki")
            p["topics"][tn] = f"t{i}{tn}"
        self.emit(f"publisher pb{i} P{i}")
        self.emit(f"subscriber sb{i} P{i}")
        p["pubs"] = [f"pb{i}"]
        if self.r.chance(1, 5):
            self.emit(f"publisher pc{i} P{i}")
            p["pubs"].append(f"pc{i}")
        self.parts.append(p)
        return p

    def qos_tokens(self, is_writer, compat_bias):
        r = self.r
        toks = []
        c = r.below(10)
        if is_writer:
            if c < 2:
                toks.append("reliability=best_effort")
            elif c < 4:
                toks.append("reliability=reliable")
        else:
            if c < 4:
                toks.append("reliability=reliable")
            elif c < 5:
                toks.append("reliability=best_effort")
        c = r.below(10)
        if c < (2 if compat_bias else 4):
            toks.append("deadline=" + r.choice(DEADLINES))
        if r.chance(1, 5):
            toks.append("user_data=" + r.choice(UDATA))
        if r.chance(1, 2):
            toks.append("listener=" + ("publication_matched" if is_writer else "subscription_matched"))
        return toks

    def live_parts(self):
        return [p for p in self.parts if p["alive"]]

    def new_ep(self, is_writer, p=None):
        r = self.r
        lp = self.live_parts()
        if not lp:
            return
        p = p or r.choice(lp)
        tn = r.choice(sorted(p["topics"])) if r.chance(1, 4) else "A"
        if tn not in p["topics"]:
            tn = "A"
        if is_writer:
            name = f"w{self.nw}"; self.nw += 1
            self.emit(" ".join([f"writer {name} {r.choice(p['pubs'])} {p['topics'][tn]}"] + self.qos_tokens(True, r.chance(2, 3))))
        else:
            name = f"r{self.nr}"; self.nr += 1
            self.emit(" ".join([f"reader {name} sb{p['idx']} {p['topics'][tn]}"] + self.qos_tokens(False, r.chance(2, 3))))
        self.eps.append({"name": name, "w": is_writer, "part": p, "alive": True})

    def live_eps(self):
        return [e for e in self.eps if e["alive"] and e["part"]["alive"]]

    def observe(self, full):
        r = self.r
        self.emit("log")
        eps = self.live_eps()
        if not full:
            eps = [e for e in eps if r.chance(1, 2)]
        for e in eps:
            k = "publication_matched" if e["w"] else "subscription_matched"
            if r.chance(3, 4):
                self.emit(f"status {e['name']} {k}")
            self.emit(f"matched {e['name']}")
        ws = [e for e in self.live_eps() if e["w"]]
        if ws and r.chance(2, 3):
            for e in ([r.choice(ws)] if not full else ws):
                self.wid += 1
                self.emit("trace on")
                self.emit(f"write {e['name']} {self.wid} {self.wid}")
                self.emit("trace show")

    def action(self):
        r = self.r
        c = r.below(100)
        eps = self.live_eps()
        if c < 30 or not eps:
            self.new_ep(r.chance(1, 2))
        elif c < 55:
            e = r.choice(eps)
            if r.chance(1, 4):
                # flip the deadline of ONE endpoint back and forth: its pairs go (in)compatible repeatedly
                a, b = r.choice(DEADLINES), r.choice(DEADLINES)
                for d in [a, b, a, b][: r.range(2, 4)]:
                    self.emit(f"set-qos {e['name']} deadline={d}")
                    self.observe(r.chance(1, 2))
            elif r.chance(2, 3):
                self.emit(f"set-qos {e['name']} deadline={r.choice(DEADLINES)}")
            elif r.chance(1, 2):
                self.emit(f"set-qos {e['name']} user_data={r.choice(UDATA)}")
            else:
                self.emit(f"set-qos {e['name']} deadline={r.choice(DEADLINES)} user_data={r.choice(UDATA)}")
        elif c < 70:
            e = r.choice(eps)
            self.emit(f"delete {e['name']}")
            e["alive"] = False
            if r.chance(1, 6):
                k = "publication_matched" if e["w"] else "subscription_matched"
                self.emit(r.choice([f"status {e['name']} {k}", f"matched {e['name']}"]))
        elif c < 80:
            lp = [p for p in self.live_parts() if not p["cut"]]
            if len(lp) >= 2 and not self.cut_done:
                p = r.choice(lp)
                self.emit(f"drop-if from={p['name']}")
                p["cut"] = True
                self.cut_done = True
                if r.chance(1, 2):
                    self.emit(f"advance {r.choice([SEC, 50 * SEC, 90 * SEC])}")
                    self.observe(False)
                if r.chance(1, 3):
                    # something happens to the silent participant's endpoints in the meantime: nobody hears of it
                    mine = [e for e in self.live_eps() if e["part"] is p]
                    if mine and r.chance(1, 2):
                        e = r.choice(mine)
                        self.emit(f"delete {e['name']}")
                        e["alive"] = False
                    else:
                        self.new_ep(r.chance(1, 2), p)
                self.emit(f"advance {130 * SEC}")
            else:
                self.emit(f"advance {r.choice([1, SEC, 7 * SEC])}")
        elif c < 88:
            lp = self.live_parts()
            if len(lp) >= 2:
                p = r.choice(lp)
                self.emit(f"delete-contained {p['name']}")
                self.emit(f"delete {p['name']}")
                p["alive"] = False
                for e in self.eps:
                    if e["part"] is p:
                        e["alive"] = False
            else:
                self.new_ep(r.chance(1, 2))
        elif c < 94:
            if len(self.parts) < 4:
                p = self.new_part(self.r.chance(1, 3))
                self.new_ep(r.chance(1, 2), p)
            else:
                self.new_ep(r.chance(1, 2))
        else:
            self.emit(f"advance {r.choice([1, 50000000, SEC, 6 * SEC])}")


def gen_case(r, tier):
    g = Gen(r, tier)
    for _ in range(r.range(2, 3)):
        g.new_part(r.chance(1, 3))
    # a first pair so that something is matched early
    g.new_ep(True)
    g.new_ep(False)
    g.observe(True)
    for _ in range(r.range(3, 9)):
        g.action()
        g.observe(r.chance(1, 3))
    g.observe(True)
    return Case(g.lines)


PAIR = ["participant P0", "participant P1", "topic t0A P0 A ki", "topic t1A P1 A ki", "publisher pb0 P0", "subscriber sb1 P1"]

CORPUS = [
    # D3 (repaired): the reader is deleted; the next sample must not be addressed to it
    PAIR + ["writer w0 pb0 t0A", "reader r0 sb1 t1A reliability=reliable", "matched w0", "delete r0", "status w0 publication_matched",
            "matched w0", "trace on", "write w0 1 1", "trace show"],
    # D21 (repaired): a QoS re-announcement of a matched endpoint is not a new match, on either side
    PAIR + ["writer w0 pb0 t0A", "reader r0 sb1 t1A", "status w0 publication_matched", "status r0 subscription_matched",
            "set-qos r0 user_data=aa", "status w0 publication_matched", "set-qos w0 user_data=bb", "status r0 subscription_matched"],
    # D22 (repaired; was: both sides keep the match): the reader asks for a deadline the writer does not offer
    PAIR + ["writer w0 pb0 t0A", "reader r0 sb1 t1A", f"set-qos r0 deadline={SEC}", "log", "status w0 publication_matched", "matched w0",
            "status r0 subscription_matched", "matched r0", "trace on", "write w0 1 1", "trace show"],
    # D23 (repaired; was: after the lease the reader is matched AGAIN), writer side: the reader's participant falls silent
    PAIR + ["writer w0 pb0 t0A", "reader r0 sb1 t1A", "status w0 publication_matched", "drop-if from=P1", f"advance {130 * SEC}",
            "status w0 publication_matched", "matched w0", "trace on", "write w0 1 1", "trace show"],
    # D23 (repaired; was: the reader keeps it matched for ever), reader side: the writer's participant falls silent
    PAIR + ["writer w0 pb0 t0A", "reader r0 sb1 t1A", "status r0 subscription_matched", "drop-if from=P0", f"advance {130 * SEC}",
            "status r0 subscription_matched", "matched r0"],
    # the SAME pair goes incompatible -> matched -> incompatible again (and once more), through the reader's and through the
    # writer's set_qos: every time the pair must be un-matched on both sides (seeded change C16_c: only the first time)
    PAIR + ["writer w0 pb0 t0A listener=publication_matched", f"reader r0 sb1 t1A deadline={SEC} listener=subscription_matched", "log", "matched w0", "matched r0",
            "set-qos r0 deadline=inf", "log", "status w0 publication_matched", "matched w0", "matched r0",
            f"set-qos r0 deadline={SEC}", "log", "status w0 publication_matched", "matched w0", "status r0 subscription_matched", "matched r0",
            "trace on", "write w0 1 1", "trace show",
            "set-qos r0 deadline=inf", "log", "matched w0", f"set-qos r0 deadline={SEC}", "log", "status w0 publication_matched", "matched w0", "matched r0"],
    PAIR + [f"writer w0 pb0 t0A deadline={5 * SEC}", f"reader r0 sb1 t1A deadline={SEC}", "matched w0", "matched r0",
            f"set-qos w0 deadline={SEC}", "status w0 publication_matched", "matched w0", "status r0 subscription_matched", "matched r0",
            f"set-qos w0 deadline={5 * SEC}", "status w0 publication_matched", "matched w0", "status r0 subscription_matched", "matched r0",
            "trace on", "write w0 1 1", "trace show"],
    # incompatible from the start, compatible later, deleted, participant deleted
    PAIR + ["writer w0 pb0 t0A reliability=best_effort listener=publication_matched", "reader r0 sb1 t1A reliability=reliable",
            f"reader r1 sb1 t1A deadline={SEC} listener=subscription_matched", "log", "matched w0", "set-qos r1 deadline=inf", "log",
            "matched w0", "status r1 subscription_matched", "delete-contained P1", "delete P1", "status w0 publication_matched", "matched w0",
            "trace on", "write w0 1 1", "trace show"],
]


# ----------------------------------------------------------------------------- specification-level oracle

def _dl(s):
    return None if s == "inf" else int(s)


def _rxo(w, r):
    """DDS RxO table restricted to the varied policies: offered reliability >= requested, offered deadline <= requested"""
    if r["rel"] and not w["rel"]:
        return False
    if w["dl"] is None:
        return r["dl"] is None
    return r["dl"] is None or w["dl"] <= r["dl"]


class Spec:
    """What the DDS specification expects, written with sets: every participant has a VIEW of the remote endpoints (the last
    announcement that could reach it); an endpoint is matched with exactly the viewed endpoints of the opposite kind on
    the same topic whose QoS is compatible with its own CURRENT QoS; a participant that was silent for the lease
    duration disappears from every view together with its endpoints."""

    def __init__(self):
        self.now = 0
        self.parts = {}      # name -> dict(idx, alive, cut_at, known:set(names), view:{epname: qos})
        self.groups = {}     # name -> part name
        self.topics = {}     # name -> (part, tname)
        self.eps = {}        # name -> dict(w, part, topic, qos, alive, handle, listener)
        self.exp = {}        # ep name -> set of ep names expected matched
        self.total = {}      # ep name -> expected total
        self.removed = {}    # participant -> endpoints of participants it removed (deleted, silent): must never be matched again
        self.selfdead = set()  # participants that expired themselves (artefact of loopback loss): local pairs are not judged

    def delivers(self, s, x):
        ps, px = self.parts[s], self.parts[x]
        return ps["alive"] and px["alive"] and ps["cut_at"] is None and s in px["known"] and x in ps["known"]

    def announce(self, e):
        ep = self.eps[e]
        for x in self.parts:
            if self.delivers(ep["part"], x):
                self.parts[x]["view"][e] = dict(ep["qos"])

    def retract(self, e):
        ep = self.eps[e]
        for x in self.parts:
            if self.delivers(ep["part"], x):
                self.parts[x]["view"].pop(e, None)

    def forget(self, x, y):
        """participant x removes participant y (deleted or lease expired)"""
        px = self.parts[x]
        if not px["alive"] or y not in px["known"]:
            return
        px["known"].discard(y)
        if x == y:
            self.selfdead.add(x)
        for f in [f for f in px["view"] if self.eps[f]["part"] == y]:
            del px["view"][f]
            self.removed.setdefault(x, set()).add(f)

    def recompute(self):
        for e, ep in self.eps.items():
            if not ep["alive"] or not self.parts[ep["part"]]["alive"]:
                continue
            view = self.parts[ep["part"]]["view"]
            new = set()
            for f, fq in view.items():
                fe = self.eps[f]
                if fe["w"] == ep["w"] or fe["topic"] != ep["topic"]:
                    continue
                ok = _rxo(ep["qos"], fq) if ep["w"] else _rxo(fq, ep["qos"])
                if ok:
                    new.add(f)
            old = self.exp.get(e, set())
            self.total[e] = self.total.get(e, 0) + len(new - old)
            self.exp[e] = new

    def apply(self, t):
        """returns False when the line is not a state-changing op of the sub-language"""
        op = t[0]
        if op == "participant":
            n = t[1]
            heard = {y for y, p in self.parts.items() if p["alive"] and p["cut_at"] is None}
            for p in self.parts.values():
                if p["alive"]:
                    p["known"].add(n)
            self.parts[n] = {"idx": len(self.parts), "alive": True, "cut_at": None, "known": heard | {n}, "view": {}}
            for y in heard:
                if self.delivers(y, n):
                    for e, ep in self.eps.items():
                        if ep["part"] == y and ep["alive"]:
                            self.parts[n]["view"][e] = dict(ep["qos"])
        elif op == "topic":
            self.topics[t[1]] = (t[2], t[3])
        elif op in ("publisher", "subscriber"):
            self.groups[t[1]] = t[2]
        elif op in ("writer", "reader"):
            q = {"rel": op == "writer", "dl": None, "ud": "-"}
            lst = False
            for x in t[4:]:
                k, v = x.split("=")
                if k == "reliability":
                    q["rel"] = v == "reliable"
                elif k == "deadline":
                    q["dl"] = _dl(v)
                elif k == "user_data":
                    q["ud"] = v
                elif k == "listener":
                    lst = True
            self.eps[t[1]] = {"w": op == "writer", "part": self.groups[t[2]], "topic": self.topics[t[3]][1], "qos": q, "alive": True,
                              "listener": lst, "handle": None}
            self.announce(t[1])
        elif op == "set-qos":
            ep = self.eps[t[1]]
            if not ep["alive"]:
                return True
            for x in t[2:]:
                k, v = x.split("=")
                if k == "deadline":
                    ep["qos"]["dl"] = _dl(v)
                elif k == "user_data":
                    ep["qos"]["ud"] = v
            self.announce(t[1])
        elif op == "delete" and t[1] in self.eps:
            ep = self.eps[t[1]]
            if ep["alive"]:
                ep["alive"] = False
                self.retract(t[1])
        elif op == "delete-contained":
            for e, ep in self.eps.items():
                if ep["part"] == t[1] and ep["alive"]:
                    ep["alive"] = False
                    self.retract(e)
        elif op == "delete" and t[1] in self.parts:
            p = self.parts[t[1]]
            if any(ep["alive"] and ep["part"] == t[1] for ep in self.eps.values()):
                return True
            p["alive"] = False
            if p["cut_at"] is None:
                for x in list(self.parts):
                    self.forget(x, t[1])
        elif op == "drop-if":
            p = self.parts[t[1].split("=")[1]]
            if p["cut_at"] is None:
                p["cut_at"] = self.now
        elif op == "advance":
            self.now += int(t[1])
            for y, p in self.parts.items():
                if p["cut_at"] is not None and self.now - p["cut_at"] >= LEASE_HI:
                    for x in list(self.parts):
                        self.forget(x, y)
        else:
            return False
        self.recompute()
        return True


def handle_of_port(port):
    return (int(port) - 7411) // 2


def oracle(case, out):
    """the property itself, checked on the implementation's answers alone"""
    sp = Spec()
    viol = []
    last = {}     # ep -> (total, current) at the last read (status getter or listener call)

    def known_cause(e):
        # D22 and D23 are repaired: an endpoint that stays matched after it became incompatible, or after its participant
        # was removed, is a plain violation now (no cause = nothing is suppressed)
        return None

    def add(i, what, e=None, cause=None):
        v = {"what": f"op {i} `{case.lines[i]}`: {what}", "at": i}
        c = cause or (known_cause(e) if e else None)
        if c:
            v["cause"] = c
        viol.append(v)

    def check_read(i, e, st):
        lt, lc = last.get(e, (0, 0))
        if st["dtotal"] != st["total"] - lt:
            add(i, f"{e}: total_count_change {st['dtotal']} but total_count went {lt} -> {st['total']} since the last read", e)
        if st["dcurrent"] != st["current"] - lc:
            add(i, f"{e}: current_count_change {st['dcurrent']} but current_count went {lc} -> {st['current']} since the last read", e)
        last[e] = (st["total"], st["current"])

    def judged(e):
        return sp.eps[e]["part"] not in sp.selfdead

    for i, (line, o) in enumerate(zip(case.lines, out)):
        t = line.split()
        if not t or t[0].startswith("#"):
            continue
        if o in ("PANIC", "HANG", "CRASH", "POISONED"):
            add(i, f"answered {o}")
            break
        if o == "bad-op":
            break
        if t[0] in ("writer", "reader") and o.startswith("ok "):
            sp.apply(t)
            sp.eps[t[1]]["handle"] = o.split()[1]
            continue
        if sp.apply(t):
            continue
        if t[0] == "log" and o.startswith("ok"):
            for ent in o.split(" | ")[1:]:
                f = ent.split()
                e = f[0].split(".")[0]
                st = {k: int(v) for k, v in (x.split("=") for x in f[2:6])}
                check_read(i, e, st)
        elif t[0] == "status" and o.startswith("ok "):
            e = t[1]
            st = {k: int(v) for k, v in (x.split("=") for x in o.split()[1:5])}
            check_read(i, e, st)
            if judged(e):
                if st["current"] != len(sp.exp.get(e, ())):
                    add(i, f"{e}: current_count {st['current']}, but {len(sp.exp.get(e, ()))} compatible live endpoints are known to its participant", e)
                if st["total"] != sp.total.get(e, 0):
                    cause = None
                    if not known_cause(e) and st["total"] > sp.total.get(e, 0) and st["current"] == len(sp.exp.get(e, ())):
                        cause = "reannouncement-counted-as-new-match"
                    add(i, f"{e}: total_count {st['total']}, but {sp.total.get(e, 0)} matches have begun", e, cause)
        elif t[0] == "matched" and o.startswith("ok "):
            e = t[1]
            got = set(o.split()[2:])
            want = {sp.eps[f]["handle"] for f in sp.exp.get(e, ())}
            if judged(e) and got != want:
                names = {ep["handle"]: n for n, ep in sp.eps.items()}
                extra = sorted(names.get(h, h) for h in got - want)
                missing = sorted(names.get(h, h) for h in want - got)
                # labels of the repaired defects (entries with status "fixed" suppress nothing)
                cause = None
                view = sp.parts[sp.eps[e]["part"]]["view"]
                if extra and not missing:
                    if all(f in sp.removed.get(sp.eps[e]["part"], ()) for f in extra):
                        cause = "participant-removal-leaves-matched-state"
                    elif all(f in view for f in extra):
                        cause = "incompatible-endpoint-stays-matched"
                add(i, f"{e}: matched endpoints {sorted(names.get(h, h) for h in got)}: unexpected {extra}, missing {missing}", e, cause)
        elif t[:2] == ["trace", "show"] and o.startswith("ok"):
            # the write op just before
            w = case.lines[i - 1].split()[1]
            if w not in sp.eps or not judged(w):
                continue
            ent = sp.eps[w]["handle"][24:]
            pidx = sp.parts[sp.eps[w]["part"]]["idx"]
            got = {d.split(">")[1] for d in o.split()[1:] if d.startswith(f"P{pidx}/{ent}>")}
            want = {str(7411 + 2 * sp.parts[sp.eps[f]["part"]]["idx"]) for f in sp.exp.get(w, ())}
            if got != want:
                extra = sorted(got - want)
                cause = None
                if not known_cause(w) and extra and not (want - got):
                    cause = "data-addressed-to-removed-endpoint"
                add(i, f"{w}: a new sample is addressed to ports {sorted(got)}, the matched readers live at {sorted(want)}", w, cause)
    return viol


def nontrivial(case, out):
    """at least one match was established and observed, and something happened to it afterwards"""
    seen = any(l.startswith("status") and "current=0" not in o and o.startswith("ok total=") and not o.startswith("ok total=0")
               for l, o in zip(case.lines, out))
    later = any(l.split()[0] in ("delete", "set-qos", "drop-if", "delete-contained") for l in case.lines)
    return seen and later
