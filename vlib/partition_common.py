"""C15, PARTITION / topic-name part: generators and oracles (to be plugged into vlib/props/C15.py by the integrator).

Two kinds of cases:
  * `glob_cases(rng, tier)`       engine `match`    — `glob <pattern> <name>`: ONE (pattern, name) test of the inline
        partition matching through the hook `verif_partition_pattern_is_match` (the real `fnmatch_to_regex` + `regex`),
        against the Lean glob matcher `Partition.globMatch`; oracle `glob_oracle` = Python's fnmatch (POSIX rule).
  * `partition_cases(rng, tier)`  engine `matchset` — end to end on the simulator: two participants, a publisher and a
        subscriber with `partition=` lists from a small alphabet, one writer and one reader on the same (or, rarely, another)
        topic; the verdict is `matched`; the Lean side is the `matchset` driver, whose world model calls
        `Partition.partitionMatch`; oracle `partition_oracle` = the DDS partition rule written in Python.
`%e` is the empty string, `-` the empty list.
"""
import fnmatch
from vlib.core import Case

NAMES = ["%e", "A", "B", "AB", "A1", "a1", "b1", "c1", "11", "aa", "a"]
PATTERNS = ["*", "A*", "*1", "?1", "[a-b]1", "[!a]1", "A?", "a+", "?", "[ab]*"]
META = set("*?[]+\\")

CAUSE_EMPTY = "partition-empty-list-is-not-default-partition"
CAUSE_PATTERN = "partition-pattern-matched-against-pattern"
CAUSE_PLUS = "partition-plus-is-a-regex-quantifier"


def is_pattern(n):
    return any(c in "*?[" for c in n)


def real(n):
    return "" if n == "%e" else n


def spec_name_match(p, n):
    """POSIX fnmatch of name n against pattern p (`+` is an ordinary character); case-sensitive"""
    return fnmatch.fnmatchcase(real(n), real(p).replace("[^", "[!"))


def spec_partition_match(a, b):
    """DDS 1.4 2.2.3.13 as read here (notes/w2b.md, Follow-up 4): the empty sequence is the partition ""; two endpoints match when
    some entry of one side matches some entry of the other; equal strings are equal names (also when they contain wildcards);
    otherwise an entry with wildcards is an expression that is matched against the NAMES of the other side; two different
    expressions are never matched against each other"""
    a = a or ["%e"]
    b = b or ["%e"]
    for x in a:
        for y in b:
            px, py = is_pattern(x), is_pattern(y)
            if real(x) == real(y):
                return True
            if px and py:
                continue
            if px:
                if spec_name_match(x, y):
                    return True
            elif py:
                if spec_name_match(y, x):
                    return True
            elif real(x) == real(y):
                return True
    return False


# ----------------------------------------------------------------------------- glob cases (engine `match`)

GLOB_CORPUS = ["glob A* A?", "glob a+ aa", "glob a+ a+", "glob [a-b]1 b1", "glob [!a-b]1 c1", "glob ?1 b1", "glob * %e", "glob %e %e",
               "glob ? %e", "glob A*B AxyB", "glob A*B AxyBz", "glob [a-b]+1 ab1", "glob *1 1", "glob a.b axb", "glob a.b a.b"]


def gen_pattern(r):
    c = r.below(10)
    if c < 4:
        return r.choice(PATTERNS)
    out = ""
    for _ in range(r.range(1, 4)):
        k = r.below(12)
        if k < 5:
            out += r.choice("ABab1.")
        elif k < 7:
            out += "*"
        elif k < 9:
            out += "?"
        elif k < 11:
            out += r.choice(["[a-b]", "[ab]", "[!a]", "[^b1]", "[A-B1]", "[0-9]"])
        elif out and out[-1] not in "*+":
            out += "+"
        else:
            out += "a"
    return out


def gen_name(r):
    c = r.below(10)
    if c < 3:
        return r.choice(NAMES)
    if c < 4:
        return r.choice(PATTERNS)
    return "".join(r.choice("ABab1.") for _ in range(r.range(0, 4))) or "%e"


def glob_cases(r, tier):
    n = 3000 if tier == "quick" else 60000
    cases = [Case([c]) for c in GLOB_CORPUS]
    for _ in range(n):
        cases.append(Case([f"glob {gen_pattern(r)} {gen_name(r)}"]))
    return cases


def glob_oracle(case, out):
    t = case.lines[0].split()
    o = out[0] if out else ""
    if o not in ("0", "1"):
        return [{"what": f"`{case.lines[0]}` answered {o}", "op": case.lines[0]}]
    want = spec_name_match(t[1], t[2])
    if (o == "1") != want:
        v = {"what": f"pattern {t[1]!r} vs name {t[2]!r}: the code says {'match' if o == '1' else 'no match'}, POSIX fnmatch says "
                     f"{'match' if want else 'no match'}", "op": case.lines[0]}
        if "+" in t[1]:
            v["cause"] = CAUSE_PLUS
        return [v]
    return []


def glob_nontrivial(case, out):
    t = case.lines[0].split()
    return any(c in META for c in t[1])


# ----------------------------------------------------------------------------- end-to-end cases (engine `matchset`)

def fmt_part(l):
    return "-" if not l else ",".join(l)


def scenario(pa, pb, topic_w="T", topic_r="T", reader_first=False):
    lines = ["participant P0", "participant P1", f"topic t0 P0 {topic_w} ki", f"topic t1 P1 {topic_r} ki",
             f"publisher pb0 P0 partition={fmt_part(pa)}", f"subscriber sb1 P1 partition={fmt_part(pb)}"]
    ends = ["writer w0 pb0 t0", "reader r0 sb1 t1"]
    lines += ends[::-1] if reader_first else ends
    lines += ["matched w0", "matched r0", "status w0 publication_matched", "status r0 subscription_matched"]
    return lines


PART_CORPUS = [
    # DESIGN 7.1 D20 (D20a, D20b repaired: [] matches the empty name and *, A* does not match A?; D20c open: a+ matches aa)
    scenario([], ["%e"]), scenario([], ["*"]), scenario(["%e"], ["*"]), scenario(["A*"], ["A?"]), scenario(["a+"], ["aa"]),
    scenario([], []), scenario(["A"], ["B", "A"]), scenario(["A"], ["B"]), scenario(["A1"], ["?1"]), scenario(["[a-b]1"], ["b1", "c1"]),
    scenario(["A"], ["A"], topic_w="T", topic_r="U"),
    # D20b: identical expressions are equal names; different expressions never match, also next to a name one of them matches
    scenario(["A*"], ["A*"]), scenario(["A*", "B"], ["A?", "c1"]), scenario(["A*"], ["A?", "A1"]), scenario(["?1", "A*"], ["[a-b]1"]),
    # exactly ONE of two names is matched by the other side's pattern, in both roles and both orders; one of two patterns matches
    scenario(["A1", "B"], ["A*"]), scenario(["B", "A1"], ["A*"]), scenario(["A*"], ["A1", "B"]), scenario(["A*"], ["B", "A1"]),
    scenario(["A1"], ["[a-b]1", "A*"]), scenario(["[a-b]1", "A*"], ["A1"]), scenario(["B", "c1"], ["A*"]), scenario(["A*"], ["B", "c1"]),
]


def gen_list(r):
    c = r.below(10)
    if c < 2:
        return []
    k = 1 if c < 7 else 2
    out = []
    for _ in range(k):
        out.append(r.choice(NAMES) if r.chance(3, 5) else r.choice(PATTERNS))
    return out


def _plain(n):
    return not is_pattern(n) and "+" not in n


def one_of_two(r):
    """two-name (or two-pattern) lists in which exactly ONE element decides: a pattern p on one side, on the other side a name it
    matches and a name it does not match (both orders, both roles), or two patterns of which one matches the single name of the
    other side, or no match at all. `+` patterns are left out (D20c), the other side is pattern-free (no D20b)."""
    pats = [p for p in PATTERNS if "+" not in p]
    names = [n for n in NAMES if _plain(n)]
    p = r.choice(pats)
    hit = [n for n in names if spec_name_match(p, n)]
    miss = [n for n in names if not spec_name_match(p, n)]
    kind = r.below(10)
    if kind < 5 and hit and miss:
        other = r.shuffle([r.choice(hit), r.choice(miss)])
        one = [p]
    elif kind < 8 and hit:
        x = r.choice(hit)
        qs = [q for q in pats if not spec_name_match(q, x)]
        if not qs:
            return None
        one = r.shuffle([p, r.choice(qs)])
        other = [x] if r.chance(1, 2) or not miss else r.shuffle([x, r.choice(miss)])
    elif len(miss) >= 2:
        other = r.shuffle(miss)[:2]
        one = [p]
    else:
        return None
    # role: the pattern side is the subscriber or the publisher
    return (other, one) if r.chance(1, 2) else (one, other)


def partition_cases(r, tier):
    n = 150 if tier == "quick" else 2000
    cases = [Case(c) for c in PART_CORPUS]
    for _ in range(60 if tier == "quick" else 800):
        x = one_of_two(r)
        if x is not None:
            cases.append(Case(scenario(x[0], x[1], "T", "T", r.chance(1, 2))))
    for _ in range(n):
        pa, pb = gen_list(r), gen_list(r)
        if r.chance(1, 3) and pa:
            # bias: make the other side share / match a name
            x = r.choice(pa)
            pb = [x] if not is_pattern(x) else [r.choice(NAMES)] + pb[:1]
        tw, tr = ("T", "T") if r.chance(9, 10) else ("T", "U")
        cases.append(Case(scenario(pa, pb, tw, tr, r.chance(1, 2))))
    return cases


def _lists(case):
    pa = pb = tw = tr = None
    for l in case.lines:
        t = l.split()
        if t[0] == "topic":
            if t[1] == "t0":
                tw = t[3]
            else:
                tr = t[3]
        if t[0] in ("publisher", "subscriber"):
            v = [x.split("=")[1] for x in t[3:] if x.startswith("partition=")]
            lst = [] if not v or v[0] == "-" else v[0].split(",")
            if t[0] == "publisher":
                pa = lst
            else:
                pb = lst
    return pa, pb, tw, tr


def partition_oracle(case, out):
    pa, pb, tw, tr = _lists(case)
    want = tw == tr and spec_partition_match(pa, pb)
    viol = []
    seen = {}
    for l, o in zip(case.lines, out):
        t = l.split()
        if o in ("PANIC", "HANG", "CRASH", "POISONED"):
            return [{"what": f"`{l}` answered {o}"}]
        if t[0] == "matched" and o.startswith("ok "):
            seen[t[1]] = int(o.split()[1])
    if len(seen) == 2 and seen["w0"] != seen["r0"]:
        viol.append({"what": f"the two sides disagree: writer matched {seen['w0']}, reader matched {seen['r0']} (publisher partition {pa}, subscriber partition {pb})"})
    for e, n in seen.items():
        if (n == 1) != want:
            v = {"what": f"{e}: {'matched' if n else 'not matched'} with publisher partition {pa} and subscriber partition {pb} on topics {tw}/{tr}; "
                         f"the DDS partition rule says {'match' if want else 'no match'}"}
            if tw == tr:
                if n == 0 and want and (not pa) != (not pb):
                    v["cause"] = CAUSE_EMPTY            # D20a (repaired: a label only, nothing is suppressed)
                elif n == 1 and not want and any(is_pattern(x) for x in pa) and any(is_pattern(x) for x in pb):
                    v["cause"] = CAUSE_PATTERN          # D20b (repaired: a label only, nothing is suppressed)
                elif n == 1 and not want and any("+" in x for x in pa + pb):
                    v["cause"] = CAUSE_PLUS             # D20c (open)
            viol.append(v)
    return viol


def partition_nontrivial(case, out):
    pa, pb, tw, tr = _lists(case)
    return bool(pa or pb)


# ----------------------------------------------------------------------------- the part to call from vlib/props/C15.py

PART_BINS = ["match", "dsim", "matchset"]
PART_LEAN_MODULES = ["DustVerif.Props.C15Partition"]


def run_partition_part(ctx):
    """second part of C15: call after the RxO part. Needs BINS += PART_BINS and LEAN_MODULES += PART_LEAN_MODULES."""
    import os
    from vlib.dsim_common import dsim_env
    g = glob_cases(ctx.rng, ctx.tier)
    for c in g:
        ctx.count("glob:" + ("pattern" if glob_nontrivial(c, None) else "plain"))
    ctx.differential("match", g, nontrivial=glob_nontrivial, oracle=glob_oracle, shrink=False)
    p = partition_cases(ctx.rng, ctx.tier)
    for c in p:
        pa, pb, tw, tr = _lists(c)
        ctx.count("partition:" + ("same-topic" if tw == tr else "other-topic") + (":spec-match" if spec_partition_match(pa, pb) else ":spec-nomatch"))
    env = dict(os.environ)
    env.update(dsim_env(16, 60000))
    ctx.differential("matchset", p, nontrivial=partition_nontrivial, oracle=partition_oracle, shrink=False, env=env)
