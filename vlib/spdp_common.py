"""Generator and specification-level oracle for the `spdp` engine (C17: participant discovery, isolation, lease expiry).

Scenario sub-language (subset of notes/dsim.md + the two ext ops of harness/src/bin/dsim.rs, block `ext w2b`):
  config announce=<ns>            participant_announcement_interval of participants created later (default 5 s)
  config tag=<t|->                domain tag of participants created later
  participant <name> [domain=<d>]
  hold DATA from=<index> times=1  BEFORE creating participant <index>: its first SPDP announcement is held (source for forging)
  spdp-forge <source index> <to> [id=<n>] [domain=<d>|none] [lease=<ns>]
                                  a patched copy of the held announcement is delivered to <to> only: it claims to come from
                                  participant GUID <n>, domain <d> (or carries no domain id), lease <ns>; the tag is the source's
  drop-next <n> DATA from=<name>  the next n announcements of <name> are lost          drop-if from=<name>   (silent for ever)
  ignore <name> <name|#index>     delete <name>     advance <ns>     now     discovered <name> participants
No topics or endpoints are created, so the only DATA submessages on the wire are SPDP announcements and disposes.
"""
from vlib.core import Case

ENGINE = "spdp"
SEC = 1000000000
LEASE = 100 * SEC
PERIOD = 50000000          # the worker's poke period: "no later than the lease plus one worker period"
CAUSE_LEASE = "lease-of-first-announcement-kept"


def handle(i):
    return "b1b2b3b4a1a2a3a4" + "%02x%02x%02x%02x" % (i & 255, (i >> 8) & 255, (i >> 16) & 255, (i >> 24) & 255) + "000001c1"


# ----------------------------------------------------------------------------- generator

def gen_forge_case(r):
    """family A: one observed participant P0, every announcement it hears (besides its own) is forged: arbitrary leases,
    domain ids, tags and times, boundary-biased advances"""
    L = []
    interval = r.choice([1000 * SEC, 1000 * SEC, 7 * SEC])
    L.append(f"config announce={interval}")
    tag0 = r.choice(["-", "-", "x"])
    if tag0 != "-":
        L.append(f"config tag={tag0}")
    d0 = r.choice([0, 0, 1])
    L.append("participant P0" + (f" domain={d0}" if d0 else ""))
    tag1 = tag0 if r.chance(3, 4) else r.choice(["y", "-", "x"])
    L.append(f"config tag={tag1}")
    L.append("hold DATA from=1 times=1")
    L.append(f"participant S domain={d0 + 2}")
    L.append("discovered P0 participants")
    now = 0
    ent = {}    # id -> (last, lease) as far as the generator can guess (for boundary advances only)
    ids = [1, 5, 6, 300]
    for _ in range(r.range(4, 11)):
        c = r.below(100)
        if c < 45:
            n = r.choice(ids)
            dom = d0 if r.chance(3, 4) else r.choice([d0 + 1, "none", d0 + 2])
            lease = r.choice([0, 1, SEC, 2 * SEC, 2 * SEC, 5 * SEC, 100 * SEC, 3 * SEC + 1])
            toks = [f"spdp-forge 1 P0 id={n}"]
            if dom != d0 or r.chance(1, 2):
                toks.append(f"domain={dom}")
            if lease != 100 * SEC or r.chance(1, 2):
                toks.append(f"lease={lease}")
            L.append(" ".join(toks))
            if n in ent:
                ent[n] = (now, ent[n][1])
            else:
                ent[n] = (now, lease)
        elif c < 85:
            cand = [v[0] + v[1] - now for v in ent.values() if v[0] + v[1] - now >= 0]
            if cand and r.chance(3, 4):
                b = r.choice(cand)
                d = max(0, b + r.choice([-1, 0, 0, 1, 1, 2, PERIOD]))
            else:
                d = r.choice([1, SEC, 2 * SEC, 50 * SEC, 100 * SEC - 1, 100 * SEC, 100 * SEC + 1])
            if d > 0:
                L.append(f"advance {d}")
                now += d
        elif c < 93:
            L.append(f"ignore P0 #{r.choice(ids)}")
        else:
            L.append("now")
        L.append("discovered P0 participants")
    return Case(L)


def gen_real_case(r):
    """family B: 2-4 real participants (domain ids and tags mixed), lossy announcements, silent death, deletion, ignoring,
    late joiners, boundary-biased advances around the 100 s lease"""
    L = []
    interval = r.choice([None, None, 2 * SEC, 1000 * SEC])
    if interval:
        L.append(f"config announce={interval}")
    parts = []      # dict(name, alive)
    cur_tag = "-"

    def new_part():
        nonlocal cur_tag
        i = len(parts)
        t = r.choice(["-", "-", "-", "x"])
        if t != cur_tag:
            L.append(f"config tag={t}")
            cur_tag = t
        d = r.choice([0, 0, 0, 1])
        L.append(f"participant P{i}" + (f" domain={d}" if d else ""))
        parts.append({"name": f"P{i}", "alive": True})

    def observe():
        for p in parts:
            if p["alive"]:
                L.append(f"discovered {p['name']} participants")

    for _ in range(r.range(2, 3)):
        new_part()
    observe()
    for _ in range(r.range(3, 8)):
        c = r.below(100)
        live = [p for p in parts if p["alive"]]
        if c < 40:
            L.append("advance " + str(r.choice([1, SEC, 2 * SEC, 5 * SEC, 5 * SEC + 1, 50 * SEC, 100 * SEC - 1, 100 * SEC, 100 * SEC + 1,
                                                  101 * SEC, 106 * SEC, 130 * SEC])))
        elif c < 55 and live:
            L.append(f"drop-next {r.range(1, 3)} DATA from={r.choice(live)['name']}")
            if r.chance(1, 2) and len(parts) < 4:
                new_part()
        elif c < 65 and live:
            L.append(f"drop-if from={r.choice(live)['name']}")
        elif c < 75 and len(live) >= 2:
            p = r.choice(live)
            L.append(f"delete {p['name']}")
            p["alive"] = False
        elif c < 87 and live:
            a = r.choice(live)
            b = r.choice(parts)
            L.append(f"ignore {a['name']} {b['name']}")
        elif len(parts) < 4:
            new_part()
        else:
            L.append("now")
        observe()
    return Case(L)


def gen_late_copy_case(r):
    """family C: a REAL participant P1 of the observer's domain whose first announcement is held (so that a copy of a genuine
    announcement with its GUID can be delivered at any later time, as a delayed / duplicated datagram or a restarting device
    with a fixed GUID would): P0 and P1 discover each other, then a random order of ignore / delete (the dispose reaches P0) /
    silence / time, and late copies of P1's announcement in between and afterwards; every list is read after every step"""
    L = []
    interval = r.choice([5 * SEC, 2 * SEC, 5 * SEC])
    if interval != 5 * SEC:
        L.append(f"config announce={interval}")
    L.append("participant P0")
    third = r.chance(1, 3)
    L.append("hold DATA from=1 times=1")
    L.append("participant P1")
    if third:
        L.append("participant P2")
    L.append(f"advance {interval + r.choice([0, 1, SEC])}")     # P0's next periodic announcement makes P1 answer
    obs = ["discovered P0 participants"] + (["discovered P2 participants"] if third else [])
    L += obs + ["discovered P1 participants"]
    p1_alive = True
    steps = r.shuffle(["ignore", "delete", "late", "late", "advance", "ignore2" if third else "advance"])
    if r.chance(3, 4):
        # the order of the seeded defect first: ignore, dispose, late copy
        steps = ["ignore", "delete", "late"] + r.shuffle(["advance", "late", "ignore2" if third else "late"])
    for st in steps:
        if st == "ignore":
            L.append("ignore P0 P1")
        elif st == "ignore2":
            L.append("ignore P2 P1")
        elif st == "delete" and p1_alive:
            if r.chance(1, 5):
                L.append("drop-if from=P1")          # silent instead of disposed
            else:
                L.append("delete P1")
                p1_alive = False
        elif st == "late":
            to = "P2" if third and r.chance(1, 3) else "P0"
            lease = r.choice([None, None, 3 * SEC, 100 * SEC])
            L.append(f"spdp-forge 1 {to}" + (f" lease={lease}" if lease else ""))
        elif st == "advance":
            L.append(f"advance {r.choice([1, SEC, interval, 2 * interval + 1])}")
        L += obs
    L.append(f"advance {r.choice([SEC, 2 * interval])}")
    L += obs
    return Case(L)


def gen_case(r, tier):
    c = r.below(10)
    if c < 4:
        return gen_forge_case(r)
    if c < 8:
        return gen_real_case(r)
    return gen_late_copy_case(r)


FORGE_HEAD = ["config announce=1000000000000", "participant P0", "hold DATA from=1 times=1", "participant S domain=2"]
CORPUS = [
    # seeded change C17_d: ignore P1, P1 is deleted (its dispose reaches P0), then a late copy of P1's announcement arrives: never listed again
    ["participant P0", "hold DATA from=1 times=1", "participant P1", f"advance {5 * SEC}", "discovered P0 participants", "ignore P0 P1",
     "discovered P0 participants", "delete P1", "discovered P0 participants", "spdp-forge 1 P0", "discovered P0 participants",
     f"advance {6 * SEC}", "spdp-forge 1 P0", "discovered P0 participants"],
    # exact lease boundary of a forged participant: present at lastSeen + lease, gone 1 ns later
    FORGE_HEAD + [f"spdp-forge 1 P0 id=5 lease={2 * SEC}", "discovered P0 participants", f"advance {2 * SEC}", "discovered P0 participants",
                  "advance 1", "discovered P0 participants"],
    # isolation: other domain id, no domain id, other tag
    FORGE_HEAD + ["spdp-forge 1 P0 id=5 domain=1", "discovered P0 participants", "spdp-forge 1 P0 id=6 domain=none", "discovered P0 participants"],
    ["config announce=1000000000000", "participant P0", "config tag=y", "hold DATA from=1 times=1", "participant S domain=2",
     "spdp-forge 1 P0 id=5 domain=0", "discovered P0 participants"],
    # ignored for ever
    FORGE_HEAD + ["spdp-forge 1 P0 id=5", "ignore P0 #5", "discovered P0 participants", "spdp-forge 1 P0 id=5", "discovered P0 participants",
                  f"advance {SEC}", "spdp-forge 1 P0 id=5", "discovered P0 participants"],
    # D-spdp-1 (repaired; was: the lease of a re-announcement is ignored): first 2 s, then 100 s, 2 s of silence: still listed
    FORGE_HEAD + [f"spdp-forge 1 P0 id=5 lease={2 * SEC}", f"advance {SEC}", f"spdp-forge 1 P0 id=5 lease={100 * SEC}", f"advance {2 * SEC + 1}",
                  "discovered P0 participants"],
    # real participants: default period, lossy start, silent death, deletion
    ["participant P0", "drop-next 2 DATA from=P0", "participant P1", "discovered P0 participants", "discovered P1 participants", f"advance {11 * SEC}",
     "discovered P0 participants", "discovered P1 participants", "drop-if from=P1", f"advance {100 * SEC}", "discovered P0 participants",
     f"advance {6 * SEC}", "discovered P0 participants", "delete P1", "discovered P0 participants"],
    ["participant P0", "participant P1 domain=1", "config tag=x", "participant P2", "discovered P0 participants", "discovered P1 participants",
     "discovered P2 participants", "ignore P0 P0", "discovered P0 participants", f"advance {6 * SEC}", "discovered P0 participants"],
]


# ----------------------------------------------------------------------------- specification-level oracle

def oracle(case, out):
    now = 0
    interval, tag = 5 * SEC, ""
    parts = {}       # name -> dict(idx, domain, tag, interval, created, alive, mute_at, lossy, deleted_at)
    by_idx = {}
    forge_src = {}   # idx -> tag (known after creation)
    held = set()
    viol = []
    forged = {}      # (observer name, key) -> list of (time, acceptable, lease)
    ignored = {}     # (observer name, key) -> time

    def add(i, what, cause=None):
        v = {"what": f"op {i} `{case.lines[i]}`: {what}", "at": i}
        if cause:
            v["cause"] = cause
        viol.append(v)

    for i, (line, o) in enumerate(zip(case.lines, out)):
        t = line.split()
        if not t or t[0].startswith("#"):
            continue
        if o in ("PANIC", "HANG", "CRASH", "POISONED"):
            add(i, f"answered {o}")
            break
        if o == "bad-op":
            break
        op = t[0]
        if op == "config":
            k, v = t[1].split("=")
            if k == "announce":
                interval = int(v)
            elif k == "tag":
                tag = "" if v == "-" else v
        elif op == "participant" and o.startswith("ok "):
            d = 0
            for x in t[2:]:
                if x.startswith("domain="):
                    d = int(x.split("=")[1])
            idx = len(parts)
            parts[t[1]] = {"idx": idx, "domain": d, "tag": tag, "interval": interval, "created": now, "alive": True, "mute_at": None,
                           "lossy": idx in held, "deleted_at": None, "name": t[1]}
            by_idx[idx] = parts[t[1]]
            if o.split()[1] != handle(idx):
                add(i, f"participant handle {o.split()[1]} is not the expected GUID {handle(idx)}")
        elif op == "hold":
            held.add(int(t[2].split("=")[1]))
        elif op == "drop-next":
            parts[t[3].split("=")[1]]["lossy"] = True
            parts[t[3].split("=")[1]].setdefault("loss_events", []).append((now, int(t[1])))
        elif op == "drop-if":
            p = parts[t[1].split("=")[1]]
            if p["mute_at"] is None:
                p["mute_at"] = now
        elif op == "delete" and o == "ok":
            p = parts[t[1]]
            p["alive"] = False
            p["deleted_at"] = now
        elif op == "advance":
            now += int(t[1])
        elif op == "now" and o.startswith("ok "):
            if int(o.split()[1]) != now:
                add(i, f"virtual time is {o.split()[1]}, the scenario advanced it to {now}")
        elif op == "ignore" and o == "ok":
            k = int(t[2][1:]) if t[2].startswith("#") else parts[t[2]]["idx"]
            ignored.setdefault((t[1], k), now)
        elif op == "spdp-forge" and o.startswith("ok"):
            src = by_idx[int(t[1])]
            to = parts[t[2]]
            kv = dict(x.split("=") for x in t[3:])
            key = int(kv.get("id", src["idx"]))
            dom = kv.get("domain", str(src["domain"]))
            lease = int(kv.get("lease", LEASE))
            acceptable = (dom == "none" or int(dom) == to["domain"]) and src["tag"] == to["tag"]
            forged.setdefault((t[2], key), []).append((now, acceptable, lease))
        elif op == "discovered" and o.startswith("ok"):
            y = parts[t[1]]
            got = set(o.split()[2:])
            keys = set(p["idx"] for p in parts.values()) | set(k for (n, k) in forged if n == t[1])
            known_handles = {handle(k): k for k in keys}
            for h in got - set(known_handles):
                add(i, f"{t[1]} lists an unknown participant {h}")
            for k in sorted(keys):
                present = handle(k) in got
                ign = ignored.get((t[1], k))
                fl = forged.get((t[1], k), [])
                real = by_idx.get(k)
                # ---- isolation
                compatible_real = real is not None and real["domain"] == y["domain"] and real["tag"] == y["tag"]
                if present and not compatible_real and not any(a for (_, a, _) in fl):
                    add(i, f"{t[1]} (domain {y['domain']}, tag {y['tag']!r}) lists participant {k}, all of whose announcements carry another domain id or tag")
                # ---- ignored for ever
                if present and ign is not None:
                    add(i, f"{t[1]} lists participant {k} although it ignored it at t={ign}")
                    continue
                if ign is not None:
                    continue
                # ---- forged subjects: exact knowledge of every announcement
                if fl and (real is None or real["domain"] != y["domain"]):
                    acc = [(ta, lease) for (ta, a, lease) in fl if a]
                    if not acc:
                        continue
                    ta, lease = acc[-1]
                    multi = len(set(l for (_, l) in acc)) > 1
                    cause = CAUSE_LEASE if multi else None
                    if now <= ta + lease and not present:
                        add(i, f"{t[1]} does not list participant {k} at t={now}, although its announcement of t={ta} promised a lease of {lease} ns", cause)
                    tl = max(x[0] for x in fl)     # any message of that GUID counts as communication, acceptable or not
                    if now > tl + lease + PERIOD and present:
                        add(i, f"{t[1]} still lists participant {k} at t={now}: last heard t={tl}, lease {lease} ns, one worker period {PERIOD} ns", cause)
                    continue
                # ---- real subjects
                if real is None or not compatible_real:
                    continue
                if real["deleted_at"] is not None:
                    if not real["lossy"] and real["mute_at"] is None and present:
                        add(i, f"{t[1]} still lists participant {k}, deleted at t={real['deleted_at']}")
                    continue
                if k in held and k != y["idx"]:
                    continue
                ta = max(real["created"], y["created"])
                clean = not real["lossy"] and real["mute_at"] is None
                clean_y = not y["lossy"] and y["mute_at"] is None
                if clean and clean_y and now <= ta + LEASE and not present:
                    add(i, f"{t[1]} does not list participant {k} at t={now}; they met at t={ta} (lease {LEASE} ns)")
                if clean and real["interval"] + PERIOD < LEASE and not present and (clean_y or now >= y["created"] + real["interval"] + PERIOD):
                    add(i, f"{t[1]} does not list the live participant {k} (announcing every {real['interval']} ns, nothing lost)")
                if real["mute_at"] is not None and now > real["mute_at"] + LEASE + PERIOD and present:
                    add(i, f"{t[1]} still lists participant {k} at t={now}, silent since t={real['mute_at']}")
                if real["mute_at"] is None and real["lossy"] and real["interval"] + PERIOD < LEASE:
                    # announcements eventually get through: after the last loss rule, n+1 periods later one has arrived
                    ev = real.get("loss_events", [])
                    if ev:
                        t_ok = max(tl + (n + 1) * real["interval"] + PERIOD for (tl, n) in ev)
                        t_ok = max(t_ok, y["created"] + real["interval"] + PERIOD)
                        if now >= t_ok and not present:
                            add(i, f"{t[1]} does not list participant {k} at t={now} although its announcements get through again since t<={t_ok}")
    return viol


def nontrivial(case, out):
    """a participant other than the observer itself was listed at some point, and a later observation differs from an earlier one"""
    obs = {}
    changed = False
    other = False
    for l, o in zip(case.lines, out):
        t = l.split()
        if t and t[0] == "discovered" and o.startswith("ok"):
            n = int(o.split()[1])
            if n >= 2:
                other = True
            if t[1] in obs and obs[t[1]] != o:
                changed = True
            obs[t[1]] = o
    return other and changed
