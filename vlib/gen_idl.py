"""IDL part of engine `gen` (C41): random IDL ASTs, pretty printer, the declared structure (IDL semantics) for the
oracle, the crate writer around the output of the REAL compiler (`dust_dds_gen::compile_idl` through harness bin `idlc`).

Textual AST (s-expression, see notes/gen.md):
  SPEC   := (DEF ...)
  DEF    := (module Name DEF ...) | (struct Name (SANN ...) (MEMBER ...)) | (enum Name BITS|- ((Name VALUE|-) ...))
          | (union Name (ANN ...) BASE (CASE ...)) | (typedef TYPE (DECL ...)) | (const Name TYPE text)
  SANN   := final | appendable | mutable | o:<text>          MEMBER := (m (MANN ...) TYPE (DECL ...))
  MANN   := key | id:N | optional | o:<name>                 DECL   := (Name dim ...)
  CASE   := (case (LABEL ...) TYPE DECL)                     LABEL  := N | default
  TYPE   := <base spelling> | (string N|-) | (wstring N|-) | (seq TYPE N|-) | (name 0|1 seg ...)
Op lines:  idl <i> SPEC -> ok|ERR|PANIC|RUSTC        ty <i> <j> SPEC -> T <A::B::Name> <description> | -
"""
import os, subprocess
from vlib import gen_common as G

BASES = ["short", "int16", "long", "int32", "longlong", "int64", "ushort", "uint16", "ulong", "uint32", "ulonglong", "uint64",
         "int8", "uint8", "float", "double", "char", "wchar", "boolean", "octet"]
BASE_TEXT = {"longlong": "long long", "ushort": "unsigned short", "ulong": "unsigned long", "ulonglong": "unsigned long long"}
BASE_KIND = {"short": "INT16", "int16": "INT16", "long": "INT32", "int32": "INT32", "longlong": "INT64", "int64": "INT64",
             "ushort": "UINT16", "uint16": "UINT16", "ulong": "UINT32", "uint32": "UINT32", "ulonglong": "UINT64", "uint64": "UINT64",
             "int8": "INT8", "uint8": "UINT8", "float": "FLOAT32", "double": "FLOAT64", "char": "CHAR8", "wchar": "CHAR16",
             "boolean": "BOOLEAN", "octet": "BYTE"}        # XTypes 1.3 7.2.2.2: octet is the Byte type (TK_BYTE), distinct from uint8
U32MAX = 2**32 - 1


# ------------------------------------------------------------------------------------------ AST helpers

def tb(b): return ("base", b)
def tstr(n=None): return ("string", n)
def twstr(n=None): return ("wstring", n)
def tseq(t, n=None): return ("seq", t, n)
def tname(path, abs_=False): return ("name", abs_, list(path))


def ty_sx(t):
    k = t[0]
    if k == "base": return t[1]
    if k in ("string", "wstring"): return [k, G.optatom(t[1])]
    if k == "seq": return ["seq", ty_sx(t[1]), G.optatom(t[2])]
    if k == "name": return ["name", G.b01(t[1])] + list(t[2])
    raise ValueError(k)


def ty_unsx(s):
    if isinstance(s, str):
        assert s in BASES, s
        return tb(s)
    un = lambda x: None if x == "-" else int(x)
    if s[0] in ("string", "wstring"): return (s[0], un(s[1]))
    if s[0] == "seq": return ("seq", ty_unsx(s[1]), un(s[2]))
    if s[0] == "name": return ("name", s[1] == "1", list(s[2:]))
    raise ValueError(s[0])


def mann_sx(a): return a if isinstance(a, str) else f"{a[0]}:{a[1]}"
def mann_unsx(s):
    if ":" in s:
        a, b = s.split(":", 1)
        return (a, int(b)) if a == "id" else (a, b)
    return s


def def_sx(d):
    k = d[0]
    if k == "module": return ["module", d[1]] + [def_sx(x) for x in d[2]]
    if k == "struct":
        return ["struct", d[1], [mann_sx(a) for a in d[2]], [["m", [mann_sx(a) for a in m[0]], ty_sx(m[1]), [[n] + list(dims) for n, dims in m[2]]]
                                                           for m in d[3]]]
    if k == "enum": return ["enum", d[1], G.optatom(d[2]), [[n, G.optatom(v)] for n, v in d[3]]]
    if k == "union":
        return ["union", d[1], list(d[2]), d[3], [["case", list(c[0]), ty_sx(c[1]), [c[2][0]] + list(c[2][1])] for c in d[4]]]
    if k == "typedef": return ["typedef", ty_sx(d[1]), [[n] + list(dims) for n, dims in d[2]]]
    if k == "const": return ["const", d[1], ty_sx(d[2]), d[3]]
    raise ValueError(k)


def def_unsx(s):
    k = s[0]
    dec = lambda x: (x[0], [int(y) for y in x[1:]])
    if k == "module": return ("module", s[1], [def_unsx(x) for x in s[2:]])
    if k == "struct": return ("struct", s[1], [mann_unsx(a) for a in s[2]], [([mann_unsx(a) for a in m[1]], ty_unsx(m[2]), [dec(x) for x in m[3]]) for m in s[3]])
    if k == "enum": return ("enum", s[1], None if s[2] == "-" else int(s[2]), [(n, None if v == "-" else int(v)) for n, v in s[3]])
    if k == "union": return ("union", s[1], list(s[2]), s[3], [([l if l == "default" else int(l) for l in c[1]], ty_unsx(c[2]), dec(c[3])) for c in s[4]])
    if k == "typedef": return ("typedef", ty_unsx(s[1]), [dec(x) for x in s[2]])
    if k == "const": return ("const", s[1], ty_unsx(s[2]), s[3])
    raise ValueError(k)


def spec_sx(spec): return G.sx([def_sx(d) for d in spec])
def spec_unsx(text): return [def_unsx(d) for d in G.parse_sexp(text)[0]]


# ------------------------------------------------------------------------------------------ IDL text

def ty_idl(t):
    k = t[0]
    if k == "base": return BASE_TEXT.get(t[1], t[1])
    if k in ("string", "wstring"): return k + (f"<{t[1]}>" if t[1] is not None else "")
    if k == "seq": return f"sequence<{ty_idl(t[1])}" + (f", {t[2]}" if t[2] is not None else "") + ">"
    if k == "name": return ("::" if t[1] else "") + "::".join(t[2])
    raise ValueError(k)


def decl_idl(d): return d[0] + "".join(f"[{n}]" for n in d[1])


def ann_text(x):
    """`name` or `name:arg` -> `@name` / `@name(arg)`"""
    if ":" in x:
        a, b = x.split(":", 1)
        return f"@{a}({b})"
    return "@" + x


def sann_idl(a):
    if a in ("final", "appendable", "mutable"): return "@" + a
    return ann_text(a[1])      # ("o", "nested") / ("o", "extensibility:MUTABLE")


def mann_idl(a):
    if a == "key": return "@key"
    if a == "optional": return "@optional"
    if a[0] == "id": return f"@id({a[1]})"
    return ann_text(a[1])


def def_idl(d, ind=""):
    k = d[0]
    if k == "module":
        return f"{ind}module {d[1]} {{\n" + "".join(def_idl(x, ind + "  ") for x in d[2]) + f"{ind}}};\n"
    if k == "struct":
        s = "".join(f"{ind}{sann_idl(a)}\n" for a in d[2]) + f"{ind}struct {d[1]} {{\n"
        for anns, t, decls in d[3]:
            s += f"{ind}  " + "".join(mann_idl(a) + " " for a in anns) + ty_idl(t) + " " + ", ".join(decl_idl(x) for x in decls) + ";\n"
        return s + f"{ind}}};\n"
    if k == "enum":
        s = (f"{ind}@bit_bound({d[2]})\n" if d[2] is not None else "") + f"{ind}enum {d[1]} {{ "
        s += ", ".join((f"@value({v}) " if v is not None else "") + n for n, v in d[3])
        return s + " };\n"
    if k == "union":
        s = "".join(f"{ind}@{a}\n" for a in d[2]) + f"{ind}union {d[1]} switch ({BASE_TEXT.get(d[3], d[3])}) {{\n"
        for labels, t, decl in d[4]:
            s += "".join(f"{ind}  " + ("default:" if l == "default" else f"case {l}:") + "\n" for l in labels)
            s += f"{ind}    {ty_idl(t)} {decl_idl(decl)};\n"
        return s + f"{ind}}};\n"
    if k == "typedef":
        return f"{ind}typedef {ty_idl(d[1])} " + ", ".join(decl_idl(x) for x in d[2]) + ";\n"
    if k == "const":
        return f"{ind}const {ty_idl(d[2])} {d[1]} = {d[3]};\n"
    raise ValueError(k)


def spec_idl_plain(spec): return "".join(def_idl(d) for d in spec)


# ---- the same AST in varying concrete syntax ------------------------------------------------------------------------------
# The grammar is white-space insensitive between tokens (pest's implicit WHITESPACE / COMMENT), except inside the atomic rules
# (`identifier`, `scoped_name` = "::"? identifier ("::" identifier)*, literals). The printer below emits TOKENS and joins them with
# separators chosen pseudo-randomly — "", blanks, tabs, line breaks, and (only after `;` `{` `}`) comments — from a seed derived from
# the AST, so a replay prints the same text. The AST, hence the model's prediction, does not depend on the spelling.
# Kept tight on purpose: `@name`, a scoped name, and a `>` that directly follows a `>` (see D-gen-29: `>>` after a bound is read as shift).

TIGHT = object()


def ty_toks(t):
    k = t[0]
    if k == "base": return BASE_TEXT.get(t[1], t[1]).split()
    if k in ("string", "wstring"): return [k] + (["<", str(t[1]), ">"] if t[1] is not None else [])
    if k == "seq":
        inner = ty_toks(t[1])
        out = ["sequence", "<"] + inner + ([",", str(t[2])] if t[2] is not None else [])
        if out[-1] == ">":
            out.append(TIGHT)
        return out + [">"]
    if k == "name": return [("::" if t[1] else "") + "::".join(t[2])]
    raise ValueError(k)


def decl_toks(d):
    out = [d[0]]
    for n in d[1]:
        out += ["[", str(n), "]"]
    return out


def ann_toks(x):
    """`name` or `name:arg` -> `@name` / `@name ( arg )`"""
    if ":" in x:
        a, b = x.split(":", 1)
        return ["@" + a, "(", b, ")"]
    return ["@" + x]


def sann_toks(a): return ["@" + a] if a in ("final", "appendable", "mutable") else ann_toks(a[1])


def mann_toks(a):
    if a == "key": return ["@key"]
    if a == "optional": return ["@optional"]
    if a[0] == "id": return ["@id", "(", str(a[1]), ")"]
    return ann_toks(a[1])


def def_toks(d):
    k = d[0]
    if k == "module":
        return ["module", d[1], "{"] + [t for x in d[2] for t in def_toks(x)] + ["}", ";"]
    if k == "struct":
        out = [t for a in d[2] for t in sann_toks(a)] + ["struct", d[1], "{"]
        for anns, t, decls in d[3]:
            out += [x for a in anns for x in mann_toks(a)] + ty_toks(t)
            for i, dc in enumerate(decls):
                out += ([","] if i else []) + decl_toks(dc)
            out.append(";")
        return out + ["}", ";"]
    if k == "enum":
        out = (["@bit_bound", "(", str(d[2]), ")"] if d[2] is not None else []) + ["enum", d[1], "{"]
        for i, (n, v) in enumerate(d[3]):
            out += ([","] if i else []) + (["@value", "(", str(v), ")"] if v is not None else []) + [n]
        return out + ["}", ";"]
    if k == "union":
        out = ["@" + a for a in d[2]] + ["union", d[1], "switch", "("] + BASE_TEXT.get(d[3], d[3]).split() + [")", "{"]
        for labels, t, decl in d[4]:
            for l in labels:
                out += ["default", ":"] if l == "default" else ["case", str(l), ":"]
            out += ty_toks(t) + decl_toks(decl) + [";"]
        return out + ["}", ";"]
    if k == "typedef":
        out = ["typedef"] + ty_toks(d[1])
        for i, dc in enumerate(d[2]):
            out += ([","] if i else []) + decl_toks(dc)
        return out + [";"]
    if k == "const":
        return ["const"] + ty_toks(d[2]) + [d[1], "=", d[3], ";"]
    raise ValueError(k)


def _wordy(c): return c.isalnum() or c in "_\"'."


def render_toks(toks, r, mode):
    """mode 0: one blank between tokens, line break after ; { }  (the plain style); 1: as dense as the grammar allows;
    2: airy (random blanks, tabs, line breaks everywhere); 3: airy + comments after ; { }"""
    out = []
    prev = None
    tight = False
    for t in toks:
        if t is TIGHT:
            tight = True
            continue
        if prev is not None and not tight:
            # a blank is needed between two words, before `@`, and before an absolute name `::A` after a word (`@key ::A::B x;`
            # without it reads as the annotation `key::A::B`)
            need = _wordy(prev[-1]) and (_wordy(t[0]) or t[0] in "@:") or (prev[-1] == ":" and t[0] == ":")
            if mode == 0:
                sep = "\n" if prev in (";", "{", "}") else " "
            elif mode == 1:
                sep = " " if need else ""
            else:
                sep = r.choice(["", " ", " ", "  ", "\t", "\n", "\n    ", " \n "])
                if need and sep == "":
                    sep = " "
                if mode == 3 and prev in (";", "{", "}") and r.chance(1, 3):
                    sep += r.choice(["/* note */", "// remark\n", "/* multi\n   line */ ", "//\n"])
                    if sep.endswith("*/") and _wordy(t[0]):
                        sep += " "
            out.append(sep)
        tight = False
        out.append(t)
        prev = t
    return "".join(out) + ("\n" if mode != 1 else "")


def spec_idl(spec):
    """IDL text of a specification; the concrete syntax (white space, line breaks, comments) varies with a seed derived from the AST"""
    import hashlib
    from vlib.core import SplitMix64
    r = SplitMix64(int(hashlib.sha1(spec_sx(spec).encode()).hexdigest()[:15], 16))
    mode = r.choice([0, 1, 2, 2, 3, 3])
    toks = [t for d in spec for t in def_toks(d)]
    return render_toks(toks, r, mode)



# ------------------------------------------------------------------------------------------ declared structure (IDL semantics)

def idl_scope(spec):
    """{absolute path tuple: definition} of every struct / enum / union / typedef name, in declaration order"""
    out = {}

    def go(defs, mods):
        for d in defs:
            if d[0] == "module":
                go(d[2], mods + [d[1]])
            elif d[0] in ("struct", "enum", "union"):
                out[tuple(mods + [d[1]])] = (d, mods)
            elif d[0] == "typedef":
                for n, dims in d[2]:
                    out[tuple(mods + [n])] = (("alias", d[1], dims), mods)
    go(spec, [])
    return out


def idl_resolve(scope, mods, name):
    """IDL name lookup (IDL 4.2 7.20): absolute from the root; otherwise in the current scope, then the enclosing ones"""
    if name[1]:
        return tuple(name[2]) if tuple(name[2]) in scope else None
    for k in range(len(mods), -1, -1):
        p = tuple(mods[:k] + name[2])
        if p in scope:
            return p
    return None


def flat_members(s):
    """(annotations, type, name, dims) per declarator: IDL applies the annotations of a member to every declarator"""
    return [(anns, t, n, dims) for anns, t, decls in s[3] for n, dims in decls]


def struct_ext(s):
    for a in s[2]:
        if a in ("final", "appendable", "mutable"):
            return a
        if a[0] == "o" and a[1].startswith("extensibility:"):
            return a[1][len("extensibility:"):].lower()
    return "final"          # dust_dds's documented default; XTypes 1.3 7.3.1.2.1.8 says APPENDABLE -- not judged here


# ------------------------------------------------------------------------------------------ oracle: description vs declaration

def check_type(scope, mods, t, dims, got, path, viol, feats):
    """compare the published description `got` of a member with its declared IDL type"""
    def bad(what, cause=None):
        v = {"what": f"{path}: {what}"}
        if cause:
            v["cause"] = cause
        viol.append(v)
    if dims:
        if got[0] != "ARRAY":
            return bad(f"declared array {dims}, published kind {got[0]}")
        if got[4] != [str(x) for x in dims]:
            if len(dims) > 1 and got[4] == [str(dims[0])]:
                bad(f"array dimensions {dims} declared, published bound {got[4]}", "multidim-array-truncated")
            else:
                bad(f"array dimensions {dims} declared, published bound {got[4]}")
        return check_type(scope, mods, t, [], got[5], path + "[]", viol, feats)
    k = t[0]
    if k == "base":
        want = BASE_KIND[t[1]]
        if got[0] != want:
            if t[1] == "wchar" and got[0] == "CHAR8":
                bad("wchar published as CHAR8 (declared CHAR16)", "wide-type-mapped-to-narrow")
            elif t[1] == "octet" and got[0] == "UINT8":
                bad("octet published as UINT8 (declared BYTE)", "octet-published-as-uint8")
            else:
                bad(f"declared {t[1]} ({want}), published {got[0]}")
        return
    if k in ("string", "wstring"):
        want = "STRING8" if k == "string" else "STRING16"
        if got[0] != want:
            if k == "wstring" and got[0] == "STRING8":
                bad("wstring published as STRING8 (declared STRING16)", "wide-type-mapped-to-narrow")
            else:
                return bad(f"declared {k}, published {got[0]}")
        wb = [str(t[1] if t[1] is not None else U32MAX)]
        if got[4] != wb:
            bad(f"bound {wb} declared, published {got[4]}", "bound-dropped" if t[1] is not None and got[4] == [str(U32MAX)] else None)
        return
    if k == "seq":
        if got[0] != "SEQUENCE":
            return bad(f"declared sequence, published {got[0]}")
        wb = [str(t[2] if t[2] is not None else U32MAX)]
        if got[4] != wb:
            bad(f"sequence bound {wb} declared, published {got[4]}", "bound-dropped" if t[2] is not None and got[4] == [str(U32MAX)] else None)
        return check_type(scope, mods, t[1], [], got[5], path + "<>", viol, feats)
    if k == "name":
        p = idl_resolve(scope, mods, t)
        if p is None:
            return bad(f"unresolved name {t[2]} (generator error)")
        d, dm = scope[p]
        if d[0] == "alias":
            return check_type(scope, dm, d[1], d[2], got, path, viol, feats)
        return check_decl(scope, dm, d, got, path, viol, feats)


def check_decl(scope, mods, d, got, path, viol, feats):
    """compare the published description of a struct / enum / union with its IDL declaration"""
    def bad(what, cause=None):
        v = {"what": f"{path}: {what}"}
        if cause:
            v["cause"] = cause
        viol.append(v)
    kind = {"struct": "STRUCTURE", "enum": "ENUM", "union": "UNION"}[d[0]]
    if got[0] != kind:
        return bad(f"declared {d[0]}, published kind {got[0]}")
    qn = '"' + "::".join(mods + [d[1]]) + '"'
    if got[1] != qn:
        bad(f"type name {got[1]}, declared {qn}")
    if d[0] == "struct":
        ext = struct_ext(d)
        if got[2] != ext[0].upper():
            bad(f"extensibility {got[2]}, declared {ext}")
        fm = flat_members(d)
        gm = got[7]
        if len(gm) != len(fm):
            return bad(f"{len(gm)} members published, {len(fm)} declared")
        # documented ids: explicit @id respected, others previous + 1 (XTypes 7.3.1.2.1.1); final/appendable without any @id: position
        ids, nxt = [], 0
        for anns, t, n, dims in fm:
            e = next((a[1] for a in anns if not isinstance(a, str) and a[0] == "id"), None)
            x = e if e is not None else nxt
            ids.append(x)
            nxt = x + 1
        any_id = any(not isinstance(a, str) and a[0] == "id" for anns, _, _, _ in fm for a in anns)
        for j, ((anns, t, n, dims), g) in enumerate(zip(fm, gm)):
            p2 = f"{path}.{n}"
            if g[1] != f'"{n}"':
                bad(f"member {j} is named {g[1]}, declared {n}")
            for flag, idx, name in (("key" in anns, 4, "key"), ("optional" in anns, 5, "optional"), ("key" in anns, 6, "must-understand")):
                if g[idx] != G.b01(flag):
                    viol.append({"what": f"{p2}: {name} flag {g[idx]}, declared {G.b01(flag)}"})
            if g[2] != str(ids[j]):
                c = None
                if ext != "mutable" and any_id and [m[2] for m in gm] == [str(i) for i in range(len(gm))]:
                    c = "explicit-id-ignored-unless-mutable"
                viol.append({"what": f"{p2}: member id {g[2]}, declared {ids[j]}", **({"cause": c} if c else {})})
            check_type(scope, mods, t, dims, g[9], p2, viol, feats)
    elif d[0] == "enum":
        if got[7] == [] and d[3]:
            bad(f"enumerators {[n for n, _ in d[3]]} are not part of the published type", "enum-literals-not-described")
        want = {None: "INT32", 8: "INT8", 16: "INT16", 32: "INT32"}.get(d[2], "INT32")
        if got[6] == "-" or got[6][0] != want:
            bad(f"enum holder type {got[6] if got[6] == '-' else got[6][0]}, declared bit_bound {d[2]}")
    else:
        gm = got[7]
        if len(gm) != len(d[4]) + 1:
            return bad(f"{len(gm) - 1} union members published, {len(d[4])} declared")
        if gm[0][9][0] != BASE_KIND[d[3]]:
            bad(f"discriminator kind {gm[0][9][0]}, declared {d[3]}", "octet-published-as-uint8" if d[3] == "octet" and gm[0][9][0] == "UINT8" else None)
        for j, ((labels, t, decl), g) in enumerate(zip(d[4], gm[1:])):
            p2 = f"{path}.{decl[0]}"
            if g[1] != f'"{decl[0]}"':
                viol.append({"what": f"{p2}: union member is published under the name {g[1]}, declared {decl[0]}",
                             "cause": "union-member-named-after-label"})
            wl = [str(l) for l in labels if l != "default"]
            if g[7] != wl:
                viol.append({"what": f"{p2}: labels {g[7]}, declared {wl}",
                             **({"cause": "union-implicit-label-is-index-plus-one"} if not wl and g[7] == [str(j + 1)] else {})})
            if g[8] != G.b01("default" in labels):
                bad(f"{decl[0]}: default flag {g[8]}, declared {'default' in labels}")
            check_type(scope, mods, t, decl[1], g[9], p2, viol, feats)


def spec_types(spec):
    """(absolute path, definition, module path) of the struct / enum / union definitions in declaration order"""
    out = []

    def go(defs, mods):
        for d in defs:
            if d[0] == "module":
                go(d[2], mods + [d[1]])
            elif d[0] in ("struct", "enum", "union"):
                out.append((mods + [d[1]], d, mods))
    go(spec, [])
    return out


def features(spec):
    """risky features of a spec (used to CLASSIFY a rejection; every one of them is valid IDL of the subset)"""
    f = set()
    scope = idl_scope(spec)

    def is_constructed(mods, t):
        if t[0] == "seq":
            return is_constructed(mods, t[1])
        if t[0] != "name":
            return False
        p = idl_resolve(scope, mods, t)
        if p is None:
            return False
        d, dm = scope[p]
        return is_constructed(dm, d[1]) if d[0] == "alias" else True

    def clash(t):
        if t[0] != "seq":
            return False
        inner = t[1]
        if t[2] is None and inner[0] in ("string", "wstring") and inner[1] is not None:
            return True
        if t[2] is None and inner[0] == "seq" and inner[2] is not None:
            return True
        return clash(inner)

    def chk_ty(mods, t, depth_seq=0):
        if clash(t):
            f.add("template-close-parsed-as-shift")
        if t[0] == "seq":
            if t[1][0] == "seq":
                f.add("nested-sequence-not-supported")
            chk_ty(mods, t[1])
        elif t[0] == "name":
            p = idl_resolve(scope, mods, t)
            if p is not None:
                d, dm = scope[p]
                # how the generated Rust path resolves: relative paths only from the module of declaration, absolute only below the root
                if t[1]:
                    if not mods:
                        f.add("scoped-name-not-resolvable-in-rust")
                elif tuple(mods + t[2]) != p:
                    f.add("scoped-name-not-resolvable-in-rust")

    def go(defs, mods):
        for d in defs:
            k = d[0]
            if k == "module":
                go(d[2], mods + [d[1]])
            elif k == "struct":
                for anns, t, decls in d[3]:
                    chk_ty(mods, t)
                    if "optional" in anns and is_constructed(mods, t):
                        f.add("optional-constructed-member-needs-partialeq")
            elif k == "enum":
                if d[2] is not None:
                    f.add("bit-bound-attribute-spelling")
            elif k == "const":
                if d[2] == ("base", "boolean"):
                    f.add("boolean-constant-not-rust")
            elif k == "union":
                if d[2]:
                    f.add("union-annotation-rejected")
                for labels, t, decl in d[4]:
                    chk_ty(mods, t)
            elif k == "typedef":
                chk_ty(mods, d[1])
                if any(dims for _, dims in d[2]):
                    f.add("typedef-array-panics")
    go(spec, [])
    # a member whose (alias-expanded) type nests sequences / arrays of sequences has no DataStorageMapping impl
    def expands_to_seq(mods, t):
        if t[0] == "seq":
            return True
        if t[0] == "name":
            p = idl_resolve(scope, mods, t)
            if p is not None:
                d, dm = scope[p]
                if d[0] == "alias":
                    return bool(d[2]) or expands_to_seq(dm, d[1])
        return False

    def go2(defs, mods):
        for d in defs:
            if d[0] == "module":
                go2(d[2], mods + [d[1]])
            elif d[0] in ("struct", "union"):
                mem = [(t, dims) for _, t, decls in d[3] for _, dims in decls] if d[0] == "struct" else [(t, decl[1]) for _, t, decl in d[4]]
                for t, dims in mem:
                    if (dims and expands_to_seq(mods, t)) or (t[0] == "seq" and expands_to_seq(mods, t[1])):
                        f.add("nested-sequence-not-supported")
    go2(spec, [])
    return f


OUTCOME_CAUSE_ORDER = ["template-close-parsed-as-shift", "union-annotation-rejected", "typedef-array-panics", "bit-bound-attribute-spelling",
                       "optional-constructed-member-needs-partialeq", "nested-sequence-not-supported",
                       "scoped-name-not-resolvable-in-rust", "boolean-constant-not-rust"]


# ------------------------------------------------------------------------------------------ random specs

class IdlGen:
    def __init__(self, rng):
        self.r = rng
        self.n = 0

    def name(self, p):
        self.n += 1
        return f"{p}{self.n}"

    def base(self):
        return tb(self.r.choice(BASES))

    def ty(self, avail, mods, depth=0, wild=None):
        """a member type; `avail`: [(abs path, kind)] of the types declared so far"""
        r = self.r
        c = r.below(100)
        if c < 40:
            return self.base()
        if c < 52:
            return tstr(None if r.chance(1, 2) else r.choice([1, 8, 255])) if r.chance(3, 4) else twstr(None if r.chance(1, 2) else 16)
        if c < 68 and depth == 0:
            inner = self.ty(avail, mods, 1)
            if inner[0] == "seq":
                inner = self.base()
            return tseq(inner, None if r.chance(1, 2) else r.choice([1, 4, 100]))
        if avail:
            p, _ = r.choice(avail)
            return self.ref(p, mods)
        return self.base()

    def ref(self, p, mods):
        """a scoped name for the declared type `p` that the generated Rust can resolve: same module -> simple name,
        from the root -> relative path, from inside a module to elsewhere -> absolute path"""
        if list(p[:-1]) == list(mods):
            return tname([p[-1]])
        if not mods:
            return tname(list(p))
        return tname(list(p), True)

    def struct(self, avail, mods, wild):
        r = self.r
        name = self.name("S")
        anns = []
        c = r.below(10)
        if c < 4:
            anns.append(r.choice(["final", "appendable", "mutable"]))
        elif c < 6:
            anns.append(("o", "extensibility:" + r.choice(["FINAL", "APPENDABLE", "MUTABLE"])))
        if r.chance(1, 6):
            anns.insert(r.below(len(anns) + 1), ("o", r.choice(["nested", "topic"])))
        members = []
        nm = r.choice([1, 1, 2, 3, 4, 5])
        explicit = (("mutable" in anns) or (("o", "extensibility:MUTABLE") in anns)) and r.chance(1, 2)
        nid = 0
        for _ in range(nm):
            t = self.ty(avail, mods)
            ma = []
            if r.chance(1, 4):
                ma.append("key")
            elif r.chance(1, 6) and not (t[0] == "name") and not (t[0] == "seq" and t[1][0] == "name"):
                ma.append("optional")
            has_id = explicit and r.chance(2, 3)
            if has_id:
                nid += r.choice([0, 1, 5, 100])                   # nid = the id an un-annotated member would get next
                ma.insert(r.below(len(ma) + 1), ("id", nid))      # before or after @key / @optional
            if r.chance(1, 12):
                ma.insert(r.below(len(ma) + 1), ("o", r.choice(["external", "must_understand"])))
            decls = []
            two = r.chance(1, 5) and not any(not isinstance(a, str) and a[0] == "id" for a in ma)   # @id on two declarators is an IDL error
            for _ in range(2 if two else 1):
                n = self.name(r.choice(["a", "b", "val", "x", "count", "data"]))
                dims = [] if r.chance(3, 4) else [r.choice([1, 2, 3, 5])]
                if dims and t[0] == "seq":
                    dims = []
                decls.append((n, dims))
            nid += len(decls)                                     # ids stay distinct (a repeated id is a compile error since D-gen-1)
            members.append((ma, t, decls))
        return ("struct", name, anns, members)

    def enum(self):
        r = self.r
        n = r.choice([1, 2, 3, 4])
        vals = r.chance(1, 3)
        cur = 0
        es = []
        for i in range(n):
            v = None
            if vals:
                cur += r.choice([0, 1, 5, 100])
                v = cur
            es.append((self.name("E_"), v))
            cur += 1
        bits = None
        if r.chance(1, 12):          # rare: as it is (D-gen-24 open) such an enum does not compile and costs a probe binary
            bits = next((b for b in r.shuffle([8, 16, 32]) if cur - 1 <= {8: 127, 16: 32767, 32: 2**31 - 1}[b]), None)
        return ("enum", self.name("En"), bits, es)

    def union(self, avail, mods):
        r = self.r
        disc = r.choice(["long", "int32", "short", "octet", "uint8", "ulong", "int8", "longlong", "ushort"])
        hi = {"octet": 255, "uint8": 255, "int8": 127, "short": 32767, "ushort": 65535}.get(disc, 2**31 - 1)
        n = r.choice([1, 2, 3, 4])
        used, cases = set(), []
        for i in range(n):
            labels = []
            for _ in range(r.choice([1, 1, 2])):
                x = r.choice([0, 1, 2, 3, 10, 100, hi])
                while x in used:
                    x = r.range(0, min(hi, 120))
                used.add(x)
                labels.append(x)
            if i == n - 1 and r.chance(1, 2):
                labels.insert(r.below(len(labels) + 1), "default") if r.chance(1, 2) else labels.__setitem__(slice(None), ["default"])
            t = self.ty(avail, mods, 1)
            dims = [] if r.chance(4, 5) or t[0] == "seq" else [r.choice([1, 2, 4])]
            cases.append((labels, t, (self.name("u"), dims)))
        return ("union", self.name("Un"), [], disc, cases)

    def typedef(self, avail, mods):
        r = self.r
        t = self.ty(avail, mods)
        return ("typedef", t, [(self.name("Td"), [])])

    def const(self):
        r = self.r
        c = r.below(5)
        if c == 4 and r.chance(1, 3):   # rare: as it is (D-gen-28 open) a boolean constant does not compile and costs a probe binary
            return ("const", self.name("K"), tb("boolean"), r.choice(["TRUE", "FALSE"]))
        c = c % 4
        if c == 0: return ("const", self.name("K"), tb("long"), str(r.choice([0, 1, 42, 2147483647])))
        if c == 1: return ("const", self.name("K"), tb("double"), r.choice(["1.5", "0.25", "100.0"]))
        if c == 2: return ("const", self.name("K"), tstr(), '"hello"')
        return ("const", self.name("K"), tb("ushort"), str(r.choice([7, 65535])))

    def defs(self, avail, mods, budget, depth):
        r = self.r
        out = []
        for _ in range(budget):
            c = r.below(100)
            if c < 45:
                d = self.struct(avail, mods, False)
                out.append(d); avail.append((tuple(mods + [d[1]]), "struct"))
            elif c < 58:
                d = self.enum()
                out.append(d); avail.append((tuple(mods + [d[1]]), "enum"))
            elif c < 70:
                d = self.union(avail, mods)
                out.append(d); avail.append((tuple(mods + [d[1]]), "union"))
            elif c < 80:
                d = self.typedef(avail, mods)
                out.append(d); avail.append((tuple(mods + [d[2][0][0]]), "alias"))
            elif c < 86:
                out.append(self.const())
            elif depth < 2:
                n = self.name("M")
                out.append(("module", n, self.defs(avail, mods + [n], r.choice([1, 2, 3]), depth + 1)))
            else:
                d = self.struct(avail, mods, False)
                out.append(d); avail.append((tuple(mods + [d[1]]), "struct"))
        return out

    def spec(self):
        self.n = 0
        spec = self.defs([], [], self.r.choice([1, 2, 3, 4, 5]), 0)
        if not spec_types(spec):
            spec.append(self.struct([], [], False))
        return spec


def corpus():
    """hand-written specs; the exemplar of every known finding of C41 first"""
    M = lambda anns, t, *decls: (list(anns), t, [(d, []) if isinstance(d, str) else d for d in decls])
    out = []
    # bounds dropped
    out.append([("struct", "Bounds", [], [M([], tstr(8), "s"), M([], tseq(tb("long"), 4), "q"), M([], tstr(), "u")])])
    # multi-dimensional array
    out.append([("struct", "Matrix", [], [M([], tb("long"), ("m", [2, 3])), M([], tb("octet"), ("v", [4]))])])
    # wide types
    out.append([("struct", "Wide", [], [M([], tb("wchar"), "c"), M([], twstr(), "w")])])
    # D-gen-14 (repaired): one #[dust_dds] attribute per annotation: @key @id, @id @key, @mutable inside a module
    out.append([("module", "Mo", [("struct", "Attrs", ["mutable"], [M(["key", ("id", 5)], tb("long"), "a"), M([("id", 9), "key"], tb("long"), "b"),
                                                                       M([], tb("short"), "c")])])])
    # D-gen-15 (repaired): annotations on a member with several declarators
    out.append([("struct", "Decls", [], [M(["key"], tb("long"), "k1", "k2"), M(["optional"], tb("short"), "o1", "o2")])])
    # concrete-syntax variants of the same constructs (the printer picks white space / line breaks / comments from a hash of the AST):
    # annotation parameters with blanks and line breaks inside the parentheses, several annotations, arrays, templates
    for i, kind in enumerate(["APPENDABLE", "MUTABLE", "FINAL", "APPENDABLE", "MUTABLE", "APPENDABLE"]):
        out.append([("module", f"Sx{i}", [("struct", f"Spaced{i}", [("o", "extensibility:" + kind), ("o", "nested")],
                                           [M(["key", ("id", 4 + i)], tseq(tstr(None), 3), "names"), M([("id", 20)], tb("ulonglong"), ("grid", [2])),
                                            M(["optional"], tb("double"), "opt1", "opt2")])])])
    # D-gen-16 (repaired): the long spelling @extensibility(MUTABLE)
    out.append([("struct", "ExtSpelled", [("o", "extensibility:MUTABLE")], [M([], tb("long"), "a")])])
    # @id in a final struct (C40 D-gen-2)
    out.append([("struct", "IdFinal", ["final"], [M([("id", 7)], tb("long"), "a"), M([], tb("long"), "b")])])
    # enum literals (C40 D-gen-3), @value
    out.append([("enum", "Colors", None, [("RED", None), ("GREEN", 5), ("BLUE", None)])])
    # union: member names, labels, default in the middle
    out.append([("union", "Un", [], "long", [([1], tb("octet"), ("x", [])), ([2, "default", 3], tb("long"), ("y", [])), ([4], tstr(), ("z", [2]))])])
    # sequence<int8> (C40 D-gen-4)
    out.append([("struct", "TinySeq", [], [M([], tseq(tb("int8")), "t")])])
    # rejected / not compiling
    out.append([("union", "AnnUn", ["mutable"], "long", [([1], tb("long"), ("x", []))])])
    out.append([("struct", "Shift", [], [M([], tseq(tstr(8)), "names")])])
    out.append([("typedef", tb("long"), [("Arr3", [3])]), ("struct", "UsesArr", [], [M([], tname(["Arr3"]), "a")])])
    out.append([("enum", "Small", 8, [("A", None), ("B", None)])])
    out.append([("struct", "In1", [], [M([], tb("long"), "a")]), ("struct", "OptIn", [], [M(["optional"], tname(["In1"]), "o")])])
    out.append([("struct", "SeqSeq", [], [M([], tseq(tseq(tb("octet"))), "a")])])
    out.append([("module", "A", [("struct", "Sa", [], [M([], tb("long"), "a")])]),
                ("module", "B", [("struct", "Sb", [], [M([], tname(["A", "Sa"]), "s")])])])
    out.append([("module", "A", [("struct", "Sa", [], [M([], tb("long"), "a")])]), ("struct", "Top", [], [M([], tname(["A", "Sa"], True), "s")])])
    out.append([("const", "Flag", tb("boolean"), "TRUE"), ("struct", "AfterConst", [], [M([], tb("long"), "a")])])
    # regular: nested modules, references in the forms that work, typedefs, constants
    out.append([("const", "N", tb("long"), "42"),
                ("module", "Outer", [("enum", "Kind", None, [("K1", None), ("K2", None)]),
                                     ("module", "Inner", [("struct", "Leaf", ["appendable"], [M(["key"], tb("ulonglong"), "id"), M([], tname(["Outer", "Kind"], True), "kind")])]),
                                     ("typedef", tseq(tb("double"), None), [("Doubles", [])]),
                                     ("struct", "Mid", ["mutable"], [M([("id", 3)], tname(["Doubles"]), "d"), M([], tname(["Inner", "Leaf"]), ("leafs", [2]))])]),
                ("struct", "Root", [], [M(["key"], tname(["Outer", "Mid"]), "mid"), M(["optional"], tstr(), "note")])])
    return out


# ------------------------------------------------------------------------------------------ the real compiler + generated crate

def idlc(idl_text, workdir, idx):
    """run the real compiler (harness bin idlc) on a file; returns (status, rust text)"""
    os.makedirs(workdir, exist_ok=True)
    p = os.path.join(workdir, f"spec_{idx}.idl")
    with open(p, "w") as f:
        f.write(idl_text)
    return idlc_file(p)


def idlc_file(p):
    try:
        r = subprocess.run([G.bin_path("idlc"), p], stdout=subprocess.PIPE, stderr=subprocess.PIPE, timeout=20)
    except subprocess.TimeoutExpired:
        return "HANG", ""
    out = r.stdout.decode("utf-8", "replace")
    if r.returncode == 0 and out.startswith("OK\n"):
        return "ok", out[3:]
    if r.returncode == 0 and out.startswith("ERR"):
        return "ERR", out
    if r.returncode == 0 and out.startswith("PANIC"):
        return "PANIC", out
    return "CRASH", out + r.stderr.decode("utf-8", "replace")[-300:]


# ------------------------------------------------------------------------------------------ multi-file family (preprocessor; ORACLE ONLY)
# A case with index >= MF_BASE is compiled from THREE files instead of one text: h1.idl (include guard, `#define <MACRO> k`, the definitions
# whose names start with "H1"), h2.idl (include guard, `#include "h1.idl"`, the definitions named "H2..."), main.idl (`#include` of both, the
# other definitions); every array dimension / sequence or string bound equal to k in h2 and main is written as the macro. The op lines carry
# the SINGLE-FILE AST (includes inlined, macro replaced by its value): that is the reference the Lean model predicts from and the oracle
# compares with. The preprocessor itself has no Lean model: guard handling and macro substitution are checked on the implementation's
# output only (each header type generated exactly once, the macro name absent from the output, the crate compiles, descriptions equal).

MF_BASE = 1000
MF_MACRO = "MAXQ7"


def mf_parts(spec):
    h1 = [d for d in spec if d[0] in ("struct", "enum", "union") and d[1].startswith("H1")]
    h2 = [d for d in spec if d[0] in ("struct", "enum", "union") and d[1].startswith("H2")]
    main = [d for d in spec if d not in h1 and d not in h2]
    k = None
    for d in main:
        if d[0] == "struct":
            for _, _, decls in d[3]:
                for _, dims in decls:
                    if dims and k is None:
                        k = dims[0]
    return h1, h2, main, k


def mf_subst(d, k):
    """the definition with every bound equal to k written as the macro name"""
    def ty(t):
        if t[0] in ("string", "wstring"): return (t[0], MF_MACRO if t[1] == k else t[1])
        if t[0] == "seq": return ("seq", ty(t[1]), MF_MACRO if t[2] == k else t[2])
        return t
    if d[0] == "struct":
        return ("struct", d[1], d[2], [(a, ty(t), [(n, [MF_MACRO if x == k else x for x in dims]) for n, dims in decls]) for a, t, decls in d[3]])
    return d


def mf_files(spec, style):
    """{file name: text}; `style` (an int) varies include order, guard spelling and where the macro is defined"""
    h1, h2, main, k = mf_parts(spec)
    g1, g2 = "GUARDQ1_IDL", "GUARDQ2_IDL"
    define = f"#define {MF_MACRO} {k}\n"
    h1_text = f"#ifndef {g1}\n#define {g1}\n" + (define if style % 2 == 0 else "") + "".join(def_idl(d) for d in h1) + (define if style % 2 else "") + "#endif\n"
    h2_text = f"#ifndef {g2} // guard\n#define {g2}\n#include \"h1.idl\"\n" + "".join(def_idl(mf_subst(d, k)) for d in h2) + "#endif\n"
    incs = ['#include "h1.idl"\n', '#include "h2.idl"\n']
    if (style // 2) % 3 == 1:
        incs.reverse()
    elif (style // 2) % 3 == 2:
        incs.append('#include "h1.idl" /* once more */\n')
    return {"h1.idl": h1_text, "h2.idl": h2_text, "main.idl": "".join(incs) + "".join(def_idl(mf_subst(d, k)) for d in main)}


def mf_style(spec):
    import hashlib
    return int(hashlib.sha1(spec_sx(spec).encode()).hexdigest()[:6], 16)


def mf_compile(spec, workdir, idx):
    d = os.path.join(workdir, f"mf_{idx}")
    os.makedirs(d, exist_ok=True)
    files = mf_files(spec, mf_style(spec))
    for n, t in files.items():
        with open(os.path.join(d, n), "w") as f:
            f.write(t)
    st, rust = idlc_file(os.path.join(d, "main.idl"))
    return st, rust, files


def mf_text_checks(spec, rust):
    """on the generated Rust text alone: every definition generated exactly once, the macro substituted everywhere"""
    import re
    out = []
    for path, d, mods in spec_types(spec):
        n = len(re.findall(r"pub (?:struct|enum) " + re.escape(d[1]) + r"\b", rust))
        if n != 1:
            out.append(f"{d[1]} is generated {n} times (an include guard must make a header's definitions appear exactly once)")
    if MF_MACRO in rust:
        out.append(f"the macro {MF_MACRO} (#define in h1.idl) is left unsubstituted in the generated code")
    return out


class MfGen:
    """random three-file specifications (as their single-file AST)"""
    def __init__(self, rng):
        self.r = rng
        self.n = 0

    def spec(self):
        r = self.r
        self.n += 1
        n = self.n
        k = r.choice([1, 2, 3, 8, 16])
        other = r.choice([x for x in (4, 5, 7) if x != k])
        M = lambda anns, t, *decls: (list(anns), t, [(d, []) if isinstance(d, str) else d for d in decls])
        h1 = []
        if r.chance(1, 2):
            h1.append(("enum", f"H1Kind{n}", None, [(f"K{n}A", None), (f"K{n}B", None)]))
        h1.append(("struct", f"H1Header{n}", [r.choice(["final", "appendable", "mutable"])] if r.chance(1, 2) else [],
                   [M(["key"], tb("long"), "id"), M([], tb(r.choice(["octet", "short", "double", "boolean"])), "flags")]
                   + ([M([], tname([h1[0][1]]), "kind")] if h1 else [])))
        hname = h1[-1][1]
        h2 = [("struct", f"H2Sensor{n}", [],
               [M([], tname([hname]), "header"), M([], tb("octet"), ("samples", [k]))]
               + ([M([], tseq(tb("short"), k), "queue")] if r.chance(1, 2) else [])
               + ([M([], tb("long"), ("spare", [other]))] if r.chance(1, 2) else []))]
        main = [("struct", f"Station{n}", [r.choice(["final", "mutable"])] if r.chance(1, 2) else [],
                 [M(["key"], tname([hname]), "header"), M([], tname([h2[0][1]]), "sensor"), M([], tb("short"), ("history", [k]))]
                 + ([M([], tstr(k), "label")] if r.chance(1, 2) else [])
                 + ([M([], tname([h2[0][1]]), ("all", [k]), "one")] if r.chance(1, 3) else []))]
        if r.chance(1, 3):
            main.insert(0, ("const", f"KQ{n}", tb("long"), str(k)))
        return h1 + h2 + main


def mf_corpus():
    """the exemplar of seeded change C41_c (guarded header reached twice; its macro used by both includers) first"""
    M = lambda anns, t, *decls: (list(anns), t, [(d, []) if isinstance(d, str) else d for d in decls])
    return [
        [("struct", "H1Header", [], [M(["key"], tb("long"), "id")]),
         ("struct", "H2Sensor", [], [M([], tname(["H1Header"]), "header"), M([], tb("octet"), ("samples", [8]))]),
         ("struct", "Station", [], [M([], tname(["H1Header"]), "header"), M([], tname(["H2Sensor"]), "sensor"), M([], tb("short"), ("history", [8]))])],
        [("enum", "H1Mode", None, [("ON", None), ("OFF", None)]),
         ("struct", "H1Id", ["mutable"], [M(["key"], tb("ulonglong"), "v"), M([], tname(["H1Mode"]), "mode")]),
         ("struct", "H2Block", ["appendable"], [M([], tname(["H1Id"]), "id"), M([], tseq(tb("double"), 3), "vals"), M([], tb("long"), ("pad", [5]))]),
         ("struct", "Top", [], [M(["key"], tname(["H1Id"]), "id"), M([], tname(["H2Block"]), ("blocks", [3])), M([], tstr(3), "tag")])],
    ]


IDL_MAIN_TAIL = r'''
fn main() {
    std::panic::set_hook(Box::new(|_| {}));
    let stdin = std::io::stdin();
    let stdout = std::io::stdout();
    let mut out = std::io::BufWriter::new(stdout.lock());
    for line in stdin.lock().lines() {
        let line = line.unwrap();
        let t: Vec<&str> = line.split_whitespace().collect();
        let r = match t.as_slice() {
            ["reset"] => "ok".to_string(),
            ["idl", i, ..] => answer_idl(i.parse().unwrap_or(usize::MAX)),
            ["ty", i, j, ..] => answer_ty(i.parse().unwrap_or(usize::MAX), j.parse().unwrap_or(usize::MAX)),
            _ => "bad-op".to_string(),
        };
        writeln!(out, "{}", r).unwrap();
    }
}
'''


def idl_prelude():
    """the description printer of the derive crate, without its main"""
    p = G.PRELUDE
    return p[:p.index("fn main() {")]


def probe_rs(rust):
    return "#![allow(warnings)]\nmod spec {\n" + rust + "\n}\nfn main() {}\n"


def idl_main_rs(entries):
    """entries: list of dicts {i, status, rust (if in main), types: [abs path]}"""
    s = idl_prelude()
    for e in entries:
        if e["status"] == "ok" and e.get("in_main"):
            s += f"\npub mod spec_{e['i']} {{\n{e['rust']}\n}}\n"
    s += "\nfn answer_idl(i: usize) -> String {\n    match i {\n"
    for e in entries:
        s += f"        {e['i']} => \"{e['status']}\".to_string(),\n"
    s += '        _ => "bad-op".to_string(),\n    }\n}\n'
    s += "fn answer_ty(i: usize, j: usize) -> String {\n    match (i, j) {\n"
    for e in entries:
        if e["status"] == "ok" and e.get("in_main"):
            for j, p in enumerate(e["types"]):
                s += f"        ({e['i']}, {j}) => format!(\"T {'::'.join(p)} {{}}\", desc(&<spec_{e['i']}::{'::'.join(p)} as TypeSupport>::get_type())),\n"
    s += '        _ => "-".to_string(),\n    }\n}\n'
    return s + IDL_MAIN_TAIL


def idl_case_lines(i, spec):
    sx = spec_sx(spec)
    return [f"idl {i} {sx}"] + [f"ty {i} {j} {sx}" for j in range(len(spec_types(spec)))]


def parse_idl_lines(lines):
    out = {}
    for l in lines:
        t = l.split(None, 2)
        if t and t[0] == "idl":
            out[int(t[1])] = spec_unsx(t[2])
        elif t and t[0] == "ty":
            i, j, rest = l.split(None, 3)[1:]
            out[int(i)] = spec_unsx(rest)
    return out


def build_idl_crate(dirname, specs, predicted, log=None):
    """specs: {i: spec}; predicted: {i: 'ok'|'RUSTC'|...} from the model (decides main crate vs probe bin).
    Returns (entries, crate dir, build log, seconds, main_ok)"""
    work = os.path.join(G.GENCRATES, dirname + "_idl")
    entries, bins = [], {}
    for i, spec in sorted(specs.items()):
        mfv = []
        if i >= MF_BASE:
            st, rust, files = mf_compile(spec, work, i)
            if st == "ok":
                mfv = mf_text_checks(spec, rust)
        else:
            st, rust = idlc(spec_idl(spec), work, i)
        e = {"i": i, "status": st, "types": [p for p, _, _ in spec_types(spec)], "detail": rust[:300] if st != "ok" else ""}
        if i >= MF_BASE:
            e["mf_viol"], e["mf_files"] = mfv, files
        if st == "ok":
            e["rust"] = rust
            if predicted.get(i, "ok") == "ok" and not mfv:
                e["in_main"] = True
            else:
                e["probe"] = f"probe_{i}"
                bins[f"probe_{i}"] = probe_rs(rust)
        entries.append(e)
    for e in entries:
        if e.get("probe"):
            e["status"] = "RUSTC"           # what the model predicts; corrected below if the probe does compile
            try:
                os.remove(G.bin_path(e["probe"]))
            except OSError:
                pass
    try:
        os.remove(G.bin_path("gen_idl"))
    except OSError:
        pass
    d = G.write_crate(dirname, "gen_idl", idl_main_rs(entries), bins)
    ok, out, secs = G.cargo_build(d, log, keep_going=True)
    changed = False
    for e in entries:
        if e.get("probe") and os.path.exists(G.bin_path(e["probe"])):
            e["status"] = "ok"              # compiles although the model said it would not: shows up as a disagreement
            changed = True
    main_ok = os.path.exists(G.bin_path("gen_idl"))
    if changed and main_ok:
        with open(os.path.join(d, "src", "main.rs"), "w") as f:
            f.write(idl_main_rs(entries))
        for e in entries:
            if e.get("probe"):
                try:
                    os.remove(os.path.join(d, "src", "bin", e["probe"] + ".rs"))
                except OSError:
                    pass
        ok2, out2, secs2 = G.cargo_build(d, log)
        secs += secs2
        out += out2
        main_ok = ok2
    return entries, d, out, secs, main_ok


def launch(lines):
    """replay through harness bin `gen`: rebuild everything from the op lines"""
    from vlib.core import run_lines, model_bin
    specs = parse_idl_lines(lines)
    subprocess.run(["cargo", "build", "--offline", "--bin", "idlc"], cwd=G.HARNESS, stdout=subprocess.DEVNULL, stderr=subprocess.DEVNULL)
    rc, pred, _ = run_lines([model_bin(), "gen"], [f"idl {i} {spec_sx(s)}" for i, s in sorted(specs.items())])
    predicted = {i: p for (i, _), p in zip(sorted(specs.items()), pred)}
    entries, d, out, secs, main_ok = build_idl_crate("replay_idl", specs, predicted)
    if not main_ok:
        return ["COMPILE-ERROR " + " | ".join(l for l in out.splitlines() if l.startswith("error"))[:500]] * len(lines)
    p = subprocess.run([G.bin_path("gen_idl")], input=("\n".join(lines) + "\n").encode(), stdout=subprocess.PIPE)
    return p.stdout.decode("utf-8", "replace").splitlines()
