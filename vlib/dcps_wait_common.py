"""DCPS wait lists on the full stack (dsim): `wait_for_acknowledgments` (C03) and `wait_for_historical_data` /
durability (C04). Second part of both checks; the first part is the protocol-level correspondence through the
`rtps` engine (vlib/rtps_common.py).

How the tie works (trace-driven): a scenario runs on the simulator `dsim` (public async API, virtual time, real
RTPS traffic; see notes/dsim.md) with `trace on` and a `trace show` after every op. From the op lines and the
implementation's OWN answers the events of the two DCPS automata of Model/AckWait.lean are extracted in the order the
simulator handled them:
  writer automaton (engine `ackw`, lines w*): matches (`reader` ops), accepted writes, every ACKNACK datagram that
      reached the writer's participant (reader, base, count), reader removals (the SEDP dispose datagram), `wait-ack` calls;
  reader automaton (lines r*): every DATA / GAP / HEARTBEAT submessage that reached the reader's participant, `wait-hist` calls.
The compiled Lean model (`dustmodel ackw`) answers each event: which waiters it answers, the reader's cache, the ACKNACKs
the reader sends. Compared with the implementation: answer AND completion time of every `wait-ack` / `wait-hist`, the
samples of every `take`, and the complete sequence of ACKNACKs each modelled reader sent. The network, the worker
schedule and discovery are NOT modelled: they are observed. An oracle judges the implementation's answers alone.

Scenario sub-language (generator below; one reader of the writer per participant in every model-predicted case):
  participant P<i> / topic t<i> P<i> T ki / publisher pub P1 / subscriber sub<i> P<i>
  writer w pub t1 reliability=reliable history=keep_all|keep_last:<d> [durability=transient_local]
  reader r<i> sub<i> t<i> reliability=reliable|best_effort history=keep_all [durability=transient_local]
  write w <id> <value> | take r<i> | now | advance <ns> | wait-ack w <ns> | wait-hist r<i> <ns>
  drop-if|hold|drop-next|dup-next <pattern on user traffic> | release | clear-faults
  delete r<i> | delete-contained P<i> | delete P<i>
  hold builtin from=P<i> to=P<i> + reorder-next 1 DATA builtin from=P<i> to=P1 + delete r<i>   (the deletion reaches the
      writer right after the next datagram anybody sends, i.e. DURING a following `wait-ack`)
  trace on / trace show
"""
import os, re
from vlib.core import Case, run_cases, harness_bin, model_bin, case_hash, shrink_case
from vlib.dsim_common import dsim_env, BAD, parse_samples

MS = 1000000
SEC = 1000000000
HB = 200 * MS
WENT = "00000002"            # entity id of the first user writer of a participant
SEDP_SUB = "000004c2"        # SEDP subscriptions announcer (reader announcements / disposes)


def user_port(idx):
    return 7411 + 2 * idx


def meta_port(idx):
    return 7410 + 2 * idx


# ----------------------------------------------------------------------------- trace parsing

_SUB = re.compile(r"([A-Z_]+)(?:\(([^)]*)\))?")


def parse_subs(text):
    out = []
    for m in _SUB.finditer(text):
        kind, body = m.group(1), m.group(2)
        f = {}
        if body:
            sm = re.search(r"set=\[([^\]]*)\]", body)
            if sm:
                f["set"] = [int(x) for x in sm.group(1).replace(" ", "").split(",") if x]
                body = body[:sm.start()] + body[sm.end():]
            for kv in body.split(","):
                if "=" in kv:
                    k, v = kv.split("=", 1)
                    f[k.strip()] = v.strip()
        out.append((kind, f))
    return out


def parse_trace(o):
    """`ok n | #id t=.. from=.. to=.. <subs> <fate> | ...` -> [dict]"""
    if not o.startswith("ok"):
        return None
    recs = []
    for item in o.split(" | ")[1:]:
        t = item.split()
        fate = t[-1]
        body = " ".join(t[4:-1])
        recs.append({"id": int(t[0][1:]), "t": int(t[1][2:]), "from": int(t[2][5:]), "to": [int(x) for x in t[3][3:].split(",")],
                     "subs": parse_subs(body), "fate": fate, "text": body})
    return recs


HANDLED = ("sent", "DUPLICATE", "reordered-after-next", "INJECTED")


class World:
    """replays a scenario from its op lines and the implementation's answers: who exists, what was written, and the
    order in which user / SEDP datagrams were handled"""
    def __init__(self, case, out):
        self.lines, self.out = case.lines, out
        self.parts = {}            # name -> idx
        self.subs = {}             # subscriber name -> participant name
        self.readers = {}          # name -> dict(part, idx, ent, rel, tl, created_at(op index), alive, born_sn)
        self.wq = None             # qos dict of the writer named `w`
        self.pubs = {}             # publisher name -> participant name
        self.writers = {}          # name -> dict(part, idx, ent, q, created_at, wid)
        self.writes = []           # (op index, id, value, ok, writer name)
        self.now = 0
        self.held = {}             # id -> rec
        self.broken = None
        self.steps = []            # (op index, tokens, answer, handled records during the op [incl. released], t_before, t_after)
        pending_handled = []
        t_before = 0
        cur = None
        for i, (l, o) in enumerate(zip(case.lines, out)):
            t = l.split()
            if not t or t[0].startswith("#"):
                continue
            if o in BAD or o.startswith("CRASH"):
                if self.broken is None:
                    self.broken = (i, l, o)
                break
            op = t[0]
            if op == "participant":
                self.parts[t[1]] = len(self.parts)
            elif op == "subscriber":
                self.subs[t[1]] = t[2]
            elif op == "publisher":
                self.pubs[t[1]] = t[2]
            elif op == "writer" and o.startswith("ok"):
                q = dict(x.split("=", 1) for x in t[4:] if "=" in x)
                if t[1] == "w" or self.wq is None:
                    self.wq = q
                h = o.split()[1] if len(o.split()) > 1 else "0" * 32
                pp = self.pubs.get(t[2], "P1")
                self.writers[t[1]] = {"part": pp, "idx": self.parts.get(pp, 0), "ent": h[24:], "q": q, "created_at": i,
                                      "wid": len(self.writers) + 1}
            elif op == "reader" and o.startswith("ok "):
                h = o.split()[1]
                q = dict(x.split("=", 1) for x in t[4:] if "=" in x)
                p = self.subs[t[2]]
                self.readers[t[1]] = {"part": p, "idx": self.parts[p], "ent": h[24:], "rel": q.get("reliability", "best_effort") == "reliable",
                                      "tl": q.get("durability", "volatile") == "transient_local", "created_at": i, "alive": True,
                                      "born_sn": sum(1 for w in self.writes if w[3]), "handle": h}
            elif op == "write":
                self.writes.append((i, int(t[2]), t[3], o == "ok", t[1]))
            elif op == "now" and o.startswith("ok "):
                self.now = int(o.split()[1])
            elif op == "delete" and t[1] in self.readers:
                self.readers[t[1]]["alive"] = False
                self.readers[t[1]]["deleted_at"] = i
            elif op == "delete-contained":
                for r in self.readers.values():
                    if r["part"] == t[1] and r["alive"]:
                        r["alive"] = False
                        r["deleted_at"] = i
            if op == "trace" and t[1:] == ["show"]:
                recs = parse_trace(o) or []
                for r in recs:
                    if r["fate"] == "HELD":
                        self.held[r["id"]] = r
                    elif r["fate"] in HANDLED or r["fate"].startswith("COALESCED"):
                        pending_handled.append(r)
                if cur is not None:
                    cur["handled"] += pending_handled
                pending_handled = []
                continue
            if op == "release" and o.startswith("ok"):
                ids = [int(x[1:]) for x in t[1:] if x.startswith("#")]
                rel = [self.held.pop(k) for k in (ids if ids else sorted(self.held)) if k in self.held]
                pending_handled += [dict(r, released=True) for r in rel]
            if op == "drop-held":
                self.held.clear()
            cur = {"i": i, "t": t, "o": o, "handled": [], "t0": self.now}
            if pending_handled:
                cur["handled"] += pending_handled
                pending_handled = []
            self.steps.append(cur)

    def sample_of_sn(self, wname="w"):
        m, sn = {}, 0
        for (_, k, v, ok, wn) in self.writes:
            if ok and wn == wname:
                sn += 1
                m[sn] = f"{k}:{v}"
        return m

    def siblings(self):
        """participants that host more than one reader of the writer"""
        c = {}
        for r in self.readers.values():
            c[r["part"]] = c.get(r["part"], 0) + 1
        return {p for p, n in c.items() if n > 1}


# ----------------------------------------------------------------------------- event extraction + model run

def rid_of(r):
    return r["idx"] * 100 + int(r["ent"][:4], 16)


def build_model_lines(w):
    """-> (lines for `dustmodel ackw`, plan) where plan maps positions of the model's answers to what they predict"""
    lines, plan = [], []
    def emit(l, what=None):
        lines.append(l); plan.append(what)
    emit("wreset 0")
    wtl = w.wq is not None and w.wq.get("durability") == "transient_local"
    sibl = w.siblings()
    modelled = {n: r for n, r in w.readers.items() if r["part"] not in sibl}
    order = sorted(modelled)           # reader automata are run one after the other (rreset), the writer's first
    # ---- writer automaton
    by_key = {(r["idx"], r["ent"]): n for n, r in w.readers.items()}
    waitid = 0
    for st in w.steps:
        t, o = st["t"], st["o"]
        op = t[0]
        if op == "reader" and o.startswith("ok ") and t[1] in w.readers:
            r = w.readers[t[1]]
            emit(f"wmatch {rid_of(r)} {'rel' if r['rel'] else 'be'}")
        if op == "write" and o == "ok" and t[1] == "w":
            emit("wwrite")
        if op == "wait-ack":
            waitid += 1
            emit(f"wwait {waitid}", ("wait-ack", st["i"], waitid, st["t0"], int(t[2])))
        last_t = st["t0"]
        for rec in st["handled"]:
            # a released datagram is handled when the `release` op runs, a reorder-stashed one right after the datagram that freed it
            tt = st["t0"] if rec.get("released") else (last_t if rec["fate"] == "reordered-after-next" else rec["t"])
            last_t = max(last_t, tt)
            if user_port(0) in rec["to"]:
                for kind, f in rec["subs"]:
                    if kind == "ACKNACK" and f.get("w") == WENT:
                        n = by_key.get((rec["from"], f["r"]))
                        if n is not None:
                            emit(f"wack {rid_of(w.readers[n])} {f['base']} {f['count']}", ("ack-event", st["i"], tt))
            if meta_port(0) in rec["to"] and rec["from"] != 0:
                for kind, f in rec["subs"]:
                    if kind == "DATA" and f.get("w") == SEDP_SUB:
                        # a dispose of a reader of that participant (its creation announcement was handled during the `reader` op)
                        for n, r in w.readers.items():
                            if r["idx"] == rec["from"] and not r["alive"] and not r.get("unmatched") and \
                                    st["i"] >= r.get("deleted_at", 1 << 30):
                                r["unmatched"] = True
                                emit(f"wunmatch {rid_of(r)}", ("ack-event", st["i"], tt))
                                break
    emit("wstate")
    # ---- reader automata (any number of matched writers)
    def compatible(r, wr):
        return (not r["tl"]) or wr["q"].get("durability") == "transient_local"
    for n in order:
        r = modelled[n]
        emit(f"rreset {'rel' if r['rel'] else 'be'} {'tl' if r['tl'] else 'vol'}")
        hid = 0
        for st in w.steps:
            t, o = st["t"], st["o"]
            if st["i"] < r["created_at"]:
                continue
            if st["i"] == r["created_at"]:
                for wn, wr in w.writers.items():
                    if wr["created_at"] < r["created_at"] and compatible(r, wr):
                        emit(f"rmatch {wr['wid']}")
            if t[0] == "writer" and t[1] in w.writers and w.writers[t[1]]["created_at"] == st["i"] and st["i"] > r["created_at"] \
                    and compatible(r, w.writers[t[1]]) and r.get("deleted_at", 1 << 30) > st["i"]:
                emit(f"rmatch {w.writers[t[1]]['wid']}")
            if t[0] == "wait-hist" and t[1] == n:
                hid += 1
                emit(f"rwait {hid}", ("wait-hist", st["i"], hid, st["t0"], int(t[2]), n))
            if not r["alive"] and st["i"] > r.get("deleted_at", 1 << 30):
                continue
            for rec in st["handled"]:
                if user_port(r["idx"]) not in rec["to"]:
                    continue
                tt = st["t0"] if rec.get("released") else rec["t"]
                for kind, f in rec["subs"]:
                    wr = next((x for x in w.writers.values() if x["idx"] == rec["from"] and x["ent"] == f.get("w")), None)
                    if wr is None or not compatible(r, wr):
                        continue
                    wid = wr["wid"]
                    if kind == "DATA":
                        emit(f"rdata {wid} {f['sn']}", ("r-event", st["i"], tt, n, wid))
                    elif kind == "GAP":
                        ss = ",".join(str(x) for x in f.get("set", [])) or "-"
                        emit(f"rgap {wid} {f['start']} {f['base']} {ss}", ("r-event", st["i"], tt, n, wid))
                    elif kind == "HEARTBEAT":
                        emit(f"rhb {wid} {f['first']} {f['last']} {f['count']} {'F' if f.get('final') == '1' else 'f'} l", ("r-event", st["i"], tt, n, wid))
            if t[0] == "take" and t[1] == n:
                emit("rstate", ("take", st["i"], n))
        emit("rstate", ("final", None, n))
    return lines, plan


def predict(w, lines, plan, mo):
    """model answers -> {op index: predicted canonical answer} for wait-ack / wait-hist (+time) and take; plus ACKNACK sequences"""
    pred = {}
    acks = {}                  # reader name -> [an:...]
    waits = {}                 # (kind, id) -> dict
    cache_prev = {}
    for l, what, o in zip(lines, plan, mo):
        if what is None:
            continue
        k = what[0]
        if k == "wait-ack":
            _, i, wid, t0, n = what
            waits[("a", wid)] = {"i": i, "t0": t0, "n": n, "done": o.startswith("ok")}
            pred[i] = ("ok", t0) if o.startswith("ok") else None
        elif k == "ack-event":
            _, i, tt = what
            ans = o.split()[1] if o.startswith("ok") else "-"
            for x in ([] if ans == "-" else ans.split(",")):
                wt = waits.get(("a", int(x)))
                if wt and not wt["done"]:
                    wt["done"] = True
                    if wt["i"] == i and tt <= wt["t0"] + wt["n"]:
                        pred[wt["i"]] = ("ok", tt)
        elif k == "wait-hist":
            _, i, hid, t0, n, name = what
            a = o.split(" | ")[0].split()[1] if o.startswith("ok") else "?"
            waits[("h", name, hid)] = {"i": i, "t0": t0, "n": n, "done": a not in ("-",)}
            pred[i] = ("err:IllegalOperation", t0) if a == "illegal" else (("ok", t0) if a != "-" else None)
        elif k == "r-event":
            _, i, tt, name, wid = what
            parts = o.split(" | ")
            if len(parts) == 3:
                a = parts[0].split()[1]
                if parts[2] != "-":
                    acks.setdefault(name, []).extend(f"{wid}|{x}" for x in parts[2].split("+") if x.startswith("an:"))
                for x in ([] if a in ("-", "illegal") else a.split(",")):
                    wt = waits.get(("h", name, int(x)))
                    if wt and not wt["done"]:
                        wt["done"] = True
                        if wt["i"] == i and tt <= wt["t0"] + wt["n"]:
                            pred[wt["i"]] = ("ok", tt)
        elif k == "take":
            _, i, name = what
            cache = o.split("cache=")[1] if "cache=" in o else "-"
            got = []
            for part in ([] if cache == "-" else cache.split(";")):
                wid, lst = part.split(":")
                sns = [] if lst == "-" else [int(x) for x in lst.split(".")]
                prev = cache_prev.get((name, wid), [])
                wn = next(x for x, wr in w.writers.items() if str(wr["wid"]) == wid)
                m = w.sample_of_sn(wn)
                got += [m.get(sn, f"?{sn}") for sn in sns[len(prev):]]
                cache_prev[(name, wid)] = sns
            pred[i] = ("take", sorted(got))
    for key, wt in waits.items():
        if pred.get(wt["i"]) is None:
            pred[wt["i"]] = ("pending", wt["t0"] + wt["n"])
    return pred, acks


def observed(w, case, out):
    """the implementation's side of the comparison"""
    obs = {}
    acks = {}
    by_key = {(r["idx"], r["ent"]): n for n, r in w.readers.items()}
    for k, st in enumerate(w.steps):
        t, o = st["t"], st["o"]
        if t[0] in ("wait-ack", "wait-hist"):
            # completion time = the `now` that follows
            tn = None
            for st2 in w.steps[k + 1:k + 3]:
                if st2["t"][0] == "now" and st2["o"].startswith("ok "):
                    tn = int(st2["o"].split()[1]); break
            obs[st["i"]] = (o, tn)
        elif t[0] == "take":
            s = parse_samples(o) if o.startswith("ok") else []
            obs[st["i"]] = ("take", sorted(x["data"] for x in (s or [])))
    # every ACKNACK a reader put on the wire (whatever its fate), in order
    for l, o in zip(case.lines, out):
        if l == "trace show":
            for rec in parse_trace(o) or []:
                if rec["fate"] in ("reordered-after-next",):
                    continue
                for kind, f in rec["subs"]:
                    if kind == "ACKNACK":
                        n = by_key.get((rec["from"], f["r"]))
                        wr = next((x for x in w.writers.values() if user_port(x["idx"]) in rec["to"] and x["ent"] == f.get("w")), None)
                        if n is not None and wr is not None and (rec["fate"] != "DUPLICATE"):
                            s = ",".join(str(x) for x in f.get("set", [])) or "-"
                            acks.setdefault(n, []).append(f"{wr['wid']}|an:{f['base']}:{s}:{f['count']}")
    return obs, acks


def run_both(cases):
    env = dict(os.environ)
    env.update(dsim_env(16, 60000))
    impl, _ = run_cases([harness_bin("dsim")], cases, timeout=900, env=env)
    worlds, mcases, plans = [], [], []
    for c, io in zip(cases, impl):
        w = World(c, io)
        worlds.append(w)
        if w.broken or c.meta.get("nomodel"):
            mcases.append(Case(["wstate"])); plans.append(None)
            continue
        lines, plan = build_model_lines(w)
        mcases.append(Case(lines)); plans.append(plan)
    model, bad_m = run_cases([model_bin(), "ackw"], mcases)
    return impl, worlds, mcases, plans, model, bad_m


def differential(ctx, cases, nontrivial, oracle):
    impl, worlds, mcases, plans, model, bad_m = run_both(cases)
    if bad_m is not None:
        ctx.disagreements.append({"what": "model driver crashed (model bug, not evidence about the code)",
                                  "ops": mcases[bad_m[0]].lines, "detail": str(bad_m[1:])})
    for idx, c in enumerate(cases):
        ctx.stats["evaluations"] += 1
        io, w = impl[idx], worlds[idx]
        nt = nontrivial(c, io)
        h = case_hash(c.lines)
        if nt and h not in ctx._seen:
            ctx._seen.add(h)
            ctx.stats["distinct_nontrivial"] += 1
        if len(ctx.samples) < 8 and nt:
            ctx.samples.append({"ops": c.lines[:16], "impl": [x[:160] for x in io[:16]]})
        if plans[idx] is not None:
            mo = model[idx]
            if "bad-op" in mo or "PANIC" in mo:
                k = mo.index("bad-op") if "bad-op" in mo else mo.index("PANIC")
                ctx.disagreements.append({"what": "the event extraction left the model's language / the model panicked", "ops": c.lines,
                                          "model_line": mcases[idx].lines[k], "model": mo[k]})
            else:
                pred, packs = predict(w, mcases[idx].lines, plans[idx], mo)
                obs, oacks = observed(w, c, io)
                for i in sorted(pred):
                    p, ob = pred[i], obs.get(i)
                    if p is None or ob is None:
                        continue
                    same = (p[1] == ob[1]) if p[0] == "take" else (p[0] == ob[0] and (ob[1] is None or p[1] == ob[1]))
                    if not same:
                        ctx.disagreements.append({"what": "model and implementation differ", "ops": c.lines, "at": i, "op": c.lines[i],
                                                  "impl": list(ob), "model": list(p), "model_events": mcases[idx].lines[:200]})
                        break
                else:
                    for n in sorted(set(packs) | set(oacks)):
                        if n in w.readers and w.readers[n]["part"] in w.siblings():
                            continue
                        if packs.get(n, []) != oacks.get(n, []):
                            a, b = oacks.get(n, []), packs.get(n, [])
                            k = next((j for j in range(min(len(a), len(b))) if a[j] != b[j]), min(len(a), len(b)))
                            ctx.disagreements.append({"what": f"the ACKNACKs reader {n} sent differ from the model's", "ops": c.lines, "at": k,
                                                      "impl": a[k:k + 3], "model": b[k:k + 3]})
                            break
        for v in oracle(c, io) or []:
            v.setdefault("ops", c.lines)
            ctx.violations.append(v)
    return impl


# ----------------------------------------------------------------------------- generators

def header(nparts, wqos):
    l = [f"participant P{i + 1}" for i in range(nparts)]
    l += [f"topic t{i + 1} P{i + 1} T ki" for i in range(nparts)]
    l += ["publisher pub P1"] + [f"subscriber sub{i + 1} P{i + 1}" for i in range(1, nparts)]
    l += [f"writer w pub t1 reliability=reliable {wqos}".strip(), "trace on"]
    return l


def obs(lines, *ops):
    for o in ops:
        lines.append(o)
        lines.append("trace show")


def gen_c03(r, long=False):
    nrel = r.choice([1, 1, 2])
    be = r.chance(1, 3)
    nparts = 1 + nrel + (1 if be else 0)
    L = header(nparts, "history=keep_all")
    readers = []            # (name, part idx(1-based), rel, created)
    pi = 2
    for k in range(nrel):
        readers.append({"n": f"r{pi}", "p": pi, "rel": True, "made": False, "alive": True}); pi += 1
    if be:
        readers.append({"n": f"r{pi}", "p": pi, "rel": False, "made": False, "alive": True}); pi += 1
    def make(rd):
        obs(L, f"reader {rd['n']} sub{rd['p']} t{rd['p']} reliability={'reliable' if rd['rel'] else 'best_effort'} history=keep_all")
        rd["made"] = True
    for rd in readers:
        if not r.chance(1, 4):
            make(rd)
    key = 0
    def check_wait(n):
        L.append("now")
        obs(L, f"wait-ack w {n}")
        L.append("now")
        for rd in readers:
            if rd["made"] and rd["alive"]:
                L.append(f"take {rd['n']}")
    nsteps = r.range(4, 9) * (2 if long else 1)
    trick_done = False
    for _ in range(nsteps):
        c = r.below(100)
        live = [rd for rd in readers if rd["made"] and rd["alive"]]
        if c < 30:
            key += 1
            obs(L, f"write w {key} {key * 10}")
        elif c < 50:
            if live:
                rd = r.choice(live)
                f = r.choice([f"drop-if ACKNACK user from=P{rd['p']} times={r.range(1, 4)}", f"hold ACKNACK user from=P{rd['p']}",
                              f"drop-next {r.range(1, 3)} DATA user to=P{rd['p']}", f"drop-if HEARTBEAT user times={r.range(1, 3)}",
                              f"hold DATA user to=P{rd['p']}", f"dup-next 1 ACKNACK user from=P{rd['p']}",
                              f"drop-if ACKNACK user from=P{rd['p']}"])
                L.append(f)
        elif c < 62:
            if live and r.chance(1, 2):
                rd = r.choice(live)
                L.append(r.choice([f"drop-if ACKNACK user from=P{rd['p']} times={r.range(1, 5)}", f"drop-next {r.range(1, 4)} DATA user to=P{rd['p']}",
                                   f"drop-if HEARTBEAT user times={r.range(1, 3)}"]))
                key += 1
                obs(L, f"write w {key} {key * 10}")
            check_wait(r.choice([1000, 150 * MS, 450 * MS, 450 * MS, SEC + 50 * MS]))
        elif c < 72:
            obs(L, f"advance {r.choice([50 * MS, 250 * MS, 450 * MS])}")
        elif c < 80:
            L.append("now")
            obs(L, "release")
        elif c < 85:
            L.append("clear-faults")
        elif c < 93:
            pend = [rd for rd in readers if not rd["made"]]
            if pend:
                make(r.choice(pend))
            elif live and len(live) > 1 or (live and r.chance(1, 2)):
                rd = r.choice(live)
                if rd["rel"] and not trick_done and r.chance(1, 2):
                    # the deletion reaches the writer during the next wait-ack
                    trick_done = True
                    L.append(f"drop-if ACKNACK user from=P{rd['p']}")
                    key += 1
                    obs(L, f"write w {key} {key * 10}")
                    L.append(f"hold builtin from=P{rd['p']} to=P{rd['p']}")
                    L.append(f"reorder-next 1 DATA builtin from=P{rd['p']} to=P1")
                    obs(L, f"delete {rd['n']}")
                    rd["alive"] = False
                    check_wait(SEC + 50 * MS)
                else:
                    obs(L, f"delete {rd['n']}")
                    rd["alive"] = False
                    if r.chance(1, 2):
                        check_wait(1000)
        else:
            if live and r.chance(1, 2):
                rd = r.choice(live)
                obs(L, f"delete-contained P{rd['p']}", f"delete P{rd['p']}")
                rd["alive"] = False
    # heal
    L += ["clear-faults", "now"]
    obs(L, "release")
    check_wait(2 * SEC)
    return Case(L, {"kind": "c03"})


def c03_nontrivial(case, out):
    """a wait-ack was issued while an ACKNACK / DATA / HEARTBEAT fault rule was active or datagrams were held, with at least
    one reliable reader matched and at least one sample written"""
    fault = False
    wrote = False
    for l in case.lines:
        t = l.split()
        if t[0] in ("drop-if", "hold", "drop-next", "dup-next", "reorder-next"):
            fault = True
        if t[0] == "write":
            wrote = True
        if t[0] == "wait-ack" and fault and wrote:
            return True
        if t[0] == "clear-faults":
            fault = False
    return False


def c03_oracle(case, out):
    w = World(case, out)
    viol = []
    if w.broken:
        i, l, o = w.broken
        return [{"what": f"op {i} `{l}` answered {o}", "cause": "panic-or-hang"}]
    wrote = []                       # (op index, "id:value")
    got = {n: set() for n in w.readers}
    faults = 0
    heal_from = None
    for k, st in enumerate(w.steps):
        t, o, i = st["t"], st["o"], st["i"]
        op = t[0]
        if op == "write" and o == "ok":
            wrote.append((i, f"{t[2]}:{t[3]}"))
        elif op in ("drop-if", "hold", "drop-next", "dup-next", "reorder-next"):
            faults += 1
        elif op == "clear-faults":
            faults = 0
            heal_from = i
        elif op == "take" and o.startswith("ok"):
            for s in parse_samples(o) or []:
                if s["data"] in got[t[1]]:
                    viol.append({"what": f"op {i}: reader {t[1]} presents {s['data']} twice", "cause": "duplicate"})
                got[t[1]].add(s["data"])
        elif op == "wait-ack":
            matched = [n for n, r in w.readers.items() if r["created_at"] < i and r.get("deleted_at", 1 << 30) > i]
            rel = [n for n in matched if w.readers[n]["rel"]]
            # readers whose deletion was announced but is still stashed count as matched for the writer: they are in `alive`=False
            tn = None
            for st2 in w.steps[k + 1:k + 3]:
                if st2["t"][0] == "now" and st2["o"].startswith("ok "):
                    tn = int(st2["o"].split()[1]); break
            if o == "ok":
                # soundness: every matched reliable reader holds every relevant sample written before the call;
                # the takes right after the call (no virtual time passes) accumulate into `got`
                after = {}
                for st2 in w.steps[k + 1:]:
                    if st2["t"][0] == "take":
                        after.setdefault(st2["t"][1], set()).update(s["data"] for s in (parse_samples(st2["o"]) or []) if st2["o"].startswith("ok"))
                    elif st2["t"][0] not in ("now", "trace"):
                        break
                for n in rel:
                    r = w.readers[n]
                    if r.get("deleted_at", 1 << 30) < i:
                        continue
                    need = {d for (wi, d) in wrote if wi > r["created_at"]}
                    have = got[n] | after.get(n, set())
                    if not need <= have:
                        viol.append({"what": f"op {i} `wait-ack` answered ok at t={tn} but reliable reader {n} has not received {sorted(need - have)}",
                                     "cause": "acknowledged-before-delivery"})
            else:
                trick = any(l.startswith("reorder-next 1 DATA builtin") for l in case.lines[max(0, i - 12):i])
                if o == "pending" and not rel and int(t[2]) >= 1000 and not trick:
                    viol.append({"what": f"op {i} `{' '.join(t)}` is pending although no reliable reader is matched", "cause": "wait-ack-pending-without-reliable-reader"})
                if o == "pending" and heal_from is not None and faults == 0 and not w.held and int(t[2]) >= SEC:
                    # the writer sent no heartbeat at all during the wait: it considers everything it holds acknowledged
                    idle = not any(kind == "HEARTBEAT" and f.get("w") == WENT for rec in st["handled"] for kind, f in rec["subs"])
                    viol.append({"what": f"op {i} `{' '.join(t)}` is still pending {int(t[2]) // MS} ms after the network healed "
                                         f"(matched reliable readers: {rel}; writer {'idle' if idle else 'heartbeating'})",
                                 "cause": "last-change-removed-unacknowledged" if idle else "wait-ack-never-completes"})
                if o not in ("pending", "ok"):
                    viol.append({"what": f"op {i} `{' '.join(t)}` answered {o}", "cause": "wait-ack-error"})
            # the deletion of the last unacknowledging reader arrives during the wait (reorder trick): prompt answer
            if any(l.startswith("reorder-next 1 DATA builtin") for l in case.lines[max(0, i - 12):i]) and not rel:
                if o != "ok" or (tn is not None and tn - st["t0"] > 250 * MS):
                    viol.append({"what": f"op {i}: the last reliable reader's deletion reached the writer during `wait-ack` but the call "
                                         f"answered {o} after {None if tn is None else (tn - st['t0']) // MS} ms", "cause": "waiters-not-answered-on-reader-removal"})
        if viol:
            break
    return viol


# ---- C04

def gen_c04(r, long=False):
    depth = r.choice(["all", 1, 2, 3])
    wtl = r.chance(3, 4)
    hist = "keep_all" if depth == "all" else f"keep_last:{depth}"
    sibling = r.chance(1, 6)
    nparts = 2 if sibling else r.choice([2, 3])
    L = header(nparts, f"history={hist}" + (" durability=transient_local" if wtl else ""))
    ninst = r.range(1, 3)
    key = 0
    vals = 0
    def write(k=None):
        nonlocal vals
        vals += 1
        obs(L, f"write w {k if k is not None else r.range(1, ninst)} {vals}")
    for _ in range(r.range(0, 6)):
        write()
    # lossy catch-up
    faults = []
    for _ in range(r.range(1, 3) if r.chance(2, 3) else 0):
        faults.append(r.choice([f"drop-next {r.range(1, 3)} DATA user", f"drop-if DATA user sn={r.range(1, 4)} times={r.range(1, 3)}",
                                f"drop-if DATA user times={r.range(2, 6)}", f"drop-if ACKNACK user times={r.range(2, 5)}",
                                "hold DATA user", f"drop-next {r.range(1, 2)} GAP user", f"drop-if HEARTBEAT user times={r.range(1, 3)}",
                                f"drop-if ACKNACK user times={r.range(1, 3)}", "dup-next 1 DATA user"]))
    L += faults
    readers = []
    def make(name, part, rel, tl):
        q = f"reliability={'reliable' if rel else 'best_effort'} history=keep_all" + (" durability=transient_local" if tl else "")
        obs(L, f"reader {name} sub{part} t{part} {q}")
        readers.append({"n": name, "p": part, "rel": rel, "tl": tl})
    tl1 = wtl and r.chance(4, 5)
    make("r2", 2, r.chance(4, 5), tl1)
    if sibling:
        make("v2", 2, True, not tl1 and wtl)
    elif nparts == 3 and r.chance(2, 3):
        make("r3", 3, r.chance(3, 4), wtl and r.chance(1, 2))
    tls = [rd for rd in readers if rd["tl"]]
    if tls and faults and r.chance(2, 3):
        rd = r.choice(tls)                  # right after a lossy catch-up: answered when the heartbeat timer has repaired it
        L.append("now"); obs(L, f"wait-hist {rd['n']} {r.choice([150 * MS, 450 * MS, 650 * MS])}"); L.append("now")
        L.append(f"take {rd['n']}")
    for _ in range(r.range(0, 4)):
        c = r.below(10)
        if c < 4:
            key += 1
            write(10 + key)                 # new instances only: no KEEP_LAST replacement of unacknowledged samples
        elif c < 6:
            obs(L, f"advance {r.choice([50 * MS, 250 * MS, 450 * MS])}")
        elif c < 8:
            L.append("now"); obs(L, "release")
        else:
            rd = r.choice(tls) if tls and r.chance(3, 4) else r.choice(readers)
            L.append("now"); obs(L, f"wait-hist {rd['n']} {r.choice([1000, 250 * MS, 450 * MS])}"); L.append("now")
            L.append(f"take {rd['n']}")
    L += ["clear-faults", "now"]
    obs(L, "release")
    obs(L, f"advance {SEC}")
    for rd in readers:
        L.append("now"); obs(L, f"wait-hist {rd['n']} {SEC + 50 * MS}"); L.append("now")
        L.append(f"take {rd['n']}")
    return Case(L, {"kind": "c04", "nomodel": False})


def retained(writes_before, depth):
    """writer history at match time: KEEP_ALL everything, KEEP_LAST(d) the last d per instance"""
    if depth is None:
        return list(writes_before)
    out = []
    per = {}
    for d in reversed(writes_before):
        k = d.split(":")[0]
        if per.get(k, 0) < depth:
            per[k] = per.get(k, 0) + 1
            out.append(d)
    return list(reversed(out))


def c04_nontrivial(case, out):
    """samples were written before a reader was created, and the catch-up was lossy or the reader is VOLATILE"""
    seen_write = False
    late = False
    fault = any(l.split()[0] in ("drop-if", "hold", "drop-next", "dup-next") for l in case.lines)
    vol = False
    for l in case.lines:
        t = l.split()
        if t[0] == "write":
            seen_write = True
        if t[0] == "reader" and seen_write:
            late = True
            if "durability=transient_local" not in l:
                vol = True
    return late and (fault or vol)


def _depth(q):
    h = q.get("history", "keep_last:1")
    return None if h == "keep_all" else int(h.split(":")[1])


def c04_oracle(case, out):
    """any number of writers (each TRANSIENT_LOCAL or VOLATILE) and readers; per (writer, reader) pair the match instant is the
    creation of the later of the two; `before` = that writer's accepted writes before the match"""
    w = World(case, out)
    if w.broken:
        i, l, o = w.broken
        return [{"what": f"op {i} `{l}` answered {o}", "cause": "panic-or-hang"}]
    viol = []
    sibl = w.siblings()
    got = {n: [] for n in w.readers}
    healed = False
    pending_hist = []

    def pairs(r, upto=None):
        """[(writer name, tl pair?, before, after)] of the writers matched with reader r (created before op `upto`)"""
        res = []
        for wn, wr in w.writers.items():
            if upto is not None and wr["created_at"] > upto:
                continue
            wtl = wr["q"].get("durability") == "transient_local"
            if r["tl"] and not wtl:
                continue                                    # incompatible: never matched
            m = max(wr["created_at"], r["created_at"])
            mine = [(wi, f"{k}:{v}") for (wi, k, v, ok, n2) in w.writes if ok and n2 == wn]
            res.append((wn, r["tl"] and wtl, [d for (wi, d) in mine if wi < m], [d for (wi, d) in mine if wi > m], _depth(wr["q"])))
        return res

    for k, st in enumerate(w.steps):
        t, o, i = st["t"], st["o"], st["i"]
        if t[0] == "clear-faults":
            healed = True
        elif t[0] == "take" and o.startswith("ok"):
            got[t[1]] += [s["data"] for s in parse_samples(o) or []]
        elif t[0] == "wait-hist":
            r = w.readers.get(t[1])
            if r is None:
                continue
            ps = pairs(r, upto=i)
            if not r["tl"]:
                if o != "err:IllegalOperation":
                    viol.append({"what": f"op {i}: wait_for_historical_data on a VOLATILE reader answered {o}", "cause": "wait-hist-on-volatile"})
                continue
            if not ps:
                if o != "ok":
                    viol.append({"what": f"op {i} `{' '.join(t)}`: reader {t[1]} has no matched writer but the call answered {o} "
                                         f"(nothing can ever arrive: it must complete at once)", "cause": "wait-hist-blocks-without-writer"})
                continue
            if r["rel"] and o == "ok":
                # soundness: the reader presents the retained history of EVERY matched TRANSIENT_LOCAL writer at that instant
                have = set(got[t[1]])
                judged = False            # only when the reader is taken at the same instant (no op in between lets time pass)
                for st2 in w.steps[k + 1:]:
                    if st2["t"][0] == "take" and st2["t"][1] == t[1]:
                        judged = True
                        if st2["o"].startswith("ok"):
                            have |= {x["data"] for x in parse_samples(st2["o"]) or []}
                    elif st2["t"][0] not in ("now", "trace", "take"):
                        break
                if judged and r["part"] not in sibl:
                    for (wn, tlp, before, after, depth) in ps:
                        keep0 = set(retained(before, depth)) if tlp else set()
                        if not keep0 <= have:
                            viol.append({"what": f"op {i} `{' '.join(t)}` answered ok but reader {t[1]} does not present {sorted(keep0 - have)} of "
                                                 f"the history writer {wn} retained at the match ({len(ps)} matched writer(s))",
                                         "cause": "historical-data-announced-too-early"})
                            break
            elif r["rel"] and healed and not w.held and int(t[2]) >= SEC and o != "ok":
                pending_hist.append((i, t, o, r))
    # a wait that is still pending after healing: has the reader everything the writers can still give it?
    for (i, t, o, r) in pending_hist:
        n = t[1]
        need = set()
        for (wn, tlp, before, after, depth) in pairs(r, upto=i):
            need |= set(after) | (set(retained(before, depth)) if tlp else set())
        complete = need <= set(got[n])
        viol.append({"what": f"op {i} `{' '.join(t)}`: answered {o} {int(t[2]) // MS} ms after the network healed"
                             + (" although the reader presents everything the writers hold: a writer is idle and never confirmed its history"
                                if complete else ""),
                     "cause": "sibling-reader-applies-foreign-submessage" if r["part"] in sibl else
                              ("writer-idle-history-not-confirmed" if complete else "wait-hist-never-completes")})
    # final contents
    for n, r in w.readers.items():
        ps = pairs(r)
        have = got[n]
        sib = r["part"] in sibl
        if len(set(have)) != len(have):
            viol.append({"what": f"reader {n} presents a sample twice: {have}", "cause": "duplicate"})
        allowed, need, olds, keeps = set(), set(), set(), []
        for (wn, tlp, before, after, depth) in ps:
            keep = retained(before, depth)
            keeps += keep
            allowed |= set(after) | (set(keep) if tlp else set())
            olds |= set(before) if not tlp else set()
        need = set(allowed)
        extra = [d for d in have if d not in allowed]
        if extra:
            old = [d for d in extra if d in olds]
            if old:
                viol.append({"what": f"VOLATILE reader {n} (created at op {r['created_at']}) presents {old}, written before it was matched",
                             "cause": "sibling-reader-applies-foreign-submessage" if sib else "old-sample-to-volatile"})
            else:
                viol.append({"what": f"reader {n} presents {extra}: not in the retained history {keeps} of its writers nor written after the match",
                             "cause": "sibling-reader-applies-foreign-submessage" if sib else "not-retained-sample-delivered"})
        if r["rel"] and healed and not w.held:
            miss = sorted(need - set(have))
            took = any(st["t"][0] == "take" and st["t"][1] == n for st in w.steps)
            if miss and took:
                viol.append({"what": f"reliable {'TRANSIENT_LOCAL' if r['tl'] else 'VOLATILE'} reader {n} never presents {miss} "
                                     f"(retained history at match: {keeps}) although the network healed",
                             "cause": "sibling-reader-applies-foreign-submessage" if sib else "history-not-delivered"})
    return viol


def gen_c04_two_writers(r, long=False):
    """ONE reliable TRANSIENT_LOCAL reader, TWO TRANSIENT_LOCAL writers in their own participants (sometimes the reader exists
    first and has no matched writer at all); the catch-up from one writer is lost / held while the other one completes;
    `wait-hist` with a bound and a `take` at the same instant; heal; final `wait-hist` + `take`."""
    L = ["participant P1", "participant P2", "participant P3", "topic t1 P1 T ki", "topic t2 P2 T ki", "topic t3 P3 T ki",
         "publisher pub P1", "subscriber sub2 P2", "publisher pub3 P3", "trace on"]
    rq = "reliability=reliable history=keep_all durability=transient_local"
    def wq():
        d = r.choice(["keep_all", "keep_last:1", "keep_last:2"])
        return f"reliability=reliable history={d} durability=transient_local"
    vals = 0
    def writes(wn, base, n):
        nonlocal vals
        for _ in range(n):
            vals += 1
            obs(L, f"write {wn} {base + r.range(1, 2)} {vals}")
    reader_first = r.chance(1, 4)
    if reader_first:
        obs(L, f"reader r2 sub2 t2 {rq}")
        L.append("now"); obs(L, f"wait-hist r2 {r.choice([1000, 250 * MS])}"); L.append("now"); L.append("take r2")
    obs(L, f"writer w pub t1 {wq()}")
    writes("w", 0, r.range(1, 4))
    second_late = r.chance(1, 3)             # the second writer appears after the reader
    if not second_late:
        obs(L, f"writer w2 pub3 t3 {wq()}")
        writes("w2", 20, r.range(1, 4))
    victim = r.choice(["P1", "P3"])
    fault = r.choice([f"drop-if DATA user from={victim} times={r.range(2, 6)}", f"hold DATA user from={victim}",
                      f"drop-if HEARTBEAT user from={victim} times={r.range(1, 3)}", f"drop-next {r.range(1, 3)} DATA user from={victim}",
                      f"hold user from={victim}"])
    L.append(fault)
    if not reader_first:
        obs(L, f"reader r2 sub2 t2 {rq}")
    if second_late:
        obs(L, f"writer w2 pub3 t3 {wq()}")
        writes("w2", 20, r.range(1, 3))
    if reader_first:
        writes("w", 10, r.range(0, 1))
    for _ in range(r.range(1, 3)):
        L.append("now"); obs(L, f"wait-hist r2 {r.choice([1000, 150 * MS, 450 * MS, 650 * MS])}"); L.append("now")
        L.append("take r2")
        if r.chance(1, 2):
            obs(L, f"advance {r.choice([50 * MS, 250 * MS])}")
        if r.chance(1, 3):
            L.append("now"); obs(L, "release")
    L += ["clear-faults", "now"]
    obs(L, "release")
    obs(L, f"advance {SEC}")
    L.append("now"); obs(L, f"wait-hist r2 {SEC + 50 * MS}"); L.append("now")
    L.append("take r2")
    return Case(L, {"kind": "c04-two-writers"})


# ----------------------------------------------------------------------------- part 1: protocol level, engine `rtps`

from vlib import rtps_common as RC


def with_probes(case, r, every=True):
    """insert `acked <last sn>` and `histrecv` probes after the steps of an rtps-engine case"""
    lines, nw = [], 0
    for l in case.lines:
        lines.append(l)
        t = l.split()
        if t[0] == "write":
            nw += 1
        if t[0] in ("write", "deliver", "flush", "tick", "remove", "match") and nw > 0 and (every or r.chance(1, 2)):
            k = nw if r.chance(3, 4) else r.range(1, nw)
            lines.append(f"acked {k}")
            lines.append("histrecv")
    if nw > 0:
        lines += [f"acked {nw}", "histrecv"]
    return Case(lines, dict(case.meta))


class NetTrack:
    """the in-flight list of the rtps engine, replayed from the op lines and the emitted datagrams of the implementation"""
    def __init__(self):
        self.net = []
        self.hbs = []            # (count, last) of every heartbeat that reached the reader

    def _deliver(self, d):
        who, subs = RC.subs_of(d)
        if who == "W":
            for x in subs:
                a = x.split(":")
                if a[0] == "hb":
                    self.hbs.append((int(a[3]), int(a[2])))

    def op(self, t, st):
        if st["kind"] != "step":
            return
        if t[0] in ("deliver", "drop", "dup") and not st.get("empty") and self.net:
            i = int(t[1]) % len(self.net)
            if t[0] == "deliver":
                self._deliver(self.net.pop(i))
            elif t[0] == "drop":
                self.net.pop(i)
            else:
                self.net.append(self.net[i])
        if t[0] == "flush":
            for d in self.net + st["emitted"]:
                self._deliver(d)
            self.net = []
            return
        self.net += st["emitted"]

    def newest_last(self):
        """`last` of the newest heartbeat the reader processed (counts only grow: the first one with the highest count)"""
        best = None
        for c, l in self.hbs:
            if best is None or c > best[0]:
                best = (c, l)
        return None if best is None else best[1]


def protocol_oracle(case, out, want):
    """want = 'ack' (C03) or 'hist' (C04). On the implementation's output alone."""
    tr = RC.Track()
    nt = NetTrack()
    viol = []
    cache = []
    last_i = len(case.lines) - 1
    for i, (l, o) in enumerate(zip(case.lines, out)):
        t = l.split()
        st = RC.parse_step(o)
        if st["kind"] == "panic":
            viol.append({"what": f"op {i} `{l}` panicked", "cause": "panic"}); break
        if st["kind"] == "poisoned":
            break
        tr.op(t)
        if st["kind"] == "step":
            nt.op(t, st)
            cache = st["cache"]
            continue
        if want == "hist" and t[0] == "histrecv" and not tr.matched and tr.rel is not None and o == "false":
            viol.append({"what": f"op {i}: is_historical_data_received is false on a reader without any matched writer", "at": i,
                         "cause": "wait-hist-blocks-without-writer"})
            break
        if not (tr.rel and tr.matched) or tr.rematch:
            continue
        have = {sn for sn, _ in cache}
        rel_held = {sn for sn in tr.held if sn > (tr.first_relevant or 0)}
        if want == "ack" and t[0] == "acked":
            n = int(t[1])
            if o == "true":
                miss = sorted(sn for sn in rel_held if sn <= n and sn not in have)
                if miss:
                    viol.append({"what": f"op {i}: is_change_acknowledged({n}) is true but the reader has not received {miss}, which the writer "
                                         f"still holds", "at": i, "cause": "acknowledged-before-delivery"})
            elif case.meta.get("heal") and i >= last_i - 1 and n == tr.last_sn:
                trailing = (max(tr.held) if tr.held else 0) < tr.last_sn
                viol.append({"what": f"after the healing suffix is_change_acknowledged({n}) is still false (highest number still held: "
                                     f"{max(tr.held) if tr.held else None})", "at": i,
                             "cause": "last-change-removed-unacknowledged" if trailing else "not-acknowledged-after-healing"})
        if want == "hist" and t[0] == "histrecv":
            if o == "true":
                L = nt.newest_last()
                if L is None:
                    viol.append({"what": f"op {i}: is_historical_data_received is true although no heartbeat reached the reader", "at": i,
                                 "cause": "historical-data-received-too-early"})
                else:
                    miss = sorted(sn for sn in rel_held if sn <= L and sn not in have)
                    if miss:
                        viol.append({"what": f"op {i}: is_historical_data_received is true but {miss} (announced by the newest heartbeat, "
                                             f"last={L}, still held) were not delivered", "at": i, "cause": "historical-data-received-too-early"})
            elif case.meta.get("heal") and i >= last_i:
                viol.append({"what": f"after the healing suffix is_historical_data_received is still false (relevant changes still held: "
                                     f"{sorted(rel_held)}, heartbeats that reached the reader: {len(nt.hbs)})", "at": i,
                             "cause": "writer-idle-history-not-confirmed" if not (rel_held - have) else "history-not-received-after-healing"})
        if viol:
            break
    return viol


def protocol_cases(r, cfg, n, corpus):
    cases = []
    for ops in corpus:
        nw = sum(1 for o in ops if o.startswith("write"))
        cases.append(with_probes(Case([RC.cfg_line(cfg)] + ops + RC.heal_suffix(nw + 5), {"rel": True, "heal": True}), r))
    for k in range(n):
        c = RC.gen_system_case(r, cfg, rel=(k % 5 != 0), heal=True, removals=(k % 3 != 0))
        cases.append(with_probes(c, r, every=(k % 2 == 0)))
    return cases
