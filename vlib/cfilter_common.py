"""Generator, scenario parser and specification of the `cfilter` engine (C26, content-filtered readers).

Scenario skeleton (the sub-language the Lean driver Driver/CFilter.lean accepts; anything else is `bad-op` there):

    participant P1 / P2 / P3
    topic t1 P1 T <ki|kb>  (three times: t1 P1, t2 P2, t3 P3)      or   x-w2d s-topic t1 P1 T   (string type `ks`)
    cft f P2 t2 F <p1,p2|-> <expression …>
    publisher pub P1 / subscriber sub2 P2 / subscriber sub3 P3
    writer w pub t1 reliability=reliable history=keep_all            (x-w2d s-writer … for `ks`)
    reader rf sub2 f  reliability=reliable history=keep_all          reader on the content-filtered topic (P2)
    reader rc sub3 t3 reliability=reliable history=keep_all          control reader on the plain topic (P3)
  then any of
    hold DATA user to=P2                     every DATA datagram for P2 is kept back …
    x-w2d merge-held k1 k2 …                 … and re-sent as datagrams carrying k1, k2, … DATA submessages each
    coalesce-next n DATA user to=P2          the next 2n DATA datagrams for P2 are merged pair-wise
    write w <id> <value> | dispose w <id>    (x-w2d s-write / s-dispose for `ks`)
    take rf | take rc                        (x-w2d s-take for `ks`)
    probe P1|P2|P3
"""
import re
from vlib.core import Case

ENGINE = "cfilter"
I32_MIN, I32_MAX = -2**31, 2**31 - 1
BAD = ("PANIC", "HANG", "CRASH", "POISONED")
QOS = "reliability=reliable history=keep_all"
MEMBERS = {"ki": {"id": "int", "value": "int"}, "kb": {"id": "int", "value": "other"}, "ks": {"id": "int", "name": "str"}}


def esc(x):
    """`\\s` stands for a blank inside string values, filter parameters and expressions of the `ks` scenarios (op lines are
    blank-separated); decoded by the dsim extension (x-w2d s-cft / s-write), by Driver/CFilter.lean and by `unesc` here"""
    return x.replace(" ", "\\s")


def unesc(x):
    return x.replace("\\s", " ")


def skeleton(ty, params, expr):
    if ty == "ks":
        topics = [f"x-w2d s-topic t{i} P{i} T" for i in (1, 2, 3)]
        w, rf, rc = f"x-w2d s-writer w pub t1 {QOS}", f"x-w2d s-reader rf sub2 f {QOS}", f"x-w2d s-reader rc sub3 t3 {QOS}"
    else:
        topics = [f"topic t{i} P{i} T {ty}" for i in (1, 2, 3)]
        w, rf, rc = f"writer w pub t1 {QOS}", f"reader rf sub2 f {QOS}", f"reader rc sub3 t3 {QOS}"
    cft = "x-w2d s-cft" if ty == "ks" else "cft"
    return (["participant P1", "participant P2", "participant P3"] + topics + [f"{cft} f P2 t2 F {params} {expr}",
            "publisher pub P1", "subscriber sub2 P2", "subscriber sub3 P3", w, rf, rc])


def op_write(ty, i, v):
    return f"x-w2d s-write w {i} {v}" if ty == "ks" else f"write w {i} {v}"


def op_dispose(ty, i):
    return f"x-w2d s-dispose w {i}" if ty == "ks" else f"dispose w {i}"


def op_take(ty, r):
    return f"x-w2d s-take {r}" if ty == "ks" else f"take {r}"


# ----------------------------------------------------------------------------- scenario parser

class Scenario:
    """what a case says, recovered from its op lines only"""
    def __init__(self, lines):
        self.ty, self.params, self.expr = None, None, None
        self.events = []       # ("w", id, value) | ("d", id) in publication order, with the index of the op line
        self.groups = []       # batches as delivered to P2: lists of event indices
        self.takes = {"rf": [], "rc": []}   # indices of take lines
        held, stash, hold, coalesce = [], None, False, 0
        for k, l in enumerate(lines):
            t = l.split()
            if not t:
                continue
            if t[0] == "topic" and len(t) == 5:
                self.ty = t[4]
            elif t[:2] == ["x-w2d", "s-topic"]:
                self.ty = "ks"
            elif t[0] == "cft" and len(t) >= 7:
                self.params = [] if t[5] == "-" else t[5].split(",")
                self.expr = " ".join(t[6:])
            elif t[:2] == ["x-w2d", "s-cft"] and len(t) >= 8:
                self.params = [] if t[6] == "-" else [unesc(x) for x in t[6].split(",")]
                self.expr = unesc(" ".join(t[7:]))
            elif t[0] == "hold":
                hold = True
            elif t[0] == "coalesce-next":
                coalesce = 2 * int(t[1])
            elif t[0] in ("write", "dispose") or t[:2] in (["x-w2d", "s-write"], ["x-w2d", "s-dispose"]):
                a = t[1:] if t[0] != "x-w2d" else t[2:]
                ev = ("w", int(a[1]), a[2], k) if len(a) == 3 else ("d", int(a[1]), None, k)
                self.events.append(ev)
                e = len(self.events) - 1
                if hold:
                    held.append(e)
                elif coalesce > 0:
                    coalesce -= 1
                    if stash is None:
                        stash = e
                    else:
                        self.groups.append([stash, e]); stash = None
                else:
                    self.groups.append([e])
            elif t[:2] == ["x-w2d", "merge-held"]:
                sizes = [int(x) for x in t[2:]]
                while held:
                    n = sizes.pop(0) if sizes else 1
                    self.groups.append(held[:n]); held = held[n:]
            elif t[0] == "take" or t[:2] == ["x-w2d", "s-take"]:
                self.takes.setdefault(t[-1], []).append(k)
        self.undelivered = held + ([stash] if stash is not None else [])


# ----------------------------------------------------------------------------- specification (DDS SQL subset)

def parse_i32(s):
    if not re.fullmatch(r"[+-]?[0-9]+", s):
        return None
    v = int(s)
    return v if I32_MIN <= v <= I32_MAX else None


class FilterSpec:
    """`<member> <op> <rhs>` with op in {=, <=}; rhs = %n (parameter n, must exist), an integer literal or a 'quoted' string.
    status: 'ok' | 'invalid' (unknown member, no/unsupported operator, missing or ill-typed operand, unsupported member type)"""
    def __init__(self, ty, expr, params):
        self.status, self.why = "invalid", ""
        m = re.fullmatch(r"\s*([A-Za-z_][A-Za-z0-9_]*)\s*(<=|=)(.*)", expr)
        if not m or not m.group(3).strip():
            self.why = "expression outside `<member> (=|<=) <operand>`"
            return
        self.member, self.op, rhs = m.group(1), m.group(2), m.group(3).strip()   # blanks AROUND the operand token do not count
        kind = MEMBERS[ty].get(self.member)
        if kind is None:
            self.why = "unknown member"
            return
        self.kind = kind
        self.rhs_index = None
        pm = re.fullmatch(r"%([0-9]+)", rhs)
        if pm:
            self.rhs_index = int(pm.group(1))
            if self.rhs_index >= len(params):
                self.why = "parameter index out of range"
                return
            operand = params[self.rhs_index]
        elif re.fullmatch(r"'[^']*'", rhs):
            operand = rhs[1:-1]          # quoted literal (for an INT32 member its content must be an integer: `'5'` is tolerated)
        elif parse_i32(rhs) is not None:
            operand = rhs                # integer literal (compared as text with a string member: tolerated)
        else:
            self.why = "operand is neither %n, a quoted string nor an integer literal"
            return
        if kind == "int":
            self.value = parse_i32(operand)
            if self.value is None:
                self.why = "operand is not an INT32"
                return
        elif kind == "str":
            self.value = operand
        else:
            self.why = "member type not supported by the filter"
            return
        self.status = "ok"

    def sat(self, ty, i, v):
        # strings are compared exactly as given (blanks included): `v` is the value token of the op line
        x = i if self.member == "id" else (int(v) if self.kind == "int" else ("" if v == "%e" else unesc(v)))
        return x == self.value if self.op == "=" else x <= self.value


def code_view(ty, expr, params):
    """what the implementation is KNOWN to do differently (used only to attribute a violation to a known finding):
    the operand text is ignored and parameter 0 is used. Returns a predicate or None."""
    f = FilterSpec(ty, re.sub(r"(<=|=)\s*\S+\s*$", r"\1 %0", expr), params)
    return f if f.status == "ok" else None


def show(ty, i, v):
    return f"{i}:{v}"


def taken_data(out_line):
    """valid-data samples of a take answer, as `id:value` strings; None when the line is not a take answer"""
    if out_line == "err:NoData":
        return []
    if not out_line.startswith("ok "):
        return None
    res = []
    for tok in out_line.split()[2:]:
        a = tok.split("/")
        if len(a) == 13 and a[12] == "1":
            res.append(a[0])
    return res


def asis_d32(sc, spec):
    """delivery of the loop as found (a failing sample discards the rest of its batch); attribution only"""
    res = []
    for g in sc.groups:
        for e in g:
            ev = sc.events[e]
            if ev[0] == "d":
                continue
            if spec.sat(sc.ty, ev[1], ev[2]):
                res.append(show(sc.ty, ev[1], ev[2]))
            else:
                break
    return res


# ----------------------------------------------------------------------------- generator

INT_EDGE = [0, 1, -1, 2, 5, 10, 100, I32_MAX, I32_MIN, I32_MAX - 1, I32_MIN + 1]
STR_POOL = ["a", "b", "ab", "abc", "abd", "m", "ma", "z", "zz", "A", "Z", "0", "9", "a_b", "%e", "aa", "aaa", "B1"]


def gen_expr(r, ty, member, op, rhs):
    sp = r.choice(["", " "])
    sp2 = r.choice(["", " "])
    return f"{member}{sp}{op}{sp2}{rhs}"


def gen_case(r, ctx=None, force=None):
    """one scenario; `force` in (None, 'invalid', 'rhs'): 'invalid' biases towards filters that must be rejected, 'rhs' towards the
    operand forms other than %0 (%1, %2, out-of-range %n, literals, garbage)"""
    c = r.below(100)
    ty = "ki" if c < 60 else ("ks" if c < 92 else "kb")
    if force == "invalid" and r.chance(1, 3):
        ty = "kb"
    members = list(MEMBERS[ty])
    member = r.choice(members)
    if ty == "kb" and force != "invalid":
        member = "id"
    op = r.choice(["=", "<="])
    kind = MEMBERS[ty][member]
    # parameter values
    if kind == "int":
        pivot = r.choice(INT_EDGE) if r.chance(1, 2) else r.range(-20, 20)
        p0 = str(pivot)
        if r.chance(1, 12):
            p0 = r.choice(["+", ""]) + str(abs(pivot)) if pivot >= 0 else p0
        if r.chance(1, 15):
            p0 = "00" + str(abs(pivot)) if pivot >= 0 else "-00" + str(abs(pivot))
    elif kind == "str":
        pivot = r.choice(STR_POOL)
        p0 = "" if pivot == "%e" else pivot
        if r.chance(1, 3):
            # leading / trailing blanks in the parameter: they are part of the value
            core = p0 or "x"
            p0 = r.choice([" " + core, core + " ", " " + core + " ", "  " + core, core + "  ", " "])
            pivot = p0
    else:
        pivot, p0 = 0, "05"
    # the operand: where the value the samples are built around (p0's text) is written
    def decoy():
        if kind == "int":
            return str(max(I32_MIN, min(I32_MAX, pivot + r.choice([-1000, -7, 7, 1000]))))
        return r.choice([x for x in STR_POOL[:10] if x != pivot and x != "%e"])
    form = r.below(11) if force == "rhs" else (r.below(4) if r.chance(2, 3) else r.below(8))
    if kind == "other" or force == "invalid":
        form = 0
    params, rhs = [p0], "%0"
    if form < 4:
        if r.chance(1, 4):
            params.append(decoy())
    elif form in (4, 5):
        params, rhs = [decoy(), p0], "%1"
    elif form == 6:
        params, rhs = [decoy(), decoy(), p0], "%2"
    elif form == 7:
        params = [decoy()] if r.chance(1, 2) else []
        rhs = p0 if kind == "int" else f"'{esc(p0)}'"
    elif form == 8:
        rhs = "%" + str(len(params) + r.range(0, 5))                       # beyond the list: rejected
    elif form == 9:
        rhs = f"'{p0}'" if kind == "int" else r.choice(["5", "-3", "10"])   # tolerated cross forms
        params = [decoy()]
    else:
        rhs = r.choice(["%x", "%", "abc", "'abc", "5x", "%-1", "%1.0", "%0x"])   # no operand at all: rejected
    if force == "invalid":
        k = r.below(5)
        if kind == "other":
            pass
        elif k == 0:
            params = []
        elif k == 1 and kind == "int":
            params[0] = r.choice(["abc", "5x", "0x10", "2147483648", "-2147483649", "1e3", "+", "--1", "1.0"])
        elif k == 2:
            member = r.choice(["valu", "Value", "idd", "x"])
        elif k == 3:
            rhs = "%7"
        else:
            params = []
    ptxt = "-" if not params else ",".join(esc(x) for x in params)
    if params == [""]:
        ptxt = ","          # `,` = two empty parameters (the only way to write an empty parameter 0)
    expr = gen_expr(r, ty, member, op, rhs)
    lines = skeleton(ty, ptxt, expr)
    # samples around the pivot
    n = r.range(1, 9)
    ids = [r.choice([1, 2, 3, 7, -1, I32_MAX, I32_MIN]) for _ in range(3)]
    evs = []
    live = set()
    for _ in range(n):
        if live and r.chance(1, 9):
            i = r.choice(sorted(live)); live.discard(i)
            evs.append(("d", i, None))
            continue
        i = r.choice(ids)
        if member == "id" and kind == "int" and r.chance(1, 2):
            i = max(I32_MIN, min(I32_MAX, pivot + r.range(-1, 1)))
        if ty == "ki":
            v = r.choice([pivot - 1, pivot, pivot + 1, r.range(-30, 30), r.choice(INT_EDGE)]) if isinstance(pivot, int) else 0
            v = max(I32_MIN, min(I32_MAX, v))
        elif ty == "ks":
            v = r.choice(STR_POOL + ([pivot, pivot + "a", pivot[:-1] or "%e"] if isinstance(pivot, str) and pivot != "%e" else []))
            if isinstance(pivot, str) and pivot != pivot.strip():
                core = pivot.strip() or "x"
                v = r.choice([pivot, pivot, core, " " + core, core + " ", " " + core + " ", v])
            v = "%e" if v == "" else esc(v)
        else:
            v = r.choice(["05", "00ff", "0102030405"])
        live.add(i)
        evs.append(("w", i, v))
    mode = r.below(10)
    body = []
    def emit(ev):
        body.append(op_write(ty, ev[1], ev[2]) if ev[0] == "w" else op_dispose(ty, ev[1]))
    if mode < 6:
        # hold + arbitrary regrouping (possibly in two rounds with a take in between)
        body.append("hold DATA user to=P2")
        rounds = 2 if (len(evs) >= 4 and r.chance(1, 3)) else 1
        cut = r.range(1, len(evs) - 1) if rounds == 2 else len(evs)
        for part in ([evs[:cut], evs[cut:]] if rounds == 2 else [evs]):
            for ev in part:
                emit(ev)
            left, sizes = len(part), []
            shape = r.below(4)
            while left > 0:
                k = left if shape == 0 else (1 if shape == 1 else r.range(1, min(left, 4)))
                sizes.append(k); left -= k
            if r.chance(1, 6) and sizes and sizes[-1] == 1:
                sizes.pop()     # trailing singles may be left to the op
            body.append("x-w2d merge-held " + " ".join(str(k) for k in sizes) if sizes else "x-w2d merge-held")
            if rounds == 2:
                body.append(op_take(ty, "rf"))
    elif mode < 8:
        pairs = len(evs) // 2
        if pairs:
            body.append(f"coalesce-next {pairs} DATA user to=P2")
        for ev in evs:
            emit(ev)
    else:
        for ev in evs:
            emit(ev)
            if r.chance(1, 4):
                body.append(op_take(ty, "rf"))
    body += [op_take(ty, "rf"), op_take(ty, "rc"), "probe P2", "probe P1"]
    return Case(lines + [b.rstrip() for b in body], {"ty": ty})
