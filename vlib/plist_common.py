"""Shared generator / reference codec / oracles of the engine `plist`
(C13 discovery-data round trip; parameter-list part of C07 "decoders are total").

Records are dicts  field name -> canonical value string  (the strings of the line protocol, see
harness/src/bin/plist.rs).  The reference encoder/decoder below is written from the RTPS 2.4 PL_CDR rules
(9.4.2.11, 9.6.2.2, table 9.13/9.14) and is used (a) as an oracle on the bytes the implementation emits,
(b) to build valid parameter lists that the C07 generator mutates.  It does not imitate error paths.

For the integrator of vlib/props/C07.py:
    from vlib.plist_common import c07_cases, c07_oracle, C07_ENGINE
    cases = c07_cases(ctx.rng, ctx.tier)            # list of Case (op lines for the engine `plist`)
    ctx.differential(C07_ENGINE, cases, nontrivial=c07_nontrivial, oracle=c07_oracle, shrink=False)
  causes emitted (known_findings.json, property C07): `zero-length-string-length-minus-one` (D11),
  `with-capacity-from-wire-length` (D13).  Cases carry a trailing `fix=` token for the model only (11 = D11,
  13 = D13, p1 = D-plist-1); use `set_fix_token(cases, probe_fixes())` to make it describe the tree under test
  (default: all repairs).
"""
import struct
from vlib.core import Case, run_lines, harness_bin

ENGINE = "plist"
C07_ENGINE = ENGINE
ALLOC_LIMIT = 1 << 28
INF = "2147483647:4294967295"

# ------------------------------------------------------------------------------------------ schema tables
# codec = list of member kinds; style 'x' (xtypes XCDR1 struct) or 'p' (plain CDR)
CODECS = {
    "key": ["arr16"], "name": ["str"], "octets": ["octets"], "int": ["i32"], "durk": ["i32", "u32"],
    "enum": ["i32"], "pres": ["i32", "bool", "bool"], "kinddur": ["i32", "i32", "u32"], "strs": ["strs"],
    "hist": ["i32", "i32"], "lim": ["i32", "i32", "i32"], "u16s": ["u16s"],
    "tce": ["i16", "bool", "bool", "bool", "bool", "bool"],
    "p_i32": ["i32"], "p_u32": ["u32"], "p_str": ["str"], "p_arr2": ["arr2"], "p_bool": ["bool"],
    "p_loc": ["i32", "u32", "arr16"], "p_dur": ["i32", "u32"], "p_eid": ["arr3", "u8"], "ti": [],
}
ENUM_RANGE = {"dur": [0, 1, 2, 3], "own": [0, 1], "dord": [0, 1]}

# name, pid, shape, default, codec, emit ('always' | 'omit' | 'some' | 'each' | 'derived')
def _f(name, pid, shape, dflt, codec, emit="omit"):
    return {"name": name, "pid": pid, "shape": shape, "dflt": dflt, "codec": codec, "emit": emit}

K0 = "00" * 16
HEAD = [
    _f("key", 0x5a, "hex16", K0, "key", "always"), _f("pkey", 0x50, "hex16", K0, "key", "always"),
    _f("tn", 0x05, "hex", "-", "name", "always"), _f("ty", 0x07, "hex", "-", "name", "always"),
    _f("ti", 0x75, "ti", "-", "ti", "some"), _f("dur", 0x1d, "int", "0", "enum"), _f("dl", 0x23, "dur", INF, "durk"),
    _f("lb", 0x27, "dur", "0:0", "durk"), _f("liv", 0x1b, "kinddur", "0," + INF, "kinddur"),
]
FIELDS = {
    "participant": [
        _f("key", 0x50, "hex16", K0, "key", "always"), _f("ud", 0x2c, "hex", "-", "octets"),
        _f("did", 0x0f, "optint", "-", "p_i32", "some"), _f("tag", 0x4014, "hex", "-", "p_str"),
        _f("pv", 0x15, "hex2", "0204", "p_arr2", "always"), _f("gp", 0, "hex12", None, None, "derived"),
        _f("vid", 0x16, "hex2", "0000", "p_arr2", "always"), _f("eiq", 0x43, "bool", "0", "p_bool"),
        _f("mul", 0x32, "locs", "-", "p_loc", "each"), _f("mml", 0x33, "locs", "-", "p_loc", "each"),
        _f("dul", 0x31, "locs", "-", "p_loc", "each"), _f("dml", 0x48, "locs", "-", "p_loc", "each"),
        _f("bes", 0x58, "nat", "0", "p_u32", "always"), _f("mlc", 0x34, "int", "0", "p_i32"),
        _f("beq", 0x77, "nat", "0", "p_u32"), _f("lease", 0x02, "dur", "100:0", "p_dur", "always"),
    ],
    "publication": HEAD + [
        _f("rel", 0x1a, "kinddur", "2,0:100000000", "kinddur"), _f("ls", 0x2b, "dur", INF, "durk"),
        _f("ud", 0x2c, "hex", "-", "octets"), _f("own", 0x1f, "int", "0", "enum"), _f("ost", 0x06, "int", "0", "int"),
        _f("dord", 0x25, "int", "0", "enum"), _f("pres", 0x21, "tuple3", "0,0,0", "pres"),
        _f("part", 0x29, "strs", "-", "strs"), _f("td", 0x2e, "hex", "-", "octets"), _f("gd", 0x2d, "hex", "-", "octets"),
        _f("repr", 0x73, "u16s", "-", "u16s"), _f("rwg", 0, "hex16", None, None, "derived"),
        _f("geid", 0x53, "hex4", "00000000", "p_eid"), _f("ul", 0x2f, "locs", "-", "p_loc", "each"),
        _f("ml", 0x30, "locs", "-", "p_loc", "each"),
    ],
    "subscription": HEAD + [
        _f("rel", 0x1a, "kinddur", "1,0:100000000", "kinddur"), _f("own", 0x1f, "int", "0", "enum"),
        _f("dord", 0x25, "int", "0", "enum"), _f("ud", 0x2c, "hex", "-", "octets"), _f("tbf", 0x04, "dur", "0:0", "durk"),
        _f("pres", 0x21, "tuple3", "0,0,0", "pres"), _f("part", 0x29, "strs", "-", "strs"),
        _f("td", 0x2e, "hex", "-", "octets"), _f("gd", 0x2d, "hex", "-", "octets"), _f("repr", 0x73, "u16s", "-", "u16s"),
        _f("tce", 0x74, "tuple6", "1,1,1,0,0,0", "tce"), _f("rrg", 0, "hex16", None, None, "derived"),
        _f("geid", 0x53, "hex4", "00000000", "p_eid"), _f("ul", 0x2f, "locs", "-", "p_loc", "each"),
        _f("ml", 0x30, "locs", "-", "p_loc", "each"), _f("eiq", 0x43, "bool", "0", "p_bool"),
    ],
    "topic": [
        _f("key", 0x5a, "hex16", K0, "key", "always"), _f("tn", 0x05, "hex", "-", "name", "always"),
        _f("ty", 0x07, "hex", "-", "name", "always"), _f("ti", 0x75, "ti", "-", "ti", "some"),
        _f("dur", 0x1d, "int", "0", "enum"), _f("dl", 0x23, "dur", INF, "durk"), _f("lb", 0x27, "dur", "0:0", "durk"),
        _f("liv", 0x1b, "kinddur", "0," + INF, "kinddur"), _f("rel", 0x1a, "kinddur", "1,0:100000000", "kinddur"),
        _f("tp", 0x49, "int", "0", "int"), _f("ls", 0x2b, "dur", INF, "durk"), _f("dord", 0x25, "int", "0", "enum"),
        _f("hist", 0x40, "ints2", "0,1", "hist"), _f("rl", 0x41, "ints3", "2147483647,2147483647,2147483647", "lim"),
        _f("own", 0x1f, "int", "0", "enum"), _f("td", 0x2e, "hex", "-", "octets"), _f("repr", 0x73, "u16s", "-", "u16s"),
    ],
}
KINDS = ["participant", "publication", "subscription", "topic"]
# order in which into_bytes writes the parameters (names)
ENC_ORDER = {
    "participant": ["ud", "key", "did", "tag", "pv", "vid", "eiq", "mul", "mml", "dul", "dml", "bes", "mlc", "beq", "lease"],
    "publication": ["key", "pkey", "tn", "ty", "ti", "dur", "dl", "lb", "liv", "rel", "ls", "ud", "own", "ost", "dord", "pres",
                    "part", "td", "gd", "repr", "geid", "ul", "ml"],
    "subscription": ["key", "pkey", "tn", "ty", "ti", "dur", "dl", "lb", "liv", "rel", "own", "dord", "ud", "tbf", "pres", "part",
                     "td", "gd", "repr", "tce", "geid", "ul", "ml", "eiq"],
    "topic": ["key", "tn", "ty", "ti", "dur", "dl", "lb", "liv", "rel", "tp", "ls", "dord", "hist", "rl", "own", "td", "repr"],
}
SCHEMA_PIDS = {k: {f["pid"] for f in FIELDS[k] if f["pid"]} for k in KINDS}


def field(kind, name):
    return next(f for f in FIELDS[kind] if f["name"] == name)


# ------------------------------------------------------------------------------------------ value strings
def hx(b):
    return b.hex() if b else "-"


def unhx(s):
    return b"" if s == "-" else bytes.fromhex(s)


def members(shape, s):
    """canonical string -> list of member values (python ints / bytes / lists), or list of such lists for `locs`"""
    if shape in ("hex16", "hex12", "hex2", "hex"):
        return [unhx(s)]
    if shape == "hex4":
        b = unhx(s)
        return [b[:3], b[3]]
    if shape in ("int", "nat"):
        return [int(s)]
    if shape == "optint":
        return None if s == "-" else [int(s)]
    if shape == "bool":
        return [int(s)]
    if shape == "dur":
        a, b = s.split(":")
        return [int(a), int(b)]
    if shape == "kinddur":
        k, d = s.split(",")
        a, b = d.split(":")
        return [int(k), int(a), int(b)]
    if shape in ("tuple3", "tuple6", "ints2", "ints3"):
        return [int(x) for x in s.split(",")]
    if shape == "strs":
        return [[] if s == "-" else [unhx(x[1:] or "-") for x in s.split(",")]]
    if shape == "u16s":
        return [[] if s == "-" else [int(x) for x in s.split(",")]]
    if shape == "locs":
        out = []
        if s != "-":
            for l in s.split(","):
                k, p, a = l.split(":")
                out.append([int(k), int(p), unhx(a)])
        return out
    if shape == "ti":
        return None if s == "-" else [unhx(s)]
    raise ValueError(shape)


def show(shape, m):
    if shape in ("hex16", "hex12", "hex2", "hex"):
        return hx(m[0])
    if shape == "hex4":
        return hx(m[0] + bytes([m[1]]))
    if shape in ("int", "nat", "bool"):
        return str(m[0])
    if shape == "optint":
        return "-" if m is None else str(m[0])
    if shape == "dur":
        return f"{m[0]}:{m[1]}"
    if shape == "kinddur":
        return f"{m[0]},{m[1]}:{m[2]}"
    if shape in ("tuple3", "tuple6", "ints2", "ints3"):
        return ",".join(str(x) for x in m)
    if shape == "strs":
        return "-" if not m[0] else ",".join("s" + (x.hex()) for x in m[0])
    if shape == "u16s":
        return "-" if not m[0] else ",".join(str(x) for x in m[0])
    if shape == "locs":
        return "-" if not m else ",".join(f"{l[0]}:{l[1]}:{hx(l[2])}" for l in m)
    if shape == "ti":
        return "-" if m is None else hx(m[0])
    raise ValueError(shape)


# ------------------------------------------------------------------------------------------ reference codec
def _pad(buf, a):
    while len(buf) % a:
        buf.append(0)


def enc_value(codec, m, be=False):
    E = ">" if be else "<"
    buf = bytearray()
    for kind, v in zip(CODECS[codec], m):
        if kind == "u8":
            buf.append(v)
        elif kind == "bool":
            buf.append(1 if v else 0)
        elif kind == "i16":
            _pad(buf, 2); buf += struct.pack(E + "h", v)
        elif kind == "i32":
            _pad(buf, 4); buf += struct.pack(E + "i", v)
        elif kind == "u32":
            _pad(buf, 4); buf += struct.pack(E + "I", v)
        elif kind.startswith("arr"):
            buf += v
        elif kind == "str":
            _pad(buf, 4); buf += struct.pack(E + "I", len(v) + 1) + v + b"\0"
        elif kind == "octets":
            _pad(buf, 4); buf += struct.pack(E + "I", len(v)) + v
        elif kind == "strs":
            _pad(buf, 4); buf += struct.pack(E + "I", len(v))
            for s in v:
                _pad(buf, 4); buf += struct.pack(E + "I", len(s) + 1) + s + b"\0"
        elif kind == "u16s":
            _pad(buf, 4); buf += struct.pack(E + "I", len(v))
            for x in v:
                buf += struct.pack(E + "H", x)
    return bytes(buf)


def param(pid, value, be=False):
    v = bytearray(value)
    _pad(v, 4)
    return struct.pack((">" if be else "<") + "HH", pid & 0xffff, len(v) & 0xffff) + bytes(v)


def norm_record(kind, rec):
    """what a decoder must give back for `rec`: defaults filled in, KEEP_ALL depth -1, derived fields from the key"""
    out = {}
    for f in FIELDS[kind]:
        if f["emit"] == "derived":
            continue
        out[f["name"]] = rec.get(f["name"], f["dflt"])
    if "hist" in out and out["hist"].split(",")[0] == "1":
        out["hist"] = "1,-1"
    key = out["key"]
    for f in FIELDS[kind]:
        if f["emit"] == "derived":
            n = {"hex12": 24, "hex16": 32}[f["shape"]]
            out[f["name"]] = key[:n]
    if out.get("ti", "-") != "-":
        b = unhx(out["ti"])
        out["ti"] = hx(b + b"\0" * (-len(b) % 4))
    return out


def record_params(kind, rec, be=False):
    """(pid, value bytes) list in the order into_bytes writes them"""
    r = norm_record(kind, rec)
    ps = []
    for name in ENC_ORDER[kind]:
        f = field(kind, name)
        s = r[name]
        if f["emit"] == "omit" and s == f["dflt"]:
            continue
        m = members(f["shape"], s)
        if f["emit"] == "some":
            if m is None:
                continue
            ps.append((f["pid"], m[0] if f["codec"] == "ti" else enc_value(f["codec"], m, be)))
        elif f["emit"] == "each":
            for l in m:
                ps.append((f["pid"], enc_value(f["codec"], l, be)))
        else:
            ps.append((f["pid"], enc_value(f["codec"], m, be)))
    return ps


def ser_params(ps, be=False, header=None, sentinel=True):
    h = header if header is not None else (b"\x00\x02\x00\x00" if be else b"\x00\x03\x00\x00")
    out = bytearray(h)
    for pid, v in ps:
        out += param(pid, v, be)
    if sentinel:
        out += struct.pack((">" if be else "<") + "HH", 1, 0)
    return bytes(out)


def py_encode(kind, rec, be=False):
    return ser_params(record_params(kind, rec, be), be)


class DecodeError(Exception):
    pass


class Rd:
    def __init__(self, b, be):
        self.b, self.p, self.E = b, 0, (">" if be else "<")
    def align(self, a):
        self.p += -self.p % a
    def take(self, n):
        if self.p + n > len(self.b):
            raise DecodeError("short")
        r = self.b[self.p:self.p + n]
        self.p += n
        return r
    def num(self, fmt, n):
        self.align(n)
        return struct.unpack(self.E + fmt, self.take(n))[0]


def dec_value(codec, b, be=False):
    r = Rd(b, be)
    m = []
    for kind in CODECS[codec]:
        if kind == "u8":
            m.append(r.take(1)[0])
        elif kind == "bool":
            m.append(1 if r.take(1)[0] else 0)
        elif kind == "i16":
            m.append(r.num("h", 2))
        elif kind == "i32":
            m.append(r.num("i", 4))
        elif kind == "u32":
            m.append(r.num("I", 4))
        elif kind.startswith("arr"):
            m.append(r.take(int(kind[3:])))
        elif kind == "str":
            n = r.num("I", 4)
            if n == 0:
                raise DecodeError("string without terminator")
            s = r.take(n)
            m.append(s[:-1])
        elif kind == "octets":
            m.append(r.take(r.num("I", 4)))
        elif kind == "strs":
            l = []
            for _ in range(r.num("I", 4)):
                n = r.num("I", 4)
                if n == 0:
                    raise DecodeError("string without terminator")
                l.append(r.take(n)[:-1])
            m.append(l)
        elif kind == "u16s":
            m.append([r.num("H", 2) for _ in range(r.num("I", 4))])
    return m


def walk_spec(data):
    """spec-style walk: (be, [(pid, value)]) of a PL_CDR buffer; raises DecodeError if it is not well formed"""
    if len(data) < 4 or data[0] != 0 or data[1] not in (2, 3):
        raise DecodeError("encapsulation")
    be = data[1] == 2
    E = ">" if be else "<"
    p, ps = 4, []
    while True:
        if p + 4 > len(data):
            raise DecodeError("no sentinel")
        pid, n = struct.unpack(E + "HH", data[p:p + 4])
        if pid == 1:
            if p + 4 != len(data):
                raise DecodeError("bytes after the sentinel")
            return be, ps
        if n % 4:
            raise DecodeError("parameter length not a multiple of 4")
        if p + 4 + n > len(data):
            raise DecodeError("parameter beyond the end")
        ps.append((pid, data[p + 4:p + 4 + n]))
        p += 4 + n


def py_decode(kind, data):
    be, ps = walk_spec(data)
    rec = {}
    for f in FIELDS[kind]:
        if f["emit"] == "derived":
            continue
        vals = [v for pid, v in ps if pid == f["pid"]]
        if f["emit"] == "each":
            rec[f["name"]] = show(f["shape"], [dec_value(f["codec"], v, be) for v in vals])
        elif not vals:
            rec[f["name"]] = f["dflt"]
        elif f["codec"] == "ti":
            rec[f["name"]] = hx(vals[0])
        else:
            rec[f["name"]] = show(f["shape"], dec_value(f["codec"], vals[0], be))
    return norm_record(kind, rec)


def parse_ok(line):
    """`ok a=b c=d` -> dict, else None"""
    t = line.split()
    if not t or t[0] != "ok":
        return None
    return dict(x.split("=", 1) for x in t[1:])


def fmt_rec(kind, rec):
    return " ".join(f"{f['name']}={rec[f['name']]}" for f in FIELDS[kind] if f["name"] in rec)


# ------------------------------------------------------------------------------------------ imitation of PidIterator
def walk_impl(data):
    """what the implementation's PidIterator sees (it starts behind the 4-octet encapsulation header since
    fixes/D-plist-1.patch): list of (pid, value, offset)"""
    if len(data) < 4 or data[1] not in (2, 3):
        return []
    E = ">" if data[1] == 2 else "<"
    p, out = 4, []
    while p < len(data):
        if p + 4 > len(data):
            break
        pid, n = struct.unpack(E + "HH", data[p:p + 4])
        if pid == 1 or p + n + 4 > len(data):
            break
        out.append((pid, data[p + 4:p + 4 + n], p))
        p += n + 4
    return out


# ------------------------------------------------------------------------------------------ generators
SEC = [0, 1, 2, 10, 100, 2147483646, 2147483647, -1, -2147483648]
NS = [0, 1, 999999999, 100000000, 500000000, 4294967295, 4294967294, 1000000000]
OCTET_SIZES = [0, 1, 2, 3, 4, 5, 7, 8, 9, 15, 16, 17, 100, 255, 256, 1000, 4096]
BIG_OK = [65519, 65524, 65527, 65528]                      # 4 + n padded stays below 65536
BIG_BAD = [65529, 65530, 65531, 65532, 65533, 65534, 65535, 65536, 65537, 65538, 65539, 65540, 70000, 131072]
UTF8 = ["", "a", "ab", "abc", "abcd", "abcde", "Square", "HelloWorld", "é", "€", "𝄞", "naïve/топик", "a b", "x\0y", "*", "A?", "[a-z]*"]


def gen_dur(r, p_inf=30):
    c = r.below(100)
    if c < p_inf:
        return INF
    if c < 80:
        return f"{r.choice(SEC)}:{r.choice(NS)}"
    return f"{r.range(-5, 100000)}:{r.below(1000000000)}"


def gen_bytes(r, n):
    c = r.below(4)
    if c == 0:
        return bytes([r.below(256)]) * n
    if c == 1 and n <= 4096:
        return r.bytes(n)
    return bytes((i * 7 + 3) & 0xff for i in range(n))


def gen_str(r, long_ok=True):
    c = r.below(10)
    if c < 6:
        return r.choice(UTF8).encode("utf-8")
    if c < 8 or not long_ok:
        n = r.choice([1, 2, 3, 4, 5, 6, 7, 8, 9, 31, 32, 33])
        return bytes(r.choice(b"abcdefghijklmnopqrstuvwxyzABCDEFGHIJKLMNOPQRSTUVWXYZ0123456789_:/") for _ in range(n))
    n = r.choice([255, 256, 257, 1000, 5000])
    return b"".join(r.choice(["a", "é", "€", "Z"]).encode("utf-8") for _ in range(n))


def gen_loc(r):
    kind = r.choice([1, 2, 1, 1, 0, -1, 16777216, r.range(-2147483648, 2147483647)])
    port = r.choice([0, 7400, 7410, 7411, 65535, 4294967295, r.below(4294967296)])
    addr = r.choice([bytes(12) + bytes([127, 0, 0, 1]), bytes(12) + bytes([239, 255, 0, 1]), bytes(16), r.bytes(16), b"\xff" * 16])
    return f"{kind}:{port}:{addr.hex()}"


def gen_locs(r):
    n = r.choice([0, 0, 1, 1, 2, 3, 4])
    return "-" if n == 0 else ",".join(gen_loc(r) for _ in range(n))


def gen_octets(r, big):
    if big == "ok":
        n = r.choice(BIG_OK)
    elif big == "bad":
        n = r.choice(BIG_BAD)
    else:
        n = r.choice(OCTET_SIZES)
    return hx(gen_bytes(r, n))


def gen_field(r, kind, f, tis, big=None):
    n, sh = f["name"], f["shape"]
    if sh == "hex16":
        return r.choice([r.bytes(16), bytes(16), b"\xff" * 16, bytes(range(1, 17))]).hex()
    if sh == "hex2":
        return r.choice(["0204", "0201", "0000", "ffff", "0110", r.bytes(2).hex()])
    if sh == "hex4":
        return r.choice(["00000000", "000001c1", "000003c2", "ffffffff", r.bytes(4).hex()])
    if sh == "hex":
        if f["codec"] == "octets":
            return gen_octets(r, big)
        return hx(gen_str(r))
    if sh == "optint":
        return r.choice(["-", "0", "1", "232", "-1", "2147483647", "-2147483648", str(r.range(0, 250))])
    if sh == "nat":
        return str(r.choice([0, 1, 2, 0x3f, 0x3000003f, 0xffffffff, 1 << 29, r.below(1 << 32)]))
    if sh == "int":
        if n in ENUM_RANGE:
            return str(r.choice(ENUM_RANGE[n]))
        return str(r.choice([0, 1, -1, 10, 2147483647, -2147483648, r.range(-1000, 1000)]))
    if sh == "bool":
        return str(r.below(2))
    if sh == "dur":
        return gen_dur(r) if n != "lease" else f"{r.choice(SEC)}:{r.choice(NS)}"
    if sh == "kinddur":
        k = r.choice([1, 2]) if n == "rel" else r.below(3)
        return f"{k},{gen_dur(r)}"
    if sh == "tuple3":
        return f"{r.below(2)},{r.below(2)},{r.below(2)}"
    if sh == "tuple6":
        return ",".join(str(r.below(2)) for _ in range(6))
    if sh == "ints2":
        k = r.below(2)
        return "1,-1" if k == 1 else f"0,{r.choice([0, 1, 2, 10, 2147483647, -1, -2147483648])}"
    if sh == "ints3":
        return ",".join(str(r.choice([2147483647, 0, 1, 10, -1, 2147483646, r.range(0, 100000)])) for _ in range(3))
    if sh == "strs":
        k = r.choice([0, 1, 1, 2, 3, 4])
        return "-" if k == 0 else ",".join("s" + gen_str(r, long_ok=r.chance(1, 4)).hex() for _ in range(k))
    if sh == "u16s":
        k = r.choice([0, 1, 1, 2, 3, 5])
        return "-" if k == 0 else ",".join(str(r.choice([0, 1, 2, 2, 0, 65535, r.below(65536)])) for _ in range(k))
    if sh == "locs":
        return gen_locs(r)
    if sh == "ti":
        return "-" if (not tis or r.chance(1, 2)) else r.choice(tis)
    raise ValueError(sh)


def gen_record(r, kind, tis, density=None, big=None):
    """a record; `density` = percentage of fields that get a generated (mostly non-default) value;
    `big` = 'ok' | 'bad': one octet-sequence field gets a size next to the u16 limit"""
    if density is None:
        density = r.choice([0, 25, 50, 75, 100, 100])
    fs = [f for f in FIELDS[kind] if f["emit"] != "derived"]
    bigf = None
    if big:
        bigf = r.choice([f["name"] for f in fs if f["codec"] == "octets"])
    rec = {}
    for f in fs:
        if f["name"] == bigf:
            rec[f["name"]] = gen_field(r, kind, f, tis, big)
        elif f["emit"] == "always" or r.below(100) < density:
            rec[f["name"]] = gen_field(r, kind, f, tis)
    return rec


def is_big(kind, rec):
    """some parameter of this record is >= 65536 octets long (the u16 length cannot hold it, D17)"""
    try:
        return any(len(v) + (-len(v) % 4) >= 65536 for _, v in record_params(kind, rec))
    except Exception:
        return False


def gen_unknown_param(r, kind):
    """a parameter whose pid is not in the schema (nor the sentinel): plain, vendor-specific, must-understand, PAD"""
    while True:
        c = r.below(6)
        if c == 0:
            pid = 0x8000 | r.below(0x8000)                # vendor specific
        elif c == 1:
            pid = 0x4000 | r.below(0x4000)                # must understand
        elif c == 2:
            pid = r.choice([0, 0x59, 0x60, 0x62, 0x35, 0x1e, 0x52, 0x8010, 0x8020, 0x7fff, 0xffff, 0x0300])
        else:
            pid = r.below(0x10000)
        if pid != 1 and pid not in SCHEMA_PIDS[kind]:
            break
    n = r.choice([0, 4, 4, 8, 12, 16, 24, 28, 100, 1024]) if r.chance(9, 10) else r.choice([1, 2, 3, 5, 6, 7, 9])
    return pid, gen_bytes(r, n)


def inject(r, kind, data, how_many=None):
    """insert unknown parameters at random positions (before the sentinel) of a well-formed list"""
    be, ps = walk_spec(data)
    k = how_many or r.choice([1, 1, 2, 3, 5])
    for _ in range(k):
        pid, v = gen_unknown_param(r, kind)
        # lengths that are not a multiple of 4 are written as they are (no padding): the decoder must still skip them
        ps.insert(r.below(len(ps) + 1), (pid, v))
    out = bytearray(data[:4])
    for pid, v in ps:
        out += struct.pack((">" if be else "<") + "HH", pid, len(v)) + v
    out += struct.pack((">" if be else "<") + "HH", 1, 0)
    return bytes(out)


# ------------------------------------------------------------------------------------------ fix probing
D11_EXEMPLAR = "dec participant 0003000050001000080808080808080808080808000001c1150004000204000016000400494a000058000400020000001440040000000000"
D13_EXEMPLAR = "dec publication 000300002900040000000001"
# all-default participant announcement in PL_CDR_BE (finding D-plist-1, repaired by fixes/D-plist-1.patch)
P1_EXEMPLAR = ("dec participant 0002000000500010080808080808080808080808000001c1001500040204000000160004494a0000"
               "005800040000000200020008000000640000000000010000")
_FIX = None


def probe_fixes():
    """which repair patches does the tree under test carry?  -> 'fix=..' token for the model"""
    global _FIX
    if _FIX is None:
        fx = []
        _, o, _ = run_lines([harness_bin(ENGINE)], [D11_EXEMPLAR], timeout=60)
        if o and o[0] != "PANIC":
            fx.append("11")
        _, o, _ = run_lines([harness_bin(ENGINE)], [D13_EXEMPLAR], timeout=60)
        if o and o[0] != "ALLOC-LIMIT":
            fx.append("13")
        _, o, _ = run_lines([harness_bin(ENGINE)], [P1_EXEMPLAR], timeout=60)
        if o and o[0].startswith("ok "):
            fx.append("p1")
        _FIX = "fix=" + (",".join(fx) if fx else "-")
    return _FIX


def set_fix_token(cases, tok):
    for c in cases:
        c.lines = [(" ".join(t for t in l.split() if not t.startswith("fix=")) + " " + tok) if l.startswith("dec ") else l
                   for l in c.lines]
    return cases


def make_tis(r, n=4):
    """type information blobs (XCDR2 values) produced by the real serializer"""
    lines = [f"timk {r.bytes(14).hex()} {r.below(1 << 16)} {r.bytes(14).hex()} {r.below(1 << 20)}" for _ in range(n)]
    _, o, _ = run_lines([harness_bin(ENGINE)], lines, timeout=60)
    return [x for x in o if x and all(c in "0123456789abcdef" for c in x)]


# ------------------------------------------------------------------------------------------ C07: malformed lists
def _mutations(r, data, kind):
    """structure-aware mutations of a valid list"""
    out = []
    ps = walk_impl(data)
    E = ">" if data[1] == 2 else "<"
    n = len(data)
    # truncations
    for cut in {r.below(n + 1), n - 1, n - 2, n - 3, n - 4, n - 5, 4, 5, 3, 0} | ({p[2] + r.below(5) for p in ps[:3]} if ps else set()):
        if 0 <= cut <= n:
            out.append(("trunc", data[:cut]))
    # byte edits
    for _ in range(4):
        b = bytearray(data)
        for _ in range(r.choice([1, 1, 2, 4])):
            i = r.below(n)
            b[i] = r.choice([0, 1, 2, 3, 4, 0x7f, 0x80, 0xff, b[i] ^ (1 << r.below(8)), r.below(256)])
        out.append(("flip", bytes(b)))
    # parameter length field edits
    for (pid, v, off) in r.shuffle(ps)[:3]:
        for ln in r.shuffle([0, 1, 2, 3, len(v) - 1, len(v) + 1, len(v) + 4, len(v) - 4, 0xffff, 0xfffc, n, n - off - 4, n - off - 3])[:4]:
            if 0 <= ln <= 0xffff:
                b = bytearray(data)
                b[off + 2:off + 4] = struct.pack(E + "H", ln)
                out.append(("plen", bytes(b)))
    # inner length / count fields (first 4 octets of the value) and second word
    for (pid, v, off) in r.shuffle([p for p in ps if len(p[1]) >= 4])[:4]:
        for w in r.shuffle([0, 1, 2, len(v) - 4, len(v) - 3, len(v), 0xffff, 0x10000, 0x01000000, 0x0aaaaaab, 0x7fffffff, 0x80000000, 0xffffffff])[:4]:
            b = bytearray(data)
            at = off + 4 + (4 if (len(v) >= 8 and r.chance(1, 4)) else 0)
            b[at:at + 4] = struct.pack(E + "I", w)
            out.append(("ilen", bytes(b)))
    # header
    for h in r.shuffle([b"\0\2\0\0", b"\0\0\0\0", b"\0\1\0\0", b"\5\3\0\0", b"\0\4\0\0", b"\0\3\0\4", b"\0\3\1\0", b"\0\7\0\0", b"\1\2\0\0", b"\0\x0b\0\0"])[:3]:
        out.append(("hdr", h + data[4:]))
    # sentinel games
    out.append(("nosent", data[:-4]))
    out.append(("aftersent", data + r.bytes(r.choice([1, 2, 3, 4, 8]))))
    out.append(("sentlen", data[:-2] + b"\x08\x00" + bytes(8)))
    # duplicates: a second occurrence of a present parameter with another value (first one wins for single-valued fields)
    if ps:
        pid, v, off = r.choice(ps)
        v2 = bytes((x + 1) & 0xff for x in v)
        out.append(("dupafter", data[:-4] + struct.pack(E + "HH", pid, len(v2)) + v2 + data[-4:]))
        out.append(("dupbefore", data[:4] + struct.pack(E + "HH", pid, len(v2)) + v2 + data[4:]))
    return out


def c07_cases(rng, tier, tis=None):
    """op lines `dec <kind> <hex> fix=11,13` over random, mutated and truncated parameter lists"""
    r = rng
    n_base = 40 if tier == "quick" else 1000
    cases = [Case([D11_EXEMPLAR + " fix=11,13,p1"], {"class": "corpus"}), Case([D13_EXEMPLAR + " fix=11,13,p1"], {"class": "corpus"}),
             Case(["dec publication 0003000073000400ffffffff fix=11,13,p1"], {"class": "corpus"}),
             Case(["dec participant 0002000000500010080808080808080808080808000001c1001500040204000000160004494a0000005800040000000200020008000000640000000000010000 fix=11,13,p1"], {"class": "corpus"})]
    ti = unhx(GOOD_TI)
    tip = struct.pack("<HH", 0x75, len(ti)) + ti
    for kind in ("topic", "publication", "subscription"):
        for hdr in (b"\0\3\0\0", b"\5\3\0\0", b"\5\2\0\0"):
            cases.append(Case([f"dec {kind} {(hdr + tip + bytes([1, 0, 0, 0])).hex()} fix=11,13,p1"], {"class": "corpus-ti"}))
    seen = set()
    def add(kind, data, cls):
        if len(data) > 3000 and cls != "valid":
            return
        line = f"dec {kind} {hx(data)} fix=11,13,p1"
        if line not in seen:
            seen.add(line)
            cases.append(Case([line], {"class": cls}))
    for i in range(n_base):
        kind = KINDS[i % 4]
        rec = gen_record(r, kind, [], density=r.choice([25, 50, 100]))
        rec.pop("ti", None)
        be = r.chance(1, 5)
        data = py_encode(kind, rec, be=be)
        add(kind, data, "valid-be" if be else "valid")
        for cls, d in _mutations(r, data, kind):
            add(kind, d, cls + ("-be" if be else ""))
        # the same bytes decoded as another record kind
        add(KINDS[(i + 1 + r.below(3)) % 4], data, "otherkind")
    for i in range(n_base * 2):
        n = r.choice([0, 1, 2, 3, 4, 5, 7, 8, 12, 16, 20, 36, 64])
        d = r.bytes(n)
        if n >= 4 and r.chance(3, 4):
            d = bytes([0, r.choice([2, 3])]) + d[2:]
        add(KINDS[i % 4], d, "random")
    return cases


# a TypeInformation value written by the real XCDR2 serializer (harness op `timk 0102..0e 100 1112..1e 200`)
GOOD_TI = ("58000000011000502400000014000000f10102030405060708090a0b0c0d0e0064000000000000000400000000000000"
           "021000502400000014000000f21112131415161718191a1b1c1d1e00c8000000000000000400000000000000")


def has_foreign_type_information(line, tis=()):
    """the list holds a PID_TYPE_INFORMATION parameter whose value the model cannot judge (not a known good blob,
    or not under a little-endian header): such a case is not diffed against the model"""
    t = line.split()
    data = unhx(t[2])
    good = {unhx(x) + b"\0" * (-len(unhx(x)) % 4) for x in list(tis) + [GOOD_TI]}
    if len(data) >= 2 and data[0] != 0:
        return False          # unknown representation identifier: the value is never looked at
    for pid, v, _ in walk_impl(data):
        if pid == 0x75 and not (data[:2] == b"\0\3" and v in good):
            return True
    return False


def c07_nontrivial(case, out):
    """non-trivial = at least 4 octets (ParameterList::new passes) and a known encapsulation kind in octet 1"""
    t = case.lines[0].split()
    d = unhx(t[2])
    return len(d) >= 4 and d[1] in (2, 3)


def _zero_length_plain_string(kind, data):
    if kind != "participant":
        return False
    return any(pid == 0x4014 and len(v) >= 4 and v[:4] == b"\0\0\0\0" for pid, v, _ in walk_impl(data))


def _huge_count(data):
    if len(data) < 4 or data[1] not in (2, 3):
        return False
    E = ">" if data[1] == 2 else "<"
    for pid, v, _ in walk_impl(data):
        if pid in (0x29, 0x73) and len(v) >= 4:
            c = struct.unpack(E + "I", v[:4])[0]
            if c * (24 if pid == 0x29 else 2) > ALLOC_LIMIT:
                return True
    return False


def c07_oracle(case, out):
    """decoders are total: no op may answer PANIC / ALLOC-LIMIT / crash, whatever the bytes"""
    viol = []
    for line, o in zip(case.lines, out):
        t = line.split()
        if t[0] != "dec":
            continue
        if o.startswith("ok ") or o.startswith("err:"):
            continue
        kind, data = t[1], unhx(t[2])
        v = {"what": f"decoding {len(data)} octets as {kind} data answered {o}", "op": line}
        if o == "PANIC" and _zero_length_plain_string(kind, data):
            v["cause"] = "zero-length-string-length-minus-one"
        if o == "ALLOC-LIMIT" and _huge_count(data):
            v["cause"] = "with-capacity-from-wire-length"
        viol.append(v)
    return viol
