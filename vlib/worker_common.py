"""Engines `worker` (C31) and `deadline` (C30, C24 deadline clause): canonicaliser, differential runner and the
scenario pieces shared by both. Rust side: `dsim` (real code, public API, virtual time). Lean side: `dustmodel worker`
/ `dustmodel deadline` (Driver/Worker.lean -> Model/Worker.lean -> Model/Deadline.lean).

Scenario sub-language (strict subset of notes/dsim.md; every scenario starts with the `config` line, and every entity
is created at virtual time 0):
  config announce=1000000000000
  participant <n>     publisher|subscriber <n> <participant>     topic <n> <participant> <topic name> ki
  writer <n> <pub> <topic> reliability=reliable|best_effort history=keep_all|keep_last:<d> [deadline=<ns>] [lifespan=<ns>]
         [max_blocking=<ns>] [ownership=exclusive strength=<s>] [listener=offered_deadline_missed]
  reader <n> <sub> <topic> reliability=.. history=keep_all [deadline=<ns>] [tbf=<ns>] [ownership=exclusive]
         [listener=requested_deadline_missed]
  drop-if ACKNACK user          write <w> <key> <value> [ts=<ns>]          advance <ns>          jump <ns>
  timers      log      now      status <w> offered_deadline_missed      read <r>      take <r>

Canonical answers (`canon` rewrites the implementation's answers; the model prints this form):
  creations   `ok *`
  timers      the worker's SLEEPS: of all `Timer::delay` requests made at one virtual instant only the last one counts (the
              earlier ones are re-armed at once, without time passing); then run-length encoded:
              `ok <runs> <at>:<ns>[*<k>] ...`, `*k` = k requests of <ns> spaced by exactly <ns>
  log         only deadline callbacks: `ok <n> | <owner>.<callback> t=<ns> total=<count> last=h(<key>) | ...` sorted by (t, text)
  status      `ok total=<n> last=h(<key>)|none`
  read/take   `ok <n> <key>:<value> ...` or `err:NoData`
  the rest    verbatim (`ok`, `ok <now>`, `err:Timeout`)
"""
import os
from vlib.core import Case, run_cases, harness_bin, model_bin, case_hash
from vlib.dsim_common import dsim_env, is_ok, parse_bar_list

MS = 1000000
POKE = 50 * MS
CONFIG = "config announce=1000000000000"
CREATE = ("participant", "publisher", "subscriber", "topic", "writer", "reader")
DEADLINE_CBS = ("on_offered_deadline_missed", "on_requested_deadline_missed")
U64MAX = 18446744073709551615


def key_of_handle(h):
    """instance handle of the test type `ki` (big-endian i32 key, zero padded) -> `h(<key>)`; nil handle -> none"""
    if len(h) == 32 and h[8:] == "0" * 24:
        k = int(h[:8], 16)
        if k >= 2 ** 31:
            k -= 2 ** 32
        return "none" if h == "0" * 32 else f"h({k})"
    return h


def parse_timers(o):
    """`ok n at:d ...` -> [(at, d)]"""
    return [tuple(int(x) for x in t.split(":")) for t in o.split()[2:]]


def sleeps_of(reqs):
    """last request per instant"""
    out = []
    for a, d in reqs:
        if out and out[-1][0] == a:
            out[-1] = (a, d)
        else:
            out.append((a, d))
    return out


def rle(sl):
    runs = []
    for a, d in sl:
        if runs and runs[-1][1] == d and d > 0 and a == runs[-1][3] + d:
            runs[-1][2] += 1
            runs[-1][3] = a
        else:
            runs.append([a, d, 1, a])
    return [f"{r[0]}:{r[1]}" if r[2] == 1 else f"{r[0]}:{r[1]}*{r[2]}" for r in runs]


def canon(lines, outs):
    names, res = {}, []
    for l, o in zip(lines, outs):
        t = l.split()
        if not t:
            res.append(o)
        elif t[0] in CREATE and is_ok(o) and len(o.split()) == 2:
            names[o.split()[1]] = t[1]
            res.append("ok *")
        elif t[0] == "timers" and is_ok(o):
            r = rle(sleeps_of(parse_timers(o)))
            res.append(" ".join(["ok", str(len(r))] + r))
        elif t[0] == "log" and is_ok(o):
            ent = []
            for it in parse_bar_list(o):
                f = it.split()
                if f[0].split(".")[1] not in DEADLINE_CBS:
                    continue
                kv = dict(x.split("=", 1) for x in f[1:] if "=" in x)
                ent.append((int(kv["t"]), f"{f[0]} t={kv['t']} total={kv['total']} last={key_of_handle(kv['last'])}"))
            ent.sort()
            res.append("ok 0" if not ent else f"ok {len(ent)} | " + " | ".join(e[1] for e in ent))
        elif t[0] == "status" and is_ok(o):
            kv = dict(x.split("=", 1) for x in o.split()[1:] if "=" in x)
            res.append(f"ok total={kv['total']} last={key_of_handle(kv['last'])}")
        elif t[0] in ("read", "take") and is_ok(o):
            f = o.split()
            res.append(" ".join(["ok", f[1]] + [s.split("/")[0] for s in f[2:]]))
        else:
            res.append(o)
    return res, names


def run_differential(ctx, engine, cases, oracle, nontrivial, jobs=16, count=None):
    """cases on `dsim` and on `dustmodel <engine>`, compared line by line after canonicalisation; `oracle(case, raw impl
    output)` judges the implementation alone"""
    env = dict(os.environ)
    env.update(dsim_env(jobs, 120000))
    impl, _ = run_cases([harness_bin("dsim")], cases, timeout=2400, env=env)
    model, bad_m = run_cases([model_bin(), engine], cases, timeout=2400)
    if bad_m is not None:
        ctx.disagreements.append({"what": "model driver crashed (model bug, not evidence about the code)",
                                  "ops": cases[bad_m[0]].lines, "detail": str(bad_m[1:])})
    for c, io, mo in zip(cases, impl, model):
        ctx.stats["evaluations"] += 1
        co, _ = canon(c.lines, io)
        nt = nontrivial(c, co)
        h = case_hash(c.lines)
        if nt and h not in ctx._seen:
            ctx._seen.add(h)
            ctx.stats["distinct_nontrivial"] += 1
        if len(ctx.samples) < 8 and nt:
            ctx.samples.append({"ops": c.lines[:20], "impl": [x[:300] for x in co[:20]]})
        if count:
            count(ctx, c, co)
        if any(o == "bad-op" for o in mo):
            k = mo.index("bad-op")
            ctx.disagreements.append({"what": "generator left the modelled sub-language (bad-op from the model)", "ops": c.lines,
                                      "at": k, "impl": co[k] if k < len(co) else None, "model": "bad-op"})
        elif co != mo:
            k = next((i for i in range(min(len(co), len(mo))) if co[i] != mo[i]), min(len(co), len(mo)))
            ctx.disagreements.append({"what": "model and implementation differ", "ops": c.lines, "at": k,
                                      "impl": co[k] if k < len(co) else None, "model": mo[k] if k < len(mo) else None})
        for v in oracle(c, io) or []:
            v.setdefault("ops", c.lines)
            ctx.violations.append(v)
    return impl


# ----------------------------------------------------------------------------- scenario pieces

def world(two=True, wq="", rq="", reader=True, extra_writers=()):
    """config + entities, all at time 0. P1 holds the writer(s); the reader lives in P2 (two=True) or in P1"""
    p2 = "P2" if two else "P1"
    l = [CONFIG, "participant P1"] + (["participant P2"] if two else [])
    l += ["topic t1 P1 T ki"] + (["topic t2 P2 T ki"] if two else [])
    l += ["publisher pub P1"] + ([f"subscriber sub {p2}"] if reader else [])
    l.append(f"writer w pub t1 {wq}".rstrip())
    for n, q in extra_writers:
        l.append(f"writer {n} pub t1 {q}".rstrip())
    if reader:
        l.append(f"reader r sub {'t2' if two else 't1'} {rq}".rstrip())
    return l
