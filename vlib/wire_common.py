"""Shared code of engine `wire` (C08 round trip, C07 RTPS decoder totality).

* message values (plain Python tuples/dicts), their op-line spec (syntax of harness/src/bin/wire.rs),
* an independent Python encoder for both byte orders (third implementation, written from the RTPS 2.5
  wire format, used by the oracles and as the source of valid encodings to mutate),
* parser of the canonical rendering printed by `dec` / `rt`,
* generators (boundary-biased) and byte-level mutators.
"""
import struct

I64MIN, I64MAX = -2**63, 2**63 - 1
I32MIN, I32MAX = -2**31, 2**31 - 1
U32MAX = 2**32 - 1
IDS = {"DATA": 0x15, "DFRAG": 0x16, "GAP": 0x08, "HB": 0x07, "ACK": 0x06, "NFRAG": 0x12, "HBFRAG": 0x13,
       "IDST": 0x0e, "ISRC": 0x0c, "IREPLY": 0x0f, "ITS": 0x09, "PAD": 0x01}
KINDS = list(IDS)


def hx(b):
    return b.hex() if b else "-"


def unhx(s):
    return b"" if s == "-" else bytes.fromhex(s)


# ----------------------------------------------------------------------------- spec text

def qos_s(q):
    return ";".join(f"{pid}:{hx(v)}" for pid, v in q) if q else "-"


def set_s(base, members):
    return f"{base}/" + (";".join(str(m) for m in members) if members else "-")


def locs_s(ls):
    return ";".join(f"{k}:{p}:{a.hex()}" for k, p, a in ls) if ls else "-"


def bytes_s(b):
    """compact form `#n:b` when the payload is the arithmetic pattern, else hex"""
    if len(b) >= 64 and all(b[i] == (b[0] + i) % 256 for i in range(len(b))):
        return f"#{len(b)}:{b[0]}"
    return hx(b)


def fl(*bits):
    return "".join("1" if x else "0" for x in bits)


def sub_spec(s):
    k = s["k"]
    if k == "DATA":
        return f"DATA,{fl(s['q'], s['d'], s['key'], s['n'])},{s['r'].hex()},{s['w'].hex()},{s['sn']},{qos_s(s['qos'])},{bytes_s(s['p'])}"
    if k == "DFRAG":
        return (f"DFRAG,{fl(s['q'], s['key'], s['n'])},{s['r'].hex()},{s['w'].hex()},{s['sn']},{s['fs']},{s['fis']},"
                f"{s['fsz']},{s['ds']},{qos_s(s['qos'])},{bytes_s(s['p'])}")
    if k == "GAP":
        return f"GAP,{s['r'].hex()},{s['w'].hex()},{s['start']},{set_s(s['base'], s['members'])}"
    if k == "HB":
        return f"HB,{fl(s['f'], s['l'])},{s['r'].hex()},{s['w'].hex()},{s['first']},{s['last']},{s['count']}"
    if k == "ACK":
        return f"ACK,{fl(s['f'])},{s['r'].hex()},{s['w'].hex()},{set_s(s['base'], s['members'])},{s['count']}"
    if k == "NFRAG":
        return f"NFRAG,{s['r'].hex()},{s['w'].hex()},{s['sn']},{set_s(s['base'], s['members'])},{s['count']}"
    if k == "HBFRAG":
        return f"HBFRAG,{s['r'].hex()},{s['w'].hex()},{s['sn']},{s['last']},{s['count']}"
    if k == "IDST":
        return f"IDST,{s['prefix'].hex()}"
    if k == "ISRC":
        return f"ISRC,{s['version'].hex()},{s['vendor'].hex()},{s['prefix'].hex()}"
    if k == "IREPLY":
        return f"IREPLY,{fl(s['m'])},{locs_s(s['uni'])},{locs_s(s['multi'])}"
    if k == "ITS":
        return f"ITS,{fl(s['inv'])},{s['sec']},{s['frac']}"
    return "PAD"


def msg_spec(m):
    h = m["h"]
    return " ".join([f"H:{h[0].hex()}:{h[1].hex()}:{h[2].hex()}"] + [sub_spec(s) for s in m["subs"]])


# ----------------------------------------------------------------------------- independent encoder

def members_ok(base, members, fragment=False):
    return all(0 <= x - base <= 255 for x in members)


def bitmap_of(base, members):
    """(numBits, [8 words]) per RTPS 9.4.2.6: bit (31 - d%32) of word d/32 for d = member - base"""
    words = [0] * 8
    nb = 0
    for x in members:
        d = x - base
        words[d // 32] |= 1 << (31 - d % 32)
        nb = max(nb, d + 1)
    return nb, words


def enc_set(e, base, members, fragment):
    nb, words = bitmap_of(base, members)
    out = (struct.pack(e + "I", base) if fragment else enc_sn(e, base)) + struct.pack(e + "I", nb)
    for w in words[:(nb + 31) // 32]:
        out += struct.pack(e + "I", w)
    return out


def enc_sn(e, sn):
    return struct.pack(e + "iI", sn >> 32, sn & 0xFFFFFFFF)


def enc_qos(e, q):
    out = b""
    for pid, v in q:
        pad = (-len(v)) % 4
        out += struct.pack(e + "hH", pid, (len(v) + pad) & 0xFFFF) + v + b"\0" * pad
    return out + struct.pack(e + "hH", 1, 0)


def enc_locs(e, ls):
    out = struct.pack(e + "I", len(ls))
    for k, p, a in ls:
        out += struct.pack(e + "iI", k, p) + a
    return out


def sub_flags(s):
    k = s["k"]
    if k == "DATA":
        return 2 * s["q"] + 4 * s["d"] + 8 * s["key"] + 16 * s["n"]
    if k == "DFRAG":
        return 2 * s["q"] + 4 * s["key"] + 8 * s["n"]
    if k == "HB":
        return 2 * s["f"] + 4 * s["l"]
    if k == "ACK":
        return 2 * s["f"]
    if k == "ITS":
        return 2 * s["inv"]
    if k == "IREPLY":
        return 2 * s["m"]          # what the RTPS specification says (the repository writes 0: D-wire-2)
    return 0


def sub_body(s, le=True):
    e = "<" if le else ">"
    k = s["k"]
    if k == "DATA":
        return (struct.pack(e + "HH", 0, 16) + s["r"] + s["w"] + enc_sn(e, s["sn"])
                + (enc_qos(e, s["qos"]) if s["q"] else b"") + (s["p"] if (s["d"] or s["key"]) else b""))
    if k == "DFRAG":
        return (struct.pack(e + "HH", 0, 28) + s["r"] + s["w"] + enc_sn(e, s["sn"])
                + struct.pack(e + "IHHI", s["fs"], s["fis"], s["fsz"], s["ds"])
                + (enc_qos(e, s["qos"]) if s["q"] else b"") + s["p"])
    if k == "GAP":
        return s["r"] + s["w"] + enc_sn(e, s["start"]) + enc_set(e, s["base"], s["members"], False)
    if k == "HB":
        return s["r"] + s["w"] + enc_sn(e, s["first"]) + enc_sn(e, s["last"]) + struct.pack(e + "i", s["count"])
    if k == "ACK":
        return s["r"] + s["w"] + enc_set(e, s["base"], s["members"], False) + struct.pack(e + "i", s["count"])
    if k == "NFRAG":
        return s["r"] + s["w"] + enc_sn(e, s["sn"]) + enc_set(e, s["base"], s["members"], True) + struct.pack(e + "i", s["count"])
    if k == "HBFRAG":
        return s["r"] + s["w"] + enc_sn(e, s["sn"]) + struct.pack(e + "Ii", s["last"], s["count"])
    if k == "IDST":
        return s["prefix"]
    if k == "ISRC":
        return struct.pack(e + "I", 0) + s["version"] + s["vendor"] + s["prefix"]
    if k == "IREPLY":
        return enc_locs(e, s["uni"]) + (enc_locs(e, s["multi"]) if s["m"] else b"")
    if k == "ITS":
        return b"" if s["inv"] else struct.pack(e + "II", s["sec"], s["frac"])
    return b""


def sub_bytes(s, le=True, length=None):
    body = sub_body(s, le)
    ln = len(body) if length is None else length
    return bytes([IDS[s["k"]], sub_flags(s) | (1 if le else 0)]) + struct.pack(("<" if le else ">") + "H", ln & 0xFFFF) + body


def header_bytes(h):
    return b"RTPS" + h[0] + h[1] + h[2]


def msg_bytes(m, le=True, les=None):
    """`les`: optional per-submessage byte order"""
    out = header_bytes(m["h"])
    for i, s in enumerate(m["subs"]):
        out += sub_bytes(s, le if les is None else les[i])
    return out


# ----------------------------------------------------------------------------- well-formedness (= Lean `WF`)

def sub_wf(s):
    """the hypotheses of C08_roundtrip for one submessage (mirrors Props/C08.lean `Sub.WF`)"""
    k = s["k"]
    if k in ("GAP", "ACK", "NFRAG") and not members_ok(s["base"], s["members"]):
        return False
    if len(sub_body(s)) >= 65536:
        return False
    if k in ("DATA", "DFRAG"):
        if any(pid == 1 or len(v) % 4 != 0 for pid, v in s["qos"]):
            return False
        if not s["q"] and s["qos"]:
            return False
        if k == "DATA" and not (s["d"] or s["key"]) and s["p"]:
            return False
    if k == "ITS" and s["inv"] and (s["sec"], s["frac"]) != (U32MAX, U32MAX):
        return False
    if k == "IREPLY" and s["multi"] and not s["m"]:
        return False
    return True


def normalise(s):
    """what a decoder can possibly return for `s` (information the wire format does not carry is dropped):
    parameter values zero-padded to 4, inline QoS / payload absent without their flags, invalidated
    timestamp = TIME_INVALID, multicast list absent without its flag"""
    s = dict(s)
    k = s["k"]
    if k in ("DATA", "DFRAG"):
        s["qos"] = [(pid, v + b"\0" * ((-len(v)) % 4)) for pid, v in s["qos"]] if s["q"] else []
        if k == "DATA" and not (s["d"] or s["key"]):
            s["p"] = b""
    if k in ("GAP", "ACK", "NFRAG"):
        s["members"] = sorted(set(s["members"]))
    if k == "ITS" and s["inv"]:
        s["sec"], s["frac"] = U32MAX, U32MAX
    if k == "IREPLY" and not s["m"]:
        s["multi"] = []
    return s


# ----------------------------------------------------------------------------- rendering parser

def parse_set(t, conv=int):
    base, nb, words, mem = t.split("/")
    return {"base": int(base), "nb": int(nb), "words": [int(w, 16) for w in words.split(".")],
            "members": None if mem == "!" else ([] if mem == "-" else [int(x) for x in mem.split(";")])}


def parse_qos(t):
    if t == "-":
        return []
    out = []
    for p in t.split(";"):
        pid, v = p.split(":")
        out.append((int(pid), unhx(v)))
    return out


def parse_locs(t):
    if t == "-":
        return []
    out = []
    for l in t.split(";"):
        k, p, a = l.split(":")
        out.append((int(k), int(p), bytes.fromhex(a)))
    return out


def parse_sub(tok):
    f = tok.split(",")
    k = f[0]
    b = lambda c: c == "1"
    if k == "DATA":
        return {"k": k, "q": b(f[1][0]), "d": b(f[1][1]), "key": b(f[1][2]), "n": b(f[1][3]), "r": unhx(f[2]), "w": unhx(f[3]),
                "sn": int(f[4]), "qos": parse_qos(f[5]), "p": unhx(f[6])}
    if k == "DFRAG":
        return {"k": k, "q": b(f[1][0]), "key": b(f[1][1]), "n": b(f[1][2]), "r": unhx(f[2]), "w": unhx(f[3]), "sn": int(f[4]),
                "fs": int(f[5]), "fis": int(f[6]), "fsz": int(f[7]), "ds": int(f[8]), "qos": parse_qos(f[9]), "p": unhx(f[10])}
    if k == "GAP":
        return {"k": k, "r": unhx(f[1]), "w": unhx(f[2]), "start": int(f[3]), "set": parse_set(f[4])}
    if k == "HB":
        return {"k": k, "f": b(f[1][0]), "l": b(f[1][1]), "r": unhx(f[2]), "w": unhx(f[3]), "first": int(f[4]), "last": int(f[5]),
                "count": int(f[6])}
    if k == "ACK":
        return {"k": k, "f": b(f[1][0]), "r": unhx(f[2]), "w": unhx(f[3]), "set": parse_set(f[4]), "count": int(f[5])}
    if k == "NFRAG":
        return {"k": k, "r": unhx(f[1]), "w": unhx(f[2]), "sn": int(f[3]), "set": parse_set(f[4]), "count": int(f[5])}
    if k == "HBFRAG":
        return {"k": k, "r": unhx(f[1]), "w": unhx(f[2]), "sn": int(f[3]), "last": int(f[4]), "count": int(f[5])}
    if k == "IDST":
        return {"k": k, "prefix": unhx(f[1])}
    if k == "ISRC":
        return {"k": k, "version": unhx(f[1]), "vendor": unhx(f[2]), "prefix": unhx(f[3])}
    if k == "IREPLY":
        return {"k": k, "m": b(f[1][0]), "uni": parse_locs(f[2]), "multi": parse_locs(f[3])}
    if k == "ITS":
        return {"k": k, "inv": b(f[1][0]), "sec": int(f[2]), "frac": int(f[3])}
    if k == "PAD":
        return {"k": k}
    raise ValueError(tok)


def parse_bytes_spec(t):
    if t.startswith("#"):
        n, b0 = t[1:].split(":")
        return bytes((int(b0) + i) % 256 for i in range(int(n)))
    return unhx(t)


def parse_spec(toks):
    """msg-spec tokens (input syntax) -> message value"""
    h = toks[0].split(":")
    subs = []
    for t in toks[1:]:
        f = t.split(",")
        k = f[0]
        if k in ("GAP", "ACK", "NFRAG"):
            i = {"GAP": 4, "ACK": 4, "NFRAG": 4}[k]
            base, mem = f[i].split("/")
            f[i] = f"{base}/0/0.0.0.0.0.0.0.0/{mem}"
            s = parse_sub(",".join(f))
            st = s.pop("set")
            s["base"], s["members"] = st["base"], st["members"]
        else:
            if k == "DATA":
                f[6] = hx(parse_bytes_spec(f[6]))
            if k == "DFRAG":
                f[10] = hx(parse_bytes_spec(f[10]))
            if k in ("DATA", "DFRAG"):
                qi = 5 if k == "DATA" else 9
                if f[qi] != "-":
                    f[qi] = ";".join(p.split(":")[0] + ":" + hx(parse_bytes_spec(p.split(":")[1])) for p in f[qi].split(";"))
            s = parse_sub(",".join(f))
        subs.append(s)
    return {"h": (unhx(h[1]), unhx(h[2]), unhx(h[3])), "subs": subs}


def parse_rendering(toks):
    """tokens after `ok` -> message with decoded sets as {'base','nb','words','members'}"""
    h = toks[0].split(":")
    return {"h": (unhx(h[1]), unhx(h[2]), unhx(h[3])), "subs": [parse_sub(t) for t in toks[1:]]}


def same_sub(exp, got):
    """field-by-field comparison of an expected (normalised) submessage with a decoded one;
    returns None or a description of the first difference"""
    if exp["k"] != got["k"]:
        return f"kind {exp['k']} decoded as {got['k']}"
    for key, v in exp.items():
        if key in ("base", "members"):
            continue
        if got.get(key) != v:
            return f"{exp['k']}.{key}: expected {v!r}, got {got.get(key)!r}"
    if "base" in exp:
        st = got["set"]
        nb, words = bitmap_of(exp["base"], exp["members"])
        if st["base"] != exp["base"]:
            return f"{exp['k']}.base: expected {exp['base']}, got {st['base']}"
        if st["members"] != exp["members"]:
            return f"{exp['k']}.members: expected {exp['members']}, got {st['members']}"
        if st["nb"] != nb or st["words"] != words:
            return f"{exp['k']}.bitmap: expected numBits {nb} words {words}, got {st['nb']} {st['words']}"
    return None


def content_size(m):
    """octets held by the decoded message in heap containers (same measure as Lean `subsSize`)"""
    n = 0
    for s in m["subs"]:
        if s["k"] in ("DATA", "DFRAG"):
            n += len(s["p"]) + sum(len(v) for _, v in s["qos"])
        elif s["k"] == "IREPLY":
            n += 24 * (len(s["uni"]) + len(s["multi"]))
    return n


# ----------------------------------------------------------------------------- generators

SN_EDGES = [0, 1, -1, 2, 255, 256, 2**31 - 1, 2**31, 2**31 + 1, 2**32 - 1, 2**32, 2**32 + 1, -2**32, -2**32 - 1, 2**33,
            2**63 - 1, 2**63 - 2, 2**63 - 256, 2**63 - 257, -2**63, -2**63 + 1, -2**63 + 255, -2**31, -2**31 - 1]


def gen_sn(r):
    c = r.below(10)
    if c < 4:
        return r.choice(SN_EDGES)
    if c < 6:
        return r.range(-300, 300)
    if c < 8:
        return r.range(I64MIN, I64MAX)
    return (r.range(-3, 3) << 32) + r.choice([0, 1, 2**31 - 1, 2**31, 2**32 - 1])


def gen_u32(r):
    c = r.below(4)
    if c == 0:
        return r.choice([0, 1, 2, 255, 256, 65535, 65536, 2**31 - 1, 2**31, U32MAX, U32MAX - 1, U32MAX - 255, U32MAX - 256])
    if c == 1:
        return r.range(0, 300)
    return r.range(0, U32MAX)


def gen_i32(r):
    c = r.below(4)
    if c == 0:
        return r.choice([0, 1, -1, I32MAX, I32MIN, I32MAX - 1, I32MIN + 1, 255, 256, 65536])
    if c == 1:
        return r.range(-5, 300)
    return r.range(I32MIN, I32MAX)


def gen_u16(r):
    return r.choice([0, 1, 255, 256, 32767, 32768, 65535, 1344]) if r.chance(1, 2) else r.range(0, 65535)


def gen_pattern(r, n):
    b0 = r.below(256)
    return bytes((b0 + i) % 256 for i in range(n))


def gen_payload(r, big=False):
    c = r.below(20)
    if big and c < 6:
        return gen_pattern(r, r.choice([65000, 65400, 65500, 65514, 65515, 65516, 65517, 65535, 65536, 65537, 70000, 131072 + 5]))
    if c < 3:
        return b""
    if c < 8:
        return r.bytes(r.choice([1, 2, 3, 4, 5, 7, 8, 12, 16]))
    if c < 18:
        return r.bytes(r.range(0, 64))
    return gen_pattern(r, r.range(64, 1500))


def gen_qos(r, wf):
    n = r.choice([0, 1, 1, 2, 2, 3, 5])
    out = []
    for _ in range(n):
        c = r.below(10)
        if c < 4:
            pid = r.choice([0, 2, 0x70, 0x71, 0x15, 0x7fff, -1, -32768, 0x8000 - 1, 3])
        else:
            pid = r.range(-32768, 32767)
        if pid == 1 and (wf or r.chance(3, 4)):
            pid = 2
        ln = r.choice([0, 4, 4, 8, 16, 20, 24, 4 * r.range(0, 40)])
        if not wf and r.chance(1, 2):
            ln = r.choice([1, 2, 3, 5, 6, 7, 9, 17])
        out.append((pid, r.bytes(ln)))
    return out


def gen_set(r, wf, fragment):
    """(base, members): members within base..base+255 when wf"""
    lo, hi = (0, U32MAX) if fragment else (I64MIN, I64MAX)
    c = r.below(10)
    if c < 3:
        base = r.choice([x for x in ([0, 1, 2, 255, 2**31, U32MAX - 255, U32MAX - 256, U32MAX - 300, U32MAX, U32MAX - 1] if fragment else SN_EDGES)])
    elif c < 6:
        base = r.range(max(lo, -5), 1000)
    else:
        base = r.range(lo, hi)
    top = min(hi, base + 255)
    span = top - base
    c = r.below(10)
    if c < 2:
        members = []
    elif c < 4:
        members = [base + min(span, d) for d in r.choice([[0], [255], [31], [32], [0, 255], [31, 32, 63, 64], [254, 255], [0, 1, 2]])]
    elif c < 6:
        members = [base + d for d in range(0, min(span, r.choice([7, 32, 33, 64, 200, 255])) + 1) if r.chance(1, 2)]
    else:
        members = [base + r.range(0, span) for _ in range(r.range(1, 12))]
    if not wf:
        extra = r.choice([base + 256, base - 1, base + 300, base + 2**32 + 5, base + 10000])
        if lo <= extra <= hi:
            members.append(extra)
    if r.chance(1, 2):
        members = sorted(set(members))
    return base, members


def gen_eid(r):
    return r.choice([bytes([0, 0, 1, 0xc2]), bytes([0, 0, 1, 0xc7]), bytes([0, 1, 0, 0xc2]), bytes(4), bytes([0xff] * 4)]) if r.chance(1, 2) else r.bytes(4)


def gen_locs(r, mx=3):
    return [(gen_i32(r), gen_u32(r), r.bytes(16)) for _ in range(r.range(0, mx))]


def gen_sub(r, kind=None, wf=True, big=False):
    k = kind or r.choice(["DATA", "DATA", "DATA", "DFRAG", "DFRAG", "GAP", "GAP", "HB", "HB", "ACK", "ACK", "NFRAG", "NFRAG",
                          "IDST", "ITS", "ITS", "HBFRAG", "ISRC", "IREPLY", "PAD"])
    s = {"k": k}
    if k in ("DATA", "DFRAG", "GAP", "HB", "ACK", "NFRAG", "HBFRAG"):
        s["r"], s["w"] = gen_eid(r), gen_eid(r)
    if k == "DATA":
        s.update(q=r.chance(1, 2), d=r.chance(1, 2), key=r.chance(1, 4), n=r.chance(1, 4), sn=gen_sn(r))
        s["qos"] = gen_qos(r, wf) if (s["q"] or (not wf and r.chance(1, 3))) else []
        s["p"] = gen_payload(r, big) if (s["d"] or s["key"] or (not wf and r.chance(1, 3))) else b""
    elif k == "DFRAG":
        s.update(q=r.chance(1, 2), key=r.chance(1, 4), n=r.chance(1, 4), sn=gen_sn(r), fs=gen_u32(r), fis=gen_u16(r), fsz=gen_u16(r),
                 ds=gen_u32(r))
        s["qos"] = gen_qos(r, wf) if (s["q"] or (not wf and r.chance(1, 3))) else []
        s["p"] = gen_payload(r, big)
    elif k == "GAP":
        s["start"] = gen_sn(r)
        s["base"], s["members"] = gen_set(r, wf, False)
    elif k == "HB":
        s.update(f=r.chance(1, 2), l=r.chance(1, 2), first=gen_sn(r), last=gen_sn(r), count=gen_i32(r))
    elif k == "ACK":
        s.update(f=r.chance(1, 2), count=gen_i32(r))
        s["base"], s["members"] = gen_set(r, wf, False)
    elif k == "NFRAG":
        s.update(sn=gen_sn(r), count=gen_i32(r))
        s["base"], s["members"] = gen_set(r, wf, True)
    elif k == "HBFRAG":
        s.update(sn=gen_sn(r), last=gen_u32(r), count=gen_i32(r))
    elif k == "IDST":
        s["prefix"] = r.bytes(12)
    elif k == "ISRC":
        s.update(version=r.bytes(2), vendor=r.bytes(2), prefix=r.bytes(12))
    elif k == "IREPLY":
        m = r.chance(1, 3)
        s.update(m=m, uni=gen_locs(r), multi=gen_locs(r) if (m or (not wf and r.chance(1, 2))) else [])
    elif k == "ITS":
        inv = r.chance(1, 3)
        s.update(inv=inv, sec=gen_u32(r), frac=gen_u32(r))
        if inv and (wf or r.chance(1, 2)):
            s["sec"], s["frac"] = U32MAX, U32MAX
    if wf and not sub_wf(s):        # e.g. body >= 2^16: shrink the payload
        if "p" in s:
            s["p"] = s["p"][:200]
        if "qos" in s and not sub_wf(s):
            s["qos"] = s["qos"][:1]
    return s


def gen_header(r):
    return (r.choice([bytes([2, 3]), bytes([2, 4]), bytes([2, 5]), r.bytes(2)]), r.choice([bytes([1, 20]), r.bytes(2)]), r.bytes(12))


def gen_msg(r, wf=True, big=False, nsubs=None):
    n = nsubs if nsubs is not None else r.choice([0, 1, 1, 1, 2, 2, 3, 4, 6])
    return {"h": gen_header(r), "subs": [gen_sub(r, wf=wf, big=big) for _ in range(n)]}


# ----------------------------------------------------------------------------- byte-level mutation (C07)

EDGE32 = [0, 1, 2, 255, 256, 257, 288, 2**15, 2**16 - 1, 2**16, 2**31 - 1, 2**31, U32MAX, U32MAX - 1, U32MAX - 255]
EDGE16 = [0, 1, 3, 4, 8, 12, 16, 20, 24, 28, 32, 255, 256, 2**15 - 1, 2**15, 2**16 - 1, 2**16 - 4]


def sub_offsets(b):
    """(offset, id, flags, length) of the submessage headers found by following the length fields"""
    out = []
    pos = 20
    while pos + 4 <= len(b) and len(out) < 70000:
        le = b[pos + 1] & 1
        ln = struct.unpack("<H" if le else ">H", b[pos + 2:pos + 4])[0]
        out.append((pos, b[pos], b[pos + 1], ln))
        if pos + 4 + ln > len(b):
            break
        if ln == 0 and b[pos] in (0x15, 0x16):
            break
        pos += 4 + ln
    return out


def mutate(r, b):
    """one structure-aware mutation of a valid encoding; returns (bytes, tag)"""
    b = bytearray(b)
    offs = sub_offsets(bytes(b))
    c = r.below(14)
    if c == 0 or not offs:
        return bytes(b[:r.range(0, len(b))]), "truncate"
    if c == 1:
        for _ in range(r.range(1, 4)):
            i = r.range(0, len(b) - 1)
            b[i] ^= 1 << r.below(8)
        return bytes(b), "bitflip"
    pos, sid, flags, ln = r.choice(offs)
    le = flags & 1
    e = "<" if le else ">"
    if c == 2:      # length field edit
        v = r.choice(EDGE16 + [max(0, ln - 1), ln + 1, max(0, ln - 4), ln + 4, len(b) - pos - 4, max(0, len(b) - pos - 5)]) & 0xFFFF
        b[pos + 2:pos + 4] = struct.pack(e + "H", v)
        return bytes(b), "lenfield"
    if c == 3:      # flags edit (incl. endianness flip without re-encoding)
        b[pos + 1] = r.choice([flags ^ 1, flags ^ 2, flags ^ 4, flags ^ 8, r.below(256), 0xff, 0])
        return bytes(b), "flags"
    if c == 4:      # submessage id swap
        b[pos] = r.choice(list(IDS.values()) + [0, 2, 0x80, 0xff, r.below(256)])
        return bytes(b), "id"
    if c in (5, 6, 7):  # 32-bit field at a 4-aligned offset of the body set to an edge value
        if ln >= 4 and pos + 8 <= len(b):
            o = pos + 4 + 4 * r.below(max(1, min(ln, len(b) - pos - 4) // 4))
            if o + 4 <= len(b):
                b[o:o + 4] = struct.pack(e + "I", r.choice(EDGE32))
        return bytes(b), "field32"
    if c == 8:      # 16-bit field (octetsToInlineQos, parameter length, fragment size ...)
        if ln >= 2 and pos + 6 <= len(b):
            o = pos + 4 + 2 * r.below(max(1, min(ln, len(b) - pos - 4) // 2))
            if o + 2 <= len(b):
                b[o:o + 2] = struct.pack(e + "H", r.choice(EDGE16))
        return bytes(b), "field16"
    if c == 9:      # set header: numBits of GAP / ACKNACK / NACK_FRAG
        o = {0x08: 24, 0x06: 16, 0x12: 20}.get(sid)
        if o is not None and pos + 4 + o + 4 <= len(b):
            b[pos + 4 + o:pos + 8 + o] = struct.pack(e + "I", r.choice([0, 1, 31, 32, 33, 255, 256, 257, 288, 300, 2**16, 2**31, U32MAX]))
            return bytes(b), "numbits"
        return bytes(b), "noop"
    if c == 10:     # delete a slice
        i = r.range(20, len(b) - 1) if len(b) > 21 else 0
        j = min(len(b), i + r.range(1, 12))
        return bytes(b[:i] + b[j:]), "delete"
    if c == 11:     # insert random bytes
        i = r.range(20, len(b))
        return bytes(b[:i] + r.bytes(r.range(1, 12)) + b[i:]), "insert"
    if c == 12:     # duplicate a submessage header in place (overlapping parse)
        return bytes(b[:pos] + b[pos:pos + 4] + b[pos:]), "duphdr"
    # header damage
    i = r.below(20)
    b[i] = r.below(256)
    return bytes(b), "header"


def random_message_bytes(r):
    """random bytes behind a valid header, biased to known submessage ids so the parsers are reached"""
    out = bytearray(header_bytes(gen_header(r)))
    for _ in range(r.range(1, 6)):
        sid = r.choice(list(IDS.values())) if r.chance(4, 5) else r.below(256)
        body = r.bytes(r.choice([0, 4, 8, 12, 16, 20, 24, 28, 32, 36, 40, 48, 64, r.range(0, 80)]))
        ln = r.choice([len(body), len(body), len(body), 0, r.range(0, 100), 65535])
        fl_ = r.below(256)
        out += bytes([sid, fl_]) + struct.pack("<H" if fl_ & 1 else ">H", ln) + body
    return bytes(out)


def nackfrag_panic_cause(b):
    """independent scan of a datagram for the two known panic conditions of FragmentNumberSet decoding;
    follows the submessage walk of the decoder approximately (every 4-aligned position reachable by the
    length fields, plus - because failed parsers are skipped by their length - nothing else)"""
    causes = set()
    pos = 20
    guard = 0
    while pos + 4 <= len(b) and guard < 70000:
        guard += 1
        sid, fl_ = b[pos], b[pos + 1]
        le = fl_ & 1
        e = "<" if le else ">"
        ln = struct.unpack(e + "H", b[pos + 2:pos + 4])[0]
        body = b[pos + 4:]
        if len(body) < ln:
            break
        if sid == 0x12 and len(body) >= 24:
            base, nb = struct.unpack(e + "II", body[16:24])
            m = min((nb + 31) // 32, 8)
            if len(body) >= 24 + 4 * m:
                words = list(struct.unpack(e + f"{m}I", body[24:24 + 4 * m])) + [0] * (8 - m)
                over = any((words[d // 32] >> (31 - d % 32)) & 1 and base + d > U32MAX for d in range(min(nb, 256)))
                if over:
                    causes.add("fragment-number-overflow")
                elif nb > 256:
                    causes.add("fragment-set-numbits-over-256")
        if ln == 0 and sid in (0x15, 0x16):
            # consumed to the end only if the DATA parser succeeded; otherwise the walk continues
            nxt = try_data_like(sid, fl_, body)
            if nxt:
                break
        pos += 4 + ln
    return causes


def try_data_like(sid, fl_, body):
    """does a DATA / DATA_FRAG with length 0 parse (then it swallows the rest)? conservative re-implementation"""
    le = fl_ & 1
    e = "<" if le else ">"
    need = 20 if sid == 0x15 else 32
    if len(body) < need:
        return False
    oti = struct.unpack(e + "H", body[2:4])[0] + 4
    if oti > len(body):
        return False
    if fl_ & 2:
        p = oti
        for _ in range(65536):
            if len(body) - p < 4:
                return False
            pid, ln = struct.unpack(e + "hH", body[p:p + 4])
            p += 4
            if pid == 1:
                break
            if ln % 4 or len(body) - p < ln:
                return False
            p += ln
    return True


# ----------------------------------------------------------------------------- which decoder model applies

D5_EXEMPLAR = bytes.fromhex("525450530203090803030303030303030303030312013c00010203040607080900000000040000000200000"
                            "02c010000000000800000000000000000000000000000000000000000000000000000000003000000")
DW1_EXEMPLAR = bytes.fromhex("525450530203090803030303030303030303030312012000010203040607080900000000040000"
                             "00ffffffff02000000000000c003000000")


DW4_EXEMPLAR = bytes.fromhex("525450530203090803030303030303030303030306011c000102030406070809ffffff7fffffffff02000000000000c001000000")
DW3_PROBE = bytes.fromhex("5254505302030114000000000000000000000000" + "0f01040002000000" * 2 + "0f01040001000000" * 3 + "0f01040000000000" * 3)
DW2_PROBE = "rt H:0203:0908:030303030303030303030303 IREPLY,1,-,1:7400:00000000000000000000000000000000"


def model_suffix(ctx):
    """op suffix `@<letters>` telling the model which repairs the tree under test contains, found by probing the
    implementation with the exemplar of each finding: `5` = D5/D-wire-1 (bdfece3: both exemplars rejected instead of
    panicking), `e` = fixes/D-wire-3.patch (overlapping INFO_REPLY locators no longer decoded), `a` =
    fixes/D-wire-4.patch (the set whose accessor overflows is rejected), `m` = fixes/D-wire-2.patch (INFO_REPLY
    multicast flag written).  The model variant selected this way is the transcription of that tree; a finding
    whose letter is present must be `fixed` in known_findings.json, one whose letter is absent `open`."""
    from vlib.core import run_lines, harness_bin
    rc, out, _ = run_lines([harness_bin("wire")], ["dec " + D5_EXEMPLAR.hex(), "dec " + DW1_EXEMPLAR.hex(),
                                                   "dec " + DW3_PROBE.hex(), "dec " + DW4_EXEMPLAR.hex(), DW2_PROBE], timeout=60)
    letters = ""
    if rc == 0 and len(out) == 5:
        if out[0].startswith("ok") and out[1].startswith("ok"):
            letters += "5"
        if out[2].startswith("ok") and ":" not in out[2].split(" ", 2)[-1].replace("H:", "", 1).split(" ", 1)[-1] and "IREPLY,0,-,-" in out[2]:
            letters += "e"
        if out[3].startswith("ok") and "!" not in out[3]:
            letters += "a"
        if "IREPLY,1," in out[4]:
            letters += "m"
    ctx.count("model@" + (letters or "orig"))
    return "@" + letters if letters else ""
