"""Engine `listen` (C33): scenario generator, canonicaliser, comparison and oracle for the listener dispatch.

Rust side: the `dsim` binary (real code, public API, recording listeners). Lean side: `dustmodel listen`
(Driver/Listen.lean -> Model/Listener.lean).

Scenario sub-language (one op per line, a strict subset of notes/dsim.md):
  participant <n> [listener=<mask>]                       publisher|subscriber <n> <participant> [listener=<mask>]
  topic <n> <participant> <topic name> ki|ni [listener=<mask>]
  writer <n> <publisher> <topic> reliability=reliable|best_effort [deadline=<ns>|inf] history=keep_all [listener=<mask>]
  reader <n> <subscriber> <topic> reliability=.. [deadline=..] history=keep_all [max_samples=<k> max_spi=<k>] [listener=<mask>]
  listeners <entity> <mask> [off]   (= set_listener at ANY time: `off` removes the listener, the mask is given either way)
  coalesce-next 1 DATA user              (the next two user DATA datagrams travel as one RTPS message: one processing pass, two changes)
  write <writer> 1 <value>        advance <ns>
  log        matched <writer|reader>        read <reader>        status <topic> inconsistent_topic

Canonical answers (the implementation's answers are rewritten into this form by `canon`, the model prints it directly):
  creations           `ok *`                     (the handle is a wildcard; it is remembered to name callback sources)
  log                 `ok <k> | <owner>.<callback> src=<entity name> x<count> | ...`  sorted; the count is `+` for
                      deadline callbacks (how many periods fall into a window is the business of C30); every other
                      callback is compared with its exact multiplicity
  matched             `ok <n> <sorted entity names>`
  read                `ok <n>` (number of samples) or `err:NoData`
  status              `ok total=<n>`
  everything else     verbatim
"""
from vlib.core import Case, run_cases, harness_bin, model_bin, case_hash, shrink_case
from vlib.dsim_common import dsim_env, is_ok, parse_bar_list
import os

ENGINE = "listen"
STATUSES = ["inconsistent_topic", "offered_deadline_missed", "requested_deadline_missed", "offered_incompatible_qos",
            "requested_incompatible_qos", "sample_lost", "sample_rejected", "data_on_readers", "data_available",
            "liveliness_lost", "liveliness_changed", "publication_matched", "subscription_matched"]
REPEATING = ("deadline_missed",)
CREATE = ("participant", "publisher", "subscriber", "topic", "writer", "reader")
MS = 1000000


def parse_mask(m):
    if m in ("none", "-"):
        return set()
    if m == "all":
        return set(STATUSES)
    return set(m.split(","))


def fmt_mask(s):
    s = set(s)
    if not s:
        return "none"
    if s == set(STATUSES):
        return "all"
    return ",".join(x for x in STATUSES if x in s)


# ----------------------------------------------------------------------------- canonicaliser

def canon(lines, outs):
    """rewrite the implementation's answers into the canonical form of the module doc"""
    names = {}   # handle -> entity name
    res = []
    for l, o in zip(lines, outs):
        t = l.split()
        if not t:
            res.append(o)
            continue
        if t[0] in CREATE and is_ok(o) and len(o.split()) == 2:
            names[o.split()[1]] = t[1]
            res.append("ok *")
        elif t[0] == "log" and is_ok(o):
            items = parse_bar_list(o)
            cnt = {}
            for it in items:
                f = it.split()
                src = next((x[4:] for x in f if x.startswith("src=")), "?")
                key = f"{f[0]} src={names.get(src, src)}"
                cnt[key] = cnt.get(key, 0) + 1
            ks = sorted(cnt)
            ent = [f"{k} x+" if any(r in k for r in REPEATING) else f"{k} x{cnt[k]}" for k in ks]
            res.append("ok 0" if not ent else f"ok {len(ent)} | " + " | ".join(ent))
        elif t[0] == "matched" and is_ok(o):
            f = o.split()
            res.append(" ".join(["ok", f[1]] + sorted(names.get(h, h) for h in f[2:])))
        elif t[0] == "read" and is_ok(o):
            res.append("ok " + o.split()[1])
        elif t[0] == "status" and is_ok(o):
            res.append("ok " + next(x for x in o.split() if x.startswith("total=")))
        else:
            res.append(o)
    return res, names


# ----------------------------------------------------------------------------- specification used by the oracle

class Shadow:
    """what the oracle needs to know about the scenario: who is whose parent, and the listener slots over time
    (taken from the op lines and the ok/err answers only; never from the model)"""
    def __init__(self):
        self.kind, self.parent, self.slot, self.topic_of, self.tinfo = {}, {}, {}, {}, {}

    def apply(self, t, o):
        if t[0] in CREATE and is_ok(o):
            plain = [x for x in t[1:] if "=" not in x]
            kv = dict(x.split("=", 1) for x in t[1:] if "=" in x)
            n = plain[0]
            self.kind[n] = t[0]
            self.parent[n] = plain[1] if len(plain) > 1 else None
            self.slot[n] = (True, parse_mask(kv["listener"])) if "listener" in kv else (False, set())
            if t[0] in ("writer", "reader"):
                self.topic_of[n] = plain[2]
            if t[0] == "topic":
                self.tinfo[n] = (plain[2], plain[3])
        elif t[0] == "listeners" and o == "ok":
            self.slot[t[1]] = (not (len(t) > 3 and t[3] == "off"), parse_mask(t[2]))

    def chain(self, src):
        """[(owner name, installed, mask)] from the most specific level outwards"""
        k = self.kind.get(src)
        if k in ("writer", "reader"):
            g = self.parent[src]
            p = self.parent[g]
            names = [src, g, p]
        elif k == "topic":
            names = [src, self.parent[src]]
        elif k == "subscriber":
            names = [src]
        else:
            names = [src]
        return [(n,) + self.slot[n] for n in names]


def spec_receiver(sh, cb, src):
    """DDS 1.4 2.2.4.2.3: the listener a status change about `src` must go to; returns (owner or None, callback).
    New data: data_on_readers on the subscriber when its mask enables it, data_available otherwise."""
    status = cb[3:]
    if status in ("data_available", "data_on_readers"):
        reader = src if sh.kind.get(src) == "reader" else None
        sub = sh.parent[reader] if reader else src
        if "data_on_readers" in sh.slot[sub][1]:
            return (sub, "on_data_on_readers")
        if reader is None:
            return (None, cb)
        for n, inst, mask in sh.chain(reader):
            if "data_available" in mask:
                return (n, "on_data_available")
        return (None, "on_data_available")
    for n, inst, mask in sh.chain(src):
        if status in mask:
            return (n, cb)
    return (None, cb)


def oracle(case, out):
    """checks on the IMPLEMENTATION output alone (independent of the Lean model):
      O1 every recorded callback went to the level the DDS rule names (and to an installed listener);
      O2 no status change is notified twice: equal (callback, source, status fields) entries, and more
         inconsistent-topic notifications than there are offending remote endpoints;
      O3 an observable status change (matched endpoint, readable sample) whose rule names an installed listener
         did produce a callback."""
    viol = []
    sh = Shadow()
    names = {}
    seen_fields = {}      # (cb, src, fields) -> count, over the whole case
    got = {}              # (cb, src) -> owners since the start
    n_incons = {}
    snap = None           # listener slots in force at the latest `log` (= at the events it recorded, by construction of the cases)
    since_probe = {}      # (cb, entity) -> callbacks logged since the previous `matched` probe of that entity
    prev_matched = {}     # entity -> matched count at its previous probe
    for l, o in zip(case.lines, out):
        t = l.split()
        if not t:
            continue
        if o in ("PANIC", "HANG", "CRASH", "POISONED") or o.startswith("CRASH"):
            viol.append({"what": f"`{l}` answered {o}", "op": l})
            return viol
        if t[0] in CREATE and is_ok(o) and len(o.split()) == 2:
            names[o.split()[1]] = t[1]
        if t[0] == "matched" and is_ok(o) and t[1] in sh.kind:
            # O3a (also with set_listener steps): every NEW match since the previous probe produced exactly one callback at the
            # receiver the rule names for the configuration in force when it was logged; none is lost at a listener-less level
            e, n = t[1], int(o.split()[1])
            cb = "on_publication_matched" if sh.kind[e] == "writer" else "on_subscription_matched"
            new = n - prev_matched.get(e, 0)
            prev_matched[e] = n
            have = since_probe.pop((cb, e), 0)
            if new > 0 and snap is not None:
                saved, sh.slot = sh.slot, snap
                want, _ = spec_receiver(sh, cb, e)
                installed = want is not None and sh.slot[want][0]
                sh.slot = saved
                if installed and have != new:
                    viol.append({"what": f"{e} has {new} new matched endpoint(s); the rule names {want}.{cb}; {have} callback(s) were made",
                                 "op": l, "cause": "matched-callback-count"})
        if t[0] == "log" and is_ok(o):
            snap = {k: (v[0], set(v[1])) for k, v in sh.slot.items()}
            for it in parse_bar_list(o):
                f = it.split()
                owner, cb = f[0].split(".")
                srch = next((x[4:] for x in f if x.startswith("src=")), "?")
                src = names.get(srch, srch)
                since_probe[(cb, src)] = since_probe.get((cb, src), 0) + 1
                fields = " ".join(x for x in f[1:] if not x.startswith("t=") and not x.startswith("src="))
                want, wcb = spec_receiver(sh, cb, src)
                if (owner, cb) != (want, wcb):
                    viol.append({"what": f"{it.split(' t=')[0]} about {src}: the rule names {want}.{wcb}", "op": l,
                                 "cause": "callback-at-wrong-level"})
                elif not sh.slot[owner][0]:
                    viol.append({"what": f"{owner} has no listener installed but got {cb}", "op": l, "cause": "callback-without-listener"})
                got.setdefault((cb, src), []).append(owner)
                if fields:
                    k = (cb, src, fields.replace("dtotal=1", "dtotal=0"))
                    seen_fields[k] = seen_fields.get(k, 0) + 1
                    if seen_fields[k] == 2:
                        if "incompatible_qos" in cb:
                            viol.append({"what": f"{cb} about {src} delivered again although the status did not change ({fields})",
                                         "op": l, "cause": "incompatible-qos-renotified-every-worker-iteration"})
                        else:
                            viol.append({"what": f"{cb} about {src} delivered twice for one status change ({fields})", "op": l,
                                         "cause": "duplicate-callback"})
                if cb == "on_inconsistent_topic":
                    n_incons[src] = n_incons.get(src, 0) + 1
                    tn, ty = sh.tinfo[src]
                    # DDS: total_count = number of discovered topics of the same name whose type is inconsistent; the code
                    # identifies them by their type, so: distinct other types under this name in OTHER participants
                    offending = len(set(i2[1] for t2, i2 in sh.tinfo.items()
                                        if i2[0] == tn and i2[1] != ty and sh.parent[t2] != sh.parent[src]))
                    if n_incons[src] == offending + 1:
                        viol.append({"what": f"topic {src}: {n_incons[src]} inconsistent-topic notifications for {offending} inconsistent remote topic type(s)",
                                     "op": l, "cause": "inconsistent-topic-recounted-every-worker-iteration"})
        sh.apply(t, o)
    # O3 on the whole case (masks constant: no `listeners` op in the case): every matched / data event has its callback
    if not any(x.split()[:1] == ["listeners"] for x in case.lines):
        logged = any(x.split()[:1] == ["log"] for x in case.lines)
        last_log = max((i for i, x in enumerate(case.lines) if x.split()[:1] == ["log"]), default=-1)
        for i, (l, o) in enumerate(zip(case.lines, out)):
            t = l.split()
            if not t or not logged:
                continue
            # the probe is only meaningful when a `log` was taken after the event it observes
            last_event = max((j for j in range(i) if case.lines[j].split()[:1] in (["write"], ["writer"], ["reader"])), default=-1) \
                if t[0] in ("read", "status") else i
            if last_log < last_event:
                continue
            if t[0] == "status" and is_ok(o) and " total=0 " not in o + " ":
                tp = t[1]
                want, wcb = spec_receiver(sh, "on_inconsistent_topic", tp)
                if want is not None and sh.slot[want][0] and not got.get(("on_inconsistent_topic", tp)):
                    viol.append({"what": f"topic {tp} reports {o}; the rule names {want}.on_inconsistent_topic; no callback was made",
                                 "op": l, "cause": "topic-listener-never-invoked" if want == tp else "inconsistent-topic-callback-missing"})
            if t[0] == "read" and is_ok(o) and int(o.split()[1]) > 0:
                r = t[1]
                want, wcb = spec_receiver(sh, "on_data_available", r)
                src = sh.parent[r] if wcb == "on_data_on_readers" else r
                n = len(got.get((wcb, src), []))
                if want is not None and sh.slot[want][0] and n == 0:
                    cause = "data-available-not-propagated" if (wcb == "on_data_available" and want != r) else "data-callback-missing"
                    viol.append({"what": f"{r} holds {o.split()[1]} sample(s); the rule names {want}.{wcb}; no callback was made",
                                 "op": l, "cause": cause})
    return viol


# ----------------------------------------------------------------------------- generator

EVENTS = ["matched", "incompatible", "inconsistent", "data", "rejected", "deadline", "burst"]
EVENT_STATUSES = {
    "matched": ["publication_matched", "subscription_matched"],
    "incompatible": ["offered_incompatible_qos", "requested_incompatible_qos"],
    "inconsistent": ["inconsistent_topic"],
    "data": ["data_available", "data_on_readers"],
    "rejected": ["sample_rejected", "data_available"],
    "deadline": ["offered_deadline_missed", "requested_deadline_missed"],
    "burst": ["data_available", "data_on_readers"],
}


def gen_mask(r, focus):
    """a mask biased towards the statuses of the event under test"""
    c = r.below(10)
    if c < 2:
        return set()
    if c < 4:
        return set(STATUSES)
    if c < 6:
        return set(r.choice([focus, [r.choice(focus)]]))
    if c < 8:
        return set(STATUSES) - set([r.choice(focus)])
    return set(x for x in STATUSES if r.chance(1, 3)) | (set([r.choice(focus)]) if r.chance(1, 2) else set())


def scenario(r, event, place, masks=None, same_participant=False, late=None, nil=None, second_writer=False, relisten=None):
    """place: dict level -> bool (listener installed at creation) for the six levels
       w pub P1 r sub P2 (+ t1 t2 for topics); masks: dict level -> set; late: set of levels whose listener is
       installed by a `listeners` op after creation; nil: levels that get `listeners <e> <mask> off`;
       relisten: level -> (mask, off): the entity is created WITH its listener and later reconfigured by set_listener
       (groups / participants before the endpoints exist, the first endpoint before the second one is created, the second
       endpoint after the match) — the events that follow must obey the NEW configuration"""
    focus = EVENT_STATUSES[event]
    lv = ["P1", "P2", "pub", "sub", "w", "r", "t1", "t2"]
    masks = masks or {}
    late = late or set()
    nil = nil or set()
    relisten = relisten or {}
    m = {x: masks.get(x, gen_mask(r, focus)) for x in lv}

    def lopt(x):
        if place.get(x) and x not in late and x not in nil:
            return f" listener={fmt_mask(m[x])}"
        return ""
    p2 = "P1" if same_participant else "P2"
    ty2 = "ni" if event == "inconsistent" else "ki"
    wq = "reliability=reliable history=keep_all"
    rq = "reliability=reliable history=keep_all"
    if event == "incompatible":
        if r.chance(1, 2):
            wq = "reliability=best_effort history=keep_all"
        else:
            wq = f"reliability=reliable deadline={r.choice([2, 5, 10]) * 100 * MS} history=keep_all"
            rq = f"reliability=reliable deadline={100 * MS} history=keep_all"
    if event == "rejected":
        k = r.choice([1, 1, 2])
        rq = f"reliability={r.choice(['reliable', 'best_effort'])} history=keep_all max_samples={k} max_spi={k}"
    dl = None
    if event == "deadline":
        dl = r.choice([60, 100, 100, 250, 1000]) * MS
        rdl = dl if r.chance(2, 3) else dl * 2
        wq = f"reliability=reliable deadline={dl} history=keep_all"
        rq = f"reliability={r.choice(['reliable', 'best_effort'])} deadline={rdl} history=keep_all"
    lines = [f"participant P1{lopt('P1')}"]
    if not same_participant:
        lines.append(f"participant P2{lopt('P2')}")
    lines.append(f"topic t1 P1 T ki{lopt('t1')}")
    if not same_participant or event == "inconsistent":
        # a second topic entity with the same name in ONE participant is refused; the inconsistent family needs two participants
        if same_participant:
            lines.insert(1, f"participant P2{lopt('P2')}")
            p2 = "P2"
            same_participant = False
        lines.append(f"topic t2 {p2} T {ty2}{lopt('t2')}")
        if event == "inconsistent":
            # the inconsistency is detected at topic discovery already: record it before any listener configuration changes
            lines.append("log")
    t2 = "t1" if same_participant else "t2"
    lines.append(f"publisher pub P1{lopt('pub')}")
    lines.append(f"subscriber sub {p2}{lopt('sub')}")
    first_reader = r.chance(1, 3)
    wl = f"writer w pub t1 {wq}{lopt('w')}"
    rl = f"reader r sub {t2} {rq}{lopt('r')}"
    pre = []
    for x in lv:
        if x in ("t1", "t2") or (same_participant and x == "P2"):
            continue
        if place.get(x) and x in late:
            pre.append(f"listeners {x} {fmt_mask(m[x])}")
        elif x in nil:
            pre.append(f"listeners {x} {fmt_mask(m[x])} off")
    early = event in ("matched", "incompatible", "inconsistent")
    # for creation-time events the `listeners` ops of the groups / participants must come before the endpoints exist
    pre_groups = [x for x in pre if x.split()[1] not in ("w", "r")]
    pre_ends = [x for x in pre if x.split()[1] in ("w", "r")]

    def relisten_op(x):
        mk, off = relisten[x]
        return f"listeners {x} {fmt_mask(mk)}" + (" off" if off else "")
    pre_groups += [relisten_op(x) for x in ("P1", "P2", "pub", "sub") if x in relisten and place.get(x)
                   and x not in late and x not in nil and not (same_participant and x == "P2")]
    first, second = ("r", "w") if first_reader else ("w", "r")
    lines += pre_groups
    lines.append(rl if first_reader else wl)
    if first in relisten and place.get(first) and first not in late and first not in nil:
        lines.append(relisten_op(first))
    lines.append(wl if first_reader else rl)
    if second in relisten and place.get(second) and second not in late and second not in nil:
        pre_ends.append(relisten_op(second))
    if second_writer:
        lines.append(f"writer w2 pub t1 {wq}")
    lines.append("log")
    lines += ["matched w", "matched r"]
    # a `log` after every `listeners` op: an incompatible / inconsistent pair is re-notified by the worker iteration
    # of ANY API call, and the oracle judges each window by the masks in force at its `log`
    for x in pre_ends:
        lines += ["log", x]
    if pre_ends:
        lines.append("log")
    if event == "burst":
        # several new-data changes in ONE processing pass: two DATA datagrams coalesced into one RTPS message
        lines += ["coalesce-next 1 DATA user", "write w 1 1", "log", "write w 1 2", "log", "read r"]
        if r.chance(1, 2):
            lines += ["coalesce-next 1 DATA user", "write w 1 3", "write w 1 4", "log", "write w 1 5", "log", "read r"]
    elif event in ("data", "rejected"):
        n = r.range(1, 3)
        for i in range(n):
            lines.append(f"write w 1 {i}")
            if r.chance(1, 2) or i == n - 1:
                lines.append("log")
        if second_writer:
            lines += ["write w2 1 9", "log"]
        lines.append("read r")
    elif event == "deadline":
        # phase A: samples keep arriving within the period -> no callback; phase B: one silent window, then only `log`
        # (no API op after a miss: the number of repeats of the as-is reader check, D35, is not this property's business)
        lines.append("write w 1 0")
        lines.append("log")
        for i in range(r.below(3)):
            lines += [f"advance {r.choice([dl // 2, dl - 1, dl, dl // 3])}", f"write w 1 {i + 1}", "log"]
        c = r.below(6)
        adv = [dl - 1, dl, dl + 1, dl + 30 * MS, 2 * dl + 10 * MS, dl // 2][c]
        lines.append(f"advance {adv}")
        lines.append("log")
    elif event in ("incompatible", "inconsistent"):
        if r.chance(1, 2):
            lines += [f"advance {r.choice([10, 60, 120]) * MS}", "log"]
        lines += ["status t1 inconsistent_topic", "status t2 inconsistent_topic"] if not same_participant else ["status t1 inconsistent_topic"]
        lines.append("log")
    else:
        if r.chance(1, 3):
            lines += ["write w 1 7", "log", "read r"]
    return lines


def corpus():
    """all 2^3 listener placements (every installed listener has mask `all`, the others none) x every event family,
    on the writer side and the reader side at once; plus the exemplars of the known findings"""
    from vlib.core import SplitMix64
    cs = []
    # seed C33_c: DATA_ON_READERS on the subscriber, DATA_AVAILABLE on the reader, two samples in one pass: BOTH are data-on-readers
    cs.append(Case(["participant P1", "participant P2 listener=data_available", "topic t1 P1 T ki", "topic t2 P2 T ki",
                    "publisher pub P1", "subscriber sub P2 listener=data_on_readers",
                    "writer w pub t1 reliability=reliable history=keep_all",
                    "reader r sub t2 reliability=reliable history=keep_all listener=data_available", "log",
                    "coalesce-next 1 DATA user", "write w 1 1", "log", "write w 1 2", "log", "read r", "write w 1 3", "log"],
                   {"event": "burst", "exemplar": "seed C33_c"}))
    # seed C33_d: the writer's listener is removed by set_listener(None, NO_STATUS); the match must reach the publisher's listener,
    # then (publisher listener removed too) the participant's
    cs.append(Case(["participant P1 listener=all", "participant P2", "topic t1 P1 T ki", "topic t2 P2 T ki",
                    "publisher pub P1 listener=all", "subscriber sub P2",
                    "writer w pub t1 reliability=reliable history=keep_all listener=publication_matched,offered_deadline_missed,offered_incompatible_qos",
                    "listeners w none off",
                    "reader r sub t2 reliability=reliable history=keep_all", "log", "matched w",
                    "listeners pub none off",
                    "reader r2 sub t2 reliability=reliable history=keep_all", "log", "matched w"],
                   {"event": "matched", "exemplar": "seed C33_d"}))
    for ev in EVENTS:
        for bits in range(8):
            r = SplitMix64(1000 + bits)
            place = {"w": bits & 1, "r": bits & 1, "pub": bits & 2, "sub": bits & 2, "P1": bits & 4, "P2": bits & 4,
                     "t1": bits & 1, "t2": bits & 1}
            masks = {x: set(STATUSES) - {"data_on_readers"} for x in place}
            cs.append(Case(scenario(r, ev, place, masks), {"event": ev, "place": bits}))
    # D38 exemplar: DATA_AVAILABLE enabled on subscriber and participant only
    cs.append(Case(["participant P1", "participant P2 listener=data_available", "topic t1 P1 T ki", "topic t2 P2 T ki",
                    "publisher pub P1", "subscriber sub P2 listener=data_available",
                    "writer w pub t1 reliability=reliable history=keep_all",
                    "reader r sub t2 reliability=reliable history=keep_all", "log", "write w 1 1", "log", "read r"],
                   {"event": "data", "exemplar": "D38"}))
    # data_on_readers wins over the reader's data_available; a nil listener swallows it
    cs.append(Case(["participant P1 listener=all", "topic t1 P1 T ki", "publisher pub P1", "subscriber sub P1 listener=data_on_readers",
                    "writer w pub t1 reliability=reliable history=keep_all",
                    "reader r sub t1 reliability=reliable history=keep_all listener=data_available", "write w 1 1", "log",
                    "listeners sub data_on_readers off", "write w 1 2", "log", "listeners sub none off", "write w 1 3", "log", "read r"],
                   {"event": "data"}))
    # D62 exemplar: incompatible QoS re-notified
    cs.append(Case(["participant P1 listener=all", "participant P2 listener=all", "topic t1 P1 T ki", "topic t2 P2 T ki",
                    "publisher pub P1", "subscriber sub P2", "writer w pub t1 reliability=best_effort history=keep_all",
                    "reader r sub t2 reliability=reliable history=keep_all", "log", "advance 120000000", "log"],
                   {"event": "incompatible", "exemplar": "D62"}))
    # D-listen-2 regression: the inconsistent type is reported once per topic at topic discovery; the endpoints created
    # afterwards (two writers, one reader) and 120 ms of worker iterations add nothing: total stays 1 on both topics
    cs.append(Case(["participant P1 listener=all", "participant P2 listener=all", "topic t1 P1 T ki", "topic t2 P2 T ni",
                    "publisher pub P1", "subscriber sub P2", "writer w pub t1 reliability=reliable history=keep_all",
                    "reader r sub t2 reliability=reliable history=keep_all", "writer w2 pub t1 reliability=reliable history=keep_all",
                    "log", "advance 120000000", "log", "status t1 inconsistent_topic", "status t2 inconsistent_topic", "log"],
                   {"event": "inconsistent", "exemplar": "D-listen-2"}))
    return cs


def gen_case(r):
    ev = r.choice(EVENTS)
    bits = r.below(64)
    place = {"w": bits & 1, "pub": bits & 2, "P1": bits & 4, "r": bits & 8, "sub": bits & 16, "P2": bits & 32,
             "t1": r.chance(1, 2), "t2": r.chance(1, 2)}
    late = set(x for x in ("w", "r", "pub", "sub", "P1", "P2") if place.get(x) and r.chance(1, 6))
    nil = set(x for x in ("w", "r", "pub", "sub", "P1", "P2") if not place.get(x) and r.chance(1, 8))
    relisten = {}
    for x in ("w", "r", "pub", "sub", "P1", "P2"):
        if place.get(x) and x not in late and r.chance(1, 4):
            c = r.below(4)
            relisten[x] = (set(), True) if c == 0 else (gen_mask(r, EVENT_STATUSES[ev]), c == 1)
    masks = None
    if ev == "burst":
        place["sub"] = place.get("sub") or r.chance(2, 3)
        place["r"] = place.get("r") or r.chance(2, 3)
        masks = {}
        if r.chance(2, 3):
            masks["sub"] = gen_mask(r, ["data_on_readers"]) | {"data_on_readers"}
        if r.chance(2, 3):
            masks["r"] = gen_mask(r, ["data_available"]) | {"data_available"}
    return Case(scenario(r, ev, place, masks, same_participant=r.chance(1, 4), late=late, nil=nil,
                         second_writer=r.chance(1, 6) and ev != "burst", relisten=relisten), {"event": ev, "place": bits})


# ----------------------------------------------------------------------------- differential run with canonicalisation

def nontrivial(case, cout):
    """RULE: at least one `log` answer of the case records a callback"""
    return any(l.split()[:1] == ["log"] and o.startswith("ok") and not o.startswith("ok 0") for l, o in zip(case.lines, cout))


def run_differential(ctx, cases, jobs=16):
    env = dict(os.environ)
    env.update(dsim_env(jobs, 120000))
    impl, _ = run_cases([harness_bin("dsim")], cases, timeout=1500, env=env)
    model, bad_m = run_cases([model_bin(), ENGINE], cases)
    if bad_m is not None:
        ctx.disagreements.append({"what": "model driver crashed (model bug, not evidence about the code)",
                                  "ops": cases[bad_m[0]].lines, "detail": str(bad_m[1:])})
    for c, io, mo in zip(cases, impl, model):
        ctx.stats["evaluations"] += 1
        co, _ = canon(c.lines, io)
        nt = nontrivial(c, co)
        h = case_hash(c.lines)
        if nt and h not in ctx._seen:
            ctx._seen.add(h)
            ctx.stats["distinct_nontrivial"] += 1
        if len(ctx.samples) < 8 and nt:
            ctx.samples.append({"ops": c.lines[:16], "impl": co[:16]})
        ctx.count("event:" + str(c.meta.get("event")))
        for l, o in zip(c.lines, co):
            if l == "log" and o != "ok 0":
                for it in o.split(" | ")[1:]:
                    ctx.count("cb:" + it.split()[0].split(".")[1])
        if any(o == "bad-op" for o in mo):
            k = mo.index("bad-op")
            ctx.disagreements.append({"what": "generator left the modelled sub-language (bad-op from the model)", "ops": c.lines, "at": k,
                                      "impl": co[k] if k < len(co) else None, "model": "bad-op"})
        elif co != mo:
            k = next((i for i in range(min(len(co), len(mo))) if co[i] != mo[i]), min(len(co), len(mo)))
            d = {"what": "model and implementation differ", "ops": c.lines, "at": k,
                 "impl": co[k] if k < len(co) else None, "model": mo[k] if k < len(mo) else None,
                 "impl_raw": io[k] if k < len(io) else None}
            ctx.disagreements.append(d)
        for v in oracle(c, io) or []:
            v.setdefault("ops", c.lines)
            ctx.violations.append(v)
    return impl
