"""Shared generator / spec for the `match` engine (RxO compatibility C15, QoS rules C37)."""
from vlib.core import Case

ENGINE = "match"
DURS = ["0:0", "0:1", "0:999999999", "1:0", "1:1", "2:0", "10:500000000", "2147483647:0", "inf"]


def dur_key(s):
    if s == "inf":
        return (1, 0, 0)
    a, b = s.split(":")
    return (0, int(a), int(b))


def gen_dur(r, p_inf=25):
    c = r.below(100)
    if c < p_inf:
        return "inf"
    if c < 70:
        return r.choice(DURS[:-1])
    return f"{r.choice([0, 1, 2, 5, 100, 2147483646])}:{r.below(1000000000)}"


def gen_repr(r):
    c = r.below(10)
    if c < 3:
        return "-"
    if c < 6:
        return r.choice(["0", "2", "1"])
    return ",".join(str(x) for x in r.shuffle([0, 2, 1])[: r.range(1, 3)])


def gen_end(r, base=None):
    d = {"dur": r.below(4), "scope": r.below(2), "coh": r.below(2), "ord": r.below(2), "dl": gen_dur(r), "lat": gen_dur(r, 10),
         "livk": r.below(3), "lease": gen_dur(r, 40), "rel": r.below(2), "do": r.below(2), "own": r.below(2), "repr": gen_repr(r)}
    if base is not None:
        # stay close to `base`: change 0-3 fields only (so that mostly-compatible pairs are common)
        e = dict(base)
        for k in r.shuffle(list(d))[: r.range(0, 3)]:
            e[k] = d[k]
        return e
    return d


ORDER = ["dur", "scope", "coh", "ord", "dl", "lat", "livk", "lease", "rel", "do", "own", "repr"]


def fmt_end(e):
    return " ".join(f"{k}={e[k]}" for k in ORDER)


def parse_end(toks):
    return dict(t.split("=") for t in toks)


def spec_incompat(w, r):
    """DDS 1.4 table 2.2.3 (RxO) + XTypes 1.3 7.6.3.1.1; returns the set of policy ids that are incompatible"""
    out = set()
    if int(w["dur"]) < int(r["dur"]):
        out.add(2)
    if int(w["scope"]) < int(r["scope"]) or (r["coh"] == "1" and w["coh"] != "1") or (r["ord"] == "1" and w["ord"] != "1"):
        out.add(3)
    if dur_key(w["dl"]) > dur_key(r["dl"]):
        out.add(4)
    if dur_key(w["lat"]) > dur_key(r["lat"]):
        out.add(5)
    if w["own"] != r["own"]:
        out.add(6)
    if int(w["livk"]) < int(r["livk"]) or dur_key(w["lease"]) > dur_key(r["lease"]):
        out.add(8)
    if int(w["rel"]) < int(r["rel"]):
        out.add(11)
    if int(w["do"]) < int(r["do"]):
        out.add(12)
    offered = 0 if w["repr"] == "-" else int(w["repr"].split(",")[0])
    accepted = [0] if r["repr"] == "-" else [int(x) for x in r["repr"].split(",")]
    if offered not in accepted:
        out.add(23)
    return out


def parse_ids(s):
    return set() if s == "-" else set(int(x) for x in s.split(","))


# ---- entity QoS (consistency / immutability)
EORDER = ["dur", "livk", "lease", "rel", "mbt", "do", "depth", "ms", "mi", "mspi", "own", "dl", "minsep", "repr", "ud"]


def gen_len(r, p_unl=40):
    return "-" if r.below(100) < p_unl else str(r.choice([0, 1, 1, 2, 2, 3, 4, 5, 10, 2147483647]))


def gen_ent(r, base=None):
    d = {"dur": r.below(4), "livk": r.below(3), "lease": gen_dur(r, 50), "rel": r.below(2), "mbt": gen_dur(r, 10), "do": r.below(2),
         "depth": "all" if r.chance(1, 4) else str(r.choice([0, 1, 1, 2, 3, 4, 5, 10, 11])), "ms": gen_len(r), "mi": gen_len(r),
         "mspi": gen_len(r), "own": r.below(2), "dl": gen_dur(r, 40), "minsep": gen_dur(r, 10), "repr": gen_repr(r),
         "ud": r.choice(["a", "b", "abc", "x"])}
    if base is not None:
        e = dict(base)
        for k in r.shuffle(list(d))[: r.range(0, 2)]:
            e[k] = d[k]
        return e
    return d


def fmt_ent(e):
    return " ".join(f"{k}={e[k]}" for k in EORDER)


def len_key(s):
    return (1, 0) if s == "-" else (0, int(s))
