"""C11 end to end (engine `handle`): the instance handle the READER presents for a sample equals the handle the WRITER
assigned to it, whether or not the key hash travelled in the message.

Rust side: the `dsim` scenario interpreter (binary `handle` = `dsim`, notes/dsim.md) with two participants; a small
`config frag=<f>` makes samples whose serialised size exceeds `f` travel as DATA_FRAG — which carries NO inline
PID_KEY_HASH, so the reader glue (communication_methods.rs:218-276) must derive the handle from the payload — while
small samples and (except at `frag=8`) dispose / unregister travel as DATA with the key hash.
Test types: `ki` {#[key] id: i32, value: i32}, `kb` {#[key] id, value: bytes}, `bk` {value: bytes, #[key] id} (key NOT
first), `kk` {#[key] a: i32, value: bytes, #[key] b: i16} (two keys around the payload; scenario id k = (a=k, b=kk_b(k))),
`nb` {value: bytes} (keyless: the one all-zero handle). The harness prints `h(<id>)` only when the 16 handle bytes are
exactly the expected big-endian key layout of that type, raw hex otherwise.

Lean side: Model/HandleE2E.lean + Props/C11E2E.lean (`C11_reader_choice_agrees`, parametric in the data model) and the
stateless driver `dustmodel handle` (`whandle <ty> <id>` = expected handle bytes; used by `c11_e2e_crosscheck`).

Use from a property module:
    cases = c11_e2e_cases(ctx.rng, ctx.tier)
    outs  = run_cases([harness_bin("handle")], cases)      # or ctx.differential-free: oracle only
    for c, o in zip(cases, outs): violations += c11_e2e_oracle(c, o)
"""
from vlib.core import Case
from vlib.dsim_common import parse_samples, is_ok

ENGINE = "handle"
BINS = ["dsim", "handle"]
KEYED = ("ki", "kb", "bk", "kk")
TYPES = ("ki", "kb", "bk", "kk", "nb")
IDS = [0, 1, 2, 7, 300, -1, 100000, 65536]
FRAGS = [8, 16, 32, 64, 256, 1000]


def kk_b(k):
    return (k * 3) % 1000 + 1


def expected_handle(ty, k):
    """the 16 handle bytes (hex) of scenario id k for a test type: key members in declaration order, big-endian at their
    alignment, zero padded (keys of at most 16 bytes are not hashed)"""
    if ty not in KEYED:
        return "00" * 16
    b = (k & 0xFFFFFFFF).to_bytes(4, "big")
    if ty == "kk":
        b += (kk_b(k) & 0xFFFF).to_bytes(2, "big")
    return (b + bytes(16 - len(b))).hex()


def value_token(r, ty, frag):
    """a value whose serialised sample is below, at or above the fragment size"""
    if ty == "ki":
        return str(r.range(-5, 5))
    c = r.below(10)
    if c < 2:
        n = r.choice([0, 1, 2])
    elif c < 7:
        n = max(0, frag + r.range(-14, 6))
    else:
        n = r.choice([2 * frag, 3 * frag + 1, frag * 5 + 3])
    return f"len:{n}:{r.below(250)}" if n > 16 else ("-" if n == 0 else "".join(f"{r.below(256):02x}" for _ in range(n)))


def c11_e2e_case(r, ty=None, frag=None, rel=None, nops=None):
    ty = ty or r.choice(["bk", "bk", "kk", "kk", "kb", "ki", "nb"])
    frag = frag or r.choice(FRAGS)
    rel = rel or r.choice(["reliable", "best_effort"])
    ids = r.shuffle(IDS)[: r.range(2, 4)]
    lines = [f"config frag={frag}", "participant P1", "participant P2", f"topic t1 P1 T {ty}", f"topic t2 P2 T {ty}",
             "publisher pub P1", "subscriber sub P2",
             f"writer w pub t1 reliability={rel} history=keep_all", f"reader r sub t2 reliability={rel} history=keep_all"]
    if ty in KEYED:
        for k in ids:
            lines.append(f"register w {k}")
    for _ in range(nops or r.range(6, 18)):
        k = r.choice(ids)
        c = r.below(100)
        if c < 60:
            lines.append(f"write w {k} {value_token(r, ty, frag)}")
        elif c < 70 and ty in KEYED:
            lines.append(f"dispose w {k}")
        elif c < 78 and ty in KEYED:
            lines.append(f"unregister w {k}")
        elif c < 84 and ty in KEYED:
            lines.append(f"register w {k}")
        elif c < 90 and ty in KEYED:
            lines.append(f"lookup w {k}")
        else:
            lines.append("take r")
    lines += ["advance 300000000", "take r"]
    return Case(lines, {"ty": ty, "frag": frag, "rel": rel})


CORPUS = [
    # the exemplar of the seeded defect m_C11/C11_b: key not first, one sample below and one above the fragment size
    ["config frag=64", "participant P1", "participant P2", "topic t1 P1 T bk", "topic t2 P2 T bk", "publisher pub P1",
     "subscriber sub P2", "writer w pub t1 reliability=reliable history=keep_all",
     "reader r sub t2 reliability=reliable history=keep_all", "register w 7", "register w 2", "write w 7 01",
     "write w 7 len:200:3", "write w 2 len:64:1", "take r", "dispose w 7", "unregister w 2", "take r"],
    # two keys around the payload, best effort, everything fragmented (frag=8: even the key-only payloads of dispose)
    ["config frag=8", "participant P1", "participant P2", "topic t1 P1 T kk", "topic t2 P2 T kk", "publisher pub P1",
     "subscriber sub P2", "writer w pub t1 reliability=best_effort history=keep_all",
     "reader r sub t2 reliability=best_effort history=keep_all", "register w 5", "register w -1", "write w 5 0102",
     "write w -1 len:40:9", "dispose w 5", "write w 5 -", "unregister w -1", "advance 300000000", "take r"],
    ["config frag=8", "participant P1", "participant P2", "topic t1 P1 T ki", "topic t2 P2 T ki", "publisher pub P1",
     "subscriber sub P2", "writer w pub t1 reliability=reliable history=keep_all",
     "reader r sub t2 reliability=reliable history=keep_all", "register w 300", "write w 300 4", "write w 1 -2", "lookup w 1",
     "dispose w 300", "take r"],
    ["config frag=16", "participant P1", "participant P2", "topic t1 P1 T nb", "topic t2 P2 T nb", "publisher pub P1",
     "subscriber sub P2", "writer w pub t1 reliability=reliable history=keep_all",
     "reader r sub t2 reliability=reliable history=keep_all", "write w 0 01", "write w 0 len:100:1", "take r"],
]


def c11_e2e_cases(rng, tier):
    n = 60 if tier == "quick" else 600
    cases = [Case(list(c), {"ty": c[3].split()[-1], "frag": int(c[0].split("=")[1])}) for c in CORPUS]
    # every keyed type at every fragment size, both reliabilities, then random ones
    for ty in ("bk", "kk"):
        for f in FRAGS:
            cases.append(c11_e2e_case(rng, ty=ty, frag=f, rel="reliable" if (f // 8) % 2 else "best_effort"))
    for _ in range(n):
        cases.append(c11_e2e_case(rng))
    return cases


def _ty_of(case):
    for l in case.lines:
        t = l.split()
        if t[:1] == ["topic"]:
            return t[4]
    return None


def c11_e2e_oracle(case, out):
    """violations (list of dicts with `what`, `at`, `cause`=None) of: reader handle = writer handle for the same key;
    equal keys share a handle, different keys do not; handles have the expected byte layout; every written sample is
    presented (a reader that cannot derive the handle skips the change)."""
    ty = _ty_of(case)
    viol = []
    whandle = {}          # id -> handle string the writer answered (register / lookup)
    rhandle = {}          # id -> handle string the reader presented
    written, presented = 0, 0
    notalive_keys = set()
    keyed = ty in KEYED

    def v(i, what):
        viol.append({"what": what, "at": i, "cause": None})

    for i, (l, o) in enumerate(zip(case.lines, out)):
        t = l.split()
        if not t:
            continue
        if o in ("PANIC", "HANG", "CRASH"):
            v(i, f"{l} -> {o}")
            break
        if o == "POISONED":
            break
        if t[0] in ("register", "lookup") and is_ok(o):
            k = int(t[2])
            h = o.split()[1]
            if h == "none":
                continue
            if h != f"h({k})":
                v(i, f"{l}: the writer's handle {h} is not the key layout of id {k} for type {ty} ({expected_handle(ty, k)})")
            if k in whandle and whandle[k] != h:
                v(i, f"{l}: the writer answered {h}, earlier {whandle[k]} for the same key")
            whandle[k] = h
        elif t[0] == "write" and is_ok(o):
            written += 1
        elif t[0] in ("dispose", "unregister") and is_ok(o):
            notalive_keys.add(int(t[2]))
        elif t[0] == "take" and is_ok(o):
            for s in parse_samples(o) or []:
                inst = s["inst"]
                if s["valid"] and s["data"] != "-":
                    presented += 1
                    ks = s["data"].split(":")[0]
                    if not keyed:
                        if inst != "h(nokey)":
                            v(i, f"take: a sample of the keyless type {ty} is presented with handle {inst}")
                        continue
                    k = int(ks.split("+")[0])
                    want = whandle.get(k, f"h({k})")
                    if inst != want:
                        v(i, f"take: sample of key {k} ({s['data'][:40]}) is presented with instance handle {inst}, the writer's handle "
                             f"for that key is {want} (expected bytes {expected_handle(ty, k)})")
                    if k in rhandle and rhandle[k] != inst:
                        v(i, f"take: two samples of key {k} are presented with different handles {rhandle[k]} and {inst}")
                    for k2, h2 in rhandle.items():
                        if k2 != k and h2 == inst:
                            v(i, f"take: samples of the different keys {k2} and {k} share the handle {inst}")
                    rhandle.setdefault(k, inst)
                else:
                    # key-only sample (dispose / unregister): its handle must be the handle of one of the keys that were
                    # disposed / unregistered
                    if keyed and inst not in {f"h({k})" for k in notalive_keys}:
                        v(i, f"take: a not-alive sample is presented with handle {inst}, which is not the handle of any disposed / "
                             f"unregistered key {sorted(notalive_keys)}")
    if not viol and written != presented and out and out[-1] not in ("POISONED",):
        viol.append({"what": f"{written} samples were written but {presented} presented after the final take "
                             "(a change whose handle cannot be derived is skipped by the reader)", "at": len(case.lines) - 1,
                     "cause": None})
    return viol


def c11_e2e_nontrivial(case, out):
    """at least two keys (or a keyless type) and at least one sample whose payload exceeds the fragment size"""
    frag = int(case.lines[0].split("=")[1])
    big = False
    keys = set()
    for l in case.lines:
        t = l.split()
        if t[:1] == ["write"]:
            keys.add(t[2])
            v = t[3]
            n = int(v.split(":")[1]) if v.startswith("len:") else (0 if v == "-" else (len(v) // 2 if _ty_of(case) != "ki" else 4))
            big = big or n + 8 > frag
    return big and (len(keys) >= 2 or _ty_of(case) == "nb")


def c11_e2e_crosscheck(run_model_lines):
    """compare the Python `expected_handle` with the Lean definition (`dustmodel handle`: whandle <ty> <id>).
    `run_model_lines(lines) -> output lines`. Returns a list of mismatch descriptions (empty = agree)."""
    lines, want = [], []
    for ty in ("ki", "kb", "bk", "kk", "ni", "nb"):
        for k in IDS + [-2147483648, 2147483647, 333]:
            lines.append(f"whandle {ty} {k}")
            want.append(expected_handle(ty, k))
    got = run_model_lines(lines)
    return [f"{l}: lean {g}, python {w}" for l, g, w in zip(lines, got, want) if g != w]
