"""C11 end to end (engine `handle`): the instance handle the READER presents for a sample equals the handle the WRITER
assigned to it, whether or not the key hash travelled in the message.

Rust side: the `dsim` scenario interpreter (binary `handle` = `dsim`, notes/dsim.md) with two participants; a small
`config frag=<f>` makes samples whose serialised size exceeds `f` travel as DATA_FRAG — which carries NO inline
PID_KEY_HASH, so the reader glue (communication_methods.rs:218-276) must derive the handle from the payload — while
small samples and (except at `frag=8`) dispose / unregister travel as DATA with the key hash.
Test types: `ki` {#[key] id: i32, value: i32}, `kb` {#[key] id, value: bytes}, `bk` {value: bytes, #[key] id} (key NOT
first), `kk` {#[key] a: i32, value: bytes, #[key] b: i16} (two keys around the payload; scenario id k = (a=k, b=kk_b(k))),
`nb` {value: bytes} (keyless: the one all-zero handle). The harness prints `h(<id>)` only when the 16 handle bytes are
exactly the expected big-endian key layout of that type, raw hex otherwise.

Lean side: Model/HandleE2E.lean + Props/C11E2E.lean (`C11_reader_choice_agrees`, parametric in the data model) and the
stateless driver `dustmodel handle` (`whandle <ty> <id>` = expected handle bytes; used by `c11_e2e_crosscheck`).

Use from a property module:
    cases = c11_e2e_cases(ctx.rng, ctx.tier)
    outs  = run_cases([harness_bin("handle")], cases)      # or ctx.differential-free: oracle only
    for c, o in zip(cases, outs): violations += c11_e2e_oracle(c, o)
"""
from vlib.core import Case
from vlib.dsim_common import parse_samples, is_ok

ENGINE = "handle"
BINS = ["dsim", "handle"]
KEYED = ("ki", "kb", "bk", "kk")
TYPES = ("ki", "kb", "bk", "kk", "nb")
IDS = [0, 1, 2, 7, 300, -1, 100000, 65536]
FRAGS = [8, 16, 32, 64, 256, 1000]


def kk_b(k):
    return (k * 3) % 1000 + 1


def expected_handle(ty, k):
    """the 16 handle bytes (hex) of scenario id k for a test type: key members in declaration order, big-endian at their
    alignment, zero padded (keys of at most 16 bytes are not hashed)"""
    if ty not in KEYED:
        return "00" * 16
    b = (k & 0xFFFFFFFF).to_bytes(4, "big")
    if ty == "kk":
        b += (kk_b(k) & 0xFFFF).to_bytes(2, "big")
    return (b + bytes(16 - len(b))).hex()


def value_token(r, ty, frag):
    """a value whose serialised sample is below, at or above the fragment size"""
    if ty == "ki":
        return str(r.range(-5, 5))
    c = r.below(10)
    if c < 2:
        n = r.choice([0, 1, 2])
    elif c < 7:
        n = max(0, frag + r.range(-14, 6))
    else:
        n = r.choice([2 * frag, 3 * frag + 1, frag * 5 + 3])
    return f"len:{n}:{r.below(250)}" if n > 16 else ("-" if n == 0 else "".join(f"{r.below(256):02x}" for _ in range(n)))


def c11_e2e_case(r, ty=None, frag=None, rel=None, nops=None):
    ty = ty or r.choice(["bk", "bk", "kk", "kk", "kb", "ki", "nb"])
    frag = frag or r.choice(FRAGS)
    rel = rel or r.choice(["reliable", "best_effort"])
    ids = r.shuffle(IDS)[: r.range(2, 4)]
    lines = [f"config frag={frag}", "participant P1", "participant P2", f"topic t1 P1 T {ty}", f"topic t2 P2 T {ty}",
             "publisher pub P1", "subscriber sub P2",
             f"writer w pub t1 reliability={rel} history=keep_all", f"reader r sub t2 reliability={rel} history=keep_all"]
    if ty in KEYED:
        for k in ids:
            lines.append(f"register w {k}")
    for _ in range(nops or r.range(6, 18)):
        k = r.choice(ids)
        c = r.below(100)
        if c < 60:
            lines.append(f"write w {k} {value_token(r, ty, frag)}")
        elif c < 70 and ty in KEYED:
            lines.append(f"dispose w {k}")
        elif c < 78 and ty in KEYED:
            lines.append(f"unregister w {k}")
        elif c < 84 and ty in KEYED:
            lines.append(f"register w {k}")
        elif c < 90 and ty in KEYED:
            lines.append(f"lookup w {k}")
        else:
            lines.append("take r")
    lines += ["advance 300000000", "take r"]
    return Case(lines, {"ty": ty, "frag": frag, "rel": rel})


CORPUS = [
    # the exemplar of the seeded defect seed_C11_c (scratch key-member list shared by all pending writers): two writers of
    # one participant blocked at once on the same key; the later one's pending sample must keep the handle of its key
    ["config frag=1344", "participant P1", "participant P2", "publisher pub P1", "subscriber sub P2",
     "topic ta0 P1 T0 ki", "topic tb0 P2 T0 ki", "topic ta1 P1 T1 ki", "topic tb1 P2 T1 ki",
     "reader r0 sub tb0 reliability=reliable history=keep_all", "reader r1 sub tb1 reliability=reliable history=keep_all",
     "writer w0 pub ta0 reliability=reliable history=keep_last:1 max_blocking=20000000000",
     "writer w1 pub ta1 reliability=reliable history=keep_last:1 max_blocking=20000000000",
     "drop-if ACKNACK user", "write w0 9 1", "write w1 9 1", "write-bg w0 9 2 tag=b0", "write-bg w1 9 2 tag=b1",
     "advance 100000000", "take r1", "clear-faults", "advance 450000000", "join b0", "join b1", "lookup w0 9", "lookup w1 9",
     "advance 450000000", "take r0", "take r1"],
    # the exemplar of the seeded defect m_C11/C11_b: key not first, one sample below and one above the fragment size
    ["config frag=64", "participant P1", "participant P2", "topic t1 P1 T bk", "topic t2 P2 T bk", "publisher pub P1",
     "subscriber sub P2", "writer w pub t1 reliability=reliable history=keep_all",
     "reader r sub t2 reliability=reliable history=keep_all", "register w 7", "register w 2", "write w 7 01",
     "write w 7 len:200:3", "write w 2 len:64:1", "take r", "dispose w 7", "unregister w 2", "take r"],
    # two keys around the payload, best effort, everything fragmented (frag=8: even the key-only payloads of dispose)
    ["config frag=8", "participant P1", "participant P2", "topic t1 P1 T kk", "topic t2 P2 T kk", "publisher pub P1",
     "subscriber sub P2", "writer w pub t1 reliability=best_effort history=keep_all",
     "reader r sub t2 reliability=best_effort history=keep_all", "register w 5", "register w -1", "write w 5 0102",
     "write w -1 len:40:9", "dispose w 5", "write w 5 -", "unregister w -1", "advance 300000000", "take r"],
    ["config frag=8", "participant P1", "participant P2", "topic t1 P1 T ki", "topic t2 P2 T ki", "publisher pub P1",
     "subscriber sub P2", "writer w pub t1 reliability=reliable history=keep_all",
     "reader r sub t2 reliability=reliable history=keep_all", "register w 300", "write w 300 4", "write w 1 -2", "lookup w 1",
     "dispose w 300", "take r"],
    ["config frag=16", "participant P1", "participant P2", "topic t1 P1 T nb", "topic t2 P2 T nb", "publisher pub P1",
     "subscriber sub P2", "writer w pub t1 reliability=reliable history=keep_all",
     "reader r sub t2 reliability=reliable history=keep_all", "write w 0 01", "write w 0 len:100:1", "take r"],
]


def c11_e2e_blocked_case(r, same_type=None):
    """several writers of ONE participant blocked at once (writer_methods.rs process_pending_write_samples walks all
    writers with a pending sample in one pass): 2-3 RELIABLE KEEP_LAST(1) writers, acknowledgements withheld, the first
    write of every writer is accepted, the second one of the same instance blocks in the background; then the
    acknowledgements flow again, the calls are joined, and lookup / register on the writers and take on the readers
    show the handles"""
    nw = r.range(2, 3)
    same_type = r.chance(3, 4) if same_type is None else same_type
    base = r.choice(["ki", "bk", "kk", "kb"])
    types = [base if same_type else r.choice(["ki", "bk", "kk"]) for _ in range(nw)]
    one_topic = same_type and r.chance(1, 3)
    frag = r.choice([64, 256, 1344])
    lines = [f"config frag={frag}", "participant P1", "participant P2", "publisher pub P1", "subscriber sub P2"]
    if r.chance(1, 3):
        lines.insert(4, "publisher pub2 P1")
    pubs = ["pub"] + (["pub2"] if "publisher pub2 P1" in lines else [])
    topics = []
    for i in range(nw):
        if one_topic and i > 0:
            topics.append(topics[0])
            continue
        lines += [f"topic ta{i} P1 T{i} {types[i]}", f"topic tb{i} P2 T{i} {types[i]}"]
        topics.append(i)
    for i in sorted(set(topics)):
        lines.append(f"reader r{i} sub tb{i} reliability=reliable history=keep_all")
    for i in range(nw):
        lines.append(f"writer w{i} {r.choice(pubs)} ta{topics[i]} reliability=reliable history=keep_last:1 max_blocking=20000000000")
    lines.append("drop-if ACKNACK user")
    keys = [r.choice([9, 9, 1, 7, 300, -1]) for _ in range(nw)]
    if r.chance(1, 2):
        keys = [keys[0]] * nw
    def val(ty):
        return str(r.range(1, 9)) if ty == "ki" else value_token(r, ty, frag)
    for i in range(nw):
        lines.append(f"write w{i} {keys[i]} {val(types[i])}")
    order = r.shuffle(list(range(nw)))
    for i in order:
        lines.append(f"write-bg w{i} {keys[i]} {val(types[i])} tag=b{i}")
    if r.chance(1, 2):
        lines.append(f"advance {r.choice([1000000, 60000000, 250000000])}")
    if r.chance(1, 3):
        lines.append(f"take r{topics[0]}")
    lines += ["clear-faults", "advance 450000000"]
    for i in r.shuffle(list(range(nw))):
        lines.append(f"join b{i}")
    for i in range(nw):
        lines.append(f"{r.choice(['lookup', 'register'])} w{i} {keys[i]}")
        if r.chance(1, 3):
            lines.append(f"write w{i} {keys[i] + 1} {val(types[i])}")
            lines.append(f"lookup w{i} {keys[i] + 1}")
    lines.append("advance 450000000")
    for i in sorted(set(topics)):
        lines.append(f"take r{i}")
    return Case(lines, {"family": "blocked", "types": types, "frag": frag})


def c11_e2e_cases(rng, tier):
    n = 60 if tier == "quick" else 600
    cases = [Case(list(c), {"frag": int(c[0].split("=")[1])}) for c in CORPUS]
    # every keyed type at every fragment size, both reliabilities, then random ones
    for ty in ("bk", "kk"):
        for f in FRAGS:
            cases.append(c11_e2e_case(rng, ty=ty, frag=f, rel="reliable" if (f // 8) % 2 else "best_effort"))
    for _ in range(n):
        cases.append(c11_e2e_case(rng))
    for k in range(n // 2):
        cases.append(c11_e2e_blocked_case(rng, same_type=True if k < 6 else None))
    return cases


def _ty_of(case):
    for l in case.lines:
        t = l.split()
        if t[:1] == ["topic"]:
            return t[4]
    return None


def _layout(case):
    """names of the scenario: topic object -> (topic name, type); writer / reader -> (topic name, type)"""
    topics, writers, readers = {}, {}, {}
    for l in case.lines:
        t = [x for x in l.split() if "=" not in x]
        if t[:1] == ["topic"] and len(t) >= 5:
            topics[t[1]] = (t[3], t[4])
        elif t[:1] == ["writer"] and len(t) >= 4 and t[3] in topics:
            writers[t[1]] = topics[t[3]]
        elif t[:1] == ["reader"] and len(t) >= 4 and t[3] in topics:
            readers[t[1]] = topics[t[3]]
    return topics, writers, readers


def c11_e2e_oracle(case, out):
    """violations (list of dicts with `what`, `at`, `cause`=None) of: reader handle = writer handle for the same key;
    equal keys share a handle, different keys do not; handles have the expected byte layout; the writer's
    register / lookup answer is that handle; every written sample is presented (a reader that cannot derive the handle
    skips the change) and no extra instance appears at a reader. Any number of writers / readers / topics; a
    `write-bg … tag=<t>` / `join <t>` pair is one write."""
    _, writers, readers = _layout(case)
    viol = []
    whandle = {}          # (writer, id) -> handle string the writer answered (register / lookup)
    rhandle = {}          # (reader, id) -> handle string the reader presented
    written = {}          # topic name -> number of accepted writes
    written_keys = {}     # topic name -> set of ids written
    presented = {}        # reader -> number of valid samples presented
    notalive = {}         # topic name -> ids disposed / unregistered
    bg = {}               # tag -> (writer, id)

    def v(i, what):
        viol.append({"what": what, "at": i, "cause": None})

    wkeys, wgone = {}, {}   # writer -> ids it accepted a write / register of; ids it unregistered

    def accepted(w, k):
        wkeys.setdefault(w, set()).add(k)
        wgone.get(w, set()).discard(k)
        tn = writers[w][0]
        written[tn] = written.get(tn, 0) + 1
        written_keys.setdefault(tn, set()).add(k)

    for i, (l, o) in enumerate(zip(case.lines, out)):
        t = l.split()
        if not t:
            continue
        if o in ("PANIC", "HANG", "CRASH"):
            v(i, f"{l} -> {o}")
            break
        if o == "POISONED":
            break
        op = t[0]
        if op in ("register", "lookup") and is_ok(o) and t[1] in writers:
            w, k, ty = t[1], int(t[2]), writers[t[1]][1]
            h = o.split()[1]
            if h == "none":
                if op == "lookup" and k in wkeys.get(w, set()) and k not in wgone.get(w, set()):
                    v(i, f"{l}: the writer does not know the instance of key {k} although it accepted a write of it")
                continue
            if h != f"h({k})":
                v(i, f"{l}: the writer's handle {h} is not the key layout of id {k} for type {ty} ({expected_handle(ty, k)})")
            if (w, k) in whandle and whandle[(w, k)] != h:
                v(i, f"{l}: the writer answered {h}, earlier {whandle[(w, k)]} for the same key")
            whandle[(w, k)] = h
        elif op == "write" and is_ok(o) and t[1] in writers:
            accepted(t[1], int(t[2]))
        elif op == "write-bg" and t[1] in writers:
            tag = next((x[4:] for x in t if x.startswith("tag=")), "")
            bg[tag] = (t[1], int(t[2]))
        elif op == "join" and len(t) == 2 and t[1] in bg:
            if is_ok(o):
                accepted(*bg[t[1]])
        elif op in ("dispose", "unregister") and is_ok(o) and t[1] in writers:
            notalive.setdefault(writers[t[1]][0], set()).add(int(t[2]))
            if op == "unregister":
                wgone.setdefault(t[1], set()).add(int(t[2]))
        elif op == "take" and is_ok(o) and t[1] in readers:
            rd, (tn, ty) = t[1], readers[t[1]]
            keyed = ty in KEYED
            for s in parse_samples(o) or []:
                inst = s["inst"]
                if s["valid"] and s["data"] != "-":
                    presented[rd] = presented.get(rd, 0) + 1
                    if not keyed:
                        if inst != "h(nokey)":
                            v(i, f"take {rd}: a sample of the keyless type {ty} is presented with handle {inst}")
                        continue
                    k = int(s["data"].split(":")[0].split("+")[0])
                    want = f"h({k})"
                    if inst != want:
                        v(i, f"take {rd}: sample of key {k} ({s['data'][:40]}) is presented with instance handle {inst}, the writer's "
                             f"handle for that key is {want} (expected bytes {expected_handle(ty, k)})")
                    if (rd, k) in rhandle and rhandle[(rd, k)] != inst:
                        v(i, f"take {rd}: two samples of key {k} are presented with different handles {rhandle[(rd, k)]} and {inst}")
                    for (r2, k2), h2 in rhandle.items():
                        if r2 == rd and k2 != k and h2 == inst:
                            v(i, f"take {rd}: samples of the different keys {k2} and {k} share the handle {inst}")
                    rhandle.setdefault((rd, k), inst)
                else:
                    # key-only sample (dispose / unregister): its handle must be the handle of one of the keys that were
                    # disposed / unregistered on that topic
                    ks = notalive.get(tn, set())
                    if keyed and inst not in {f"h({k})" for k in ks}:
                        v(i, f"take {rd}: a not-alive sample is presented with handle {inst}, which is not the handle of any disposed / "
                             f"unregistered key {sorted(ks)}")
    if not viol and out and out[-1] != "POISONED":
        for rd, (tn, ty) in readers.items():
            if written.get(tn, 0) != presented.get(rd, 0):
                viol.append({"what": f"{written.get(tn, 0)} samples were written on topic {tn} but {presented.get(rd, 0)} presented by "
                                     f"reader {rd} after the final take (a change whose handle cannot be derived is skipped)",
                             "at": len(case.lines) - 1, "cause": None})
            inst_seen = {h for (r2, _), h in rhandle.items() if r2 == rd}
            if ty in KEYED and len(inst_seen) > len(written_keys.get(tn, set())):
                viol.append({"what": f"reader {rd} presents {len(inst_seen)} instances, only {len(written_keys.get(tn, set()))} keys were written",
                             "at": len(case.lines) - 1, "cause": None})
    return viol


def c11_e2e_nontrivial(case, out):
    """at least two keys (or a keyless type) and at least one sample whose payload exceeds the fragment size"""
    if case.meta.get("family") == "blocked" or sum(1 for l in case.lines if l.startswith("write-bg ")) >= 2:
        # several writers blocked at once: at least two background writes that were joined with `ok`
        return sum(1 for l, o in zip(case.lines, out) if l.startswith("join ") and o == "ok") >= 2
    frag = int(case.lines[0].split("=")[1])
    big = False
    keys = set()
    for l in case.lines:
        t = l.split()
        if t[:1] == ["write"]:
            keys.add(t[2])
            v = t[3]
            n = int(v.split(":")[1]) if v.startswith("len:") else (0 if v == "-" else (len(v) // 2 if _ty_of(case) != "ki" else 4))
            big = big or n + 8 > frag
    return big and (len(keys) >= 2 or _ty_of(case) == "nb")


def c11_e2e_crosscheck(run_model_lines):
    """compare the Python `expected_handle` with the Lean definition (`dustmodel handle`: whandle <ty> <id>).
    `run_model_lines(lines) -> output lines`. Returns a list of mismatch descriptions (empty = agree)."""
    lines, want = [], []
    for ty in ("ki", "kb", "bk", "kk", "ni", "nb"):
        for k in IDS + [-2147483648, 2147483647, 333]:
            lines.append(f"whandle {ty} {k}")
            want.append(expected_handle(ty, k))
    got = run_model_lines(lines)
    return [f"{l}: lean {g}, python {w}" for l, g, w in zip(lines, got, want) if g != w]
