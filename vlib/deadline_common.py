"""Engine `deadline` (C30; C24 deadline clause): scenario generators and oracles. The canonicaliser, the differential
runner and the scenario sub-language are those of vlib/worker_common.py (one Lean world serves the engines `worker`
and `deadline`).

C30 families: offered and requested deadlines over 1-3 instances, periods 20 ms .. 1 s (incl. the 50 ms poke period +-1 ns),
samples inside / at / just after the period, silent windows of 0 .. 3.5 periods, listeners on both endpoints; the D35
exemplar (1 s period, one sample, 2.5 s of silence).
C24 family (`c24_deadline_cases`): EXCLUSIVE reader, two writers of different strength, 2-4 instances owned by the
stronger writer that all expire in one worker pass, then one sample of the WEAKER writer on every instance.
"""
from vlib.worker_common import *

ENGINE = "deadline"


def virtual_times(lines):
    """virtual time at which every op STARTS (the sub-language has no blocking op in the C30 / C24 families)"""
    t, out = 0, []
    for l in lines:
        out.append(t)
        f = l.split()
        if f and f[0] in ("advance", "jump"):
            t += int(f[1])
    return out


def endpoint_info(lines):
    """name -> dict(kind, deadline, listens, strength)"""
    info = {}
    for l in lines:
        f = l.split()
        if f and f[0] in ("writer", "reader"):
            kv = dict(x.split("=", 1) for x in f[1:] if "=" in x)
            info[f[1]] = {"kind": f[0], "deadline": None if kv.get("deadline", "inf") == "inf" else int(kv["deadline"]),
                          "listens": "listener" in kv, "strength": int(kv.get("strength", "0")),
                          "exclusive": kv.get("ownership") == "exclusive", "reliable": kv.get("reliability") == "reliable"}
    return info


def expected_misses(stamps, d, now):
    """specification: number of whole periods that have elapsed by `now` since each stamp was (last) refreshed.
    stamps: key -> sorted list of sample times; a period counts once the clock is strictly past it and before the next sample"""
    n = 0
    for k, ts in stamps.items():
        for i, s in enumerate(ts):
            end = ts[i + 1] if i + 1 < len(ts) else now
            end = min(end, now)
            if end > s:
                n += max(0, (end - s - 1) // d)
    return n


def c30_oracle(case, out):
    """implementation output alone. For every endpoint with a finite deadline and a recording listener:
      (a) the callbacks carry total = 1, 2, 3, ... without gap or repetition (one notification per increment);
      (b) at every `log`, the number of callbacks so far equals the number of whole periods that have elapsed per instance
          since its last sample (computed from the op lines and the virtual clock), so nothing is reported while samples
          keep arriving and nothing is counted twice;
      (c) `status w offered_deadline_missed` agrees with the callbacks."""
    viol = []
    info = endpoint_info(case.lines)
    times = virtual_times(case.lines)
    writers = [n for n, e in info.items() if e["kind"] == "writer"]
    readers = [n for n, e in info.items() if e["kind"] == "reader"]
    stamps = {n: {} for n in info}          # endpoint -> key -> [sample times]
    seen = {n: 0 for n in info}             # callbacks so far
    names = {}
    for i, (l, o) in enumerate(zip(case.lines, out)):
        f = l.split()
        if not f:
            continue
        if o in ("PANIC", "HANG", "CRASH", "POISONED") or o.startswith("CRASH"):
            viol.append({"what": f"`{l}` answered {o}", "op": l})
            break
        if f[0] in CREATE and is_ok(o) and len(o.split()) == 2:
            names[o.split()[1]] = f[1]
        if f[0] == "write" and o == "ok":
            k = int(f[2])
            w = f[1]
            stamps[w].setdefault(k, []).append(times[i])
            for r in readers:
                # every matched reader stamps the instance at reception (also for samples it then filters out)
                if info[r]["exclusive"] == info[w]["exclusive"]:
                    stamps[r].setdefault(k, []).append(times[i])
        if f[0] == "log" and is_ok(o):
            per = {}
            for it in parse_bar_list(o):
                g = it.split()
                owner, cb = g[0].split(".")
                if cb not in DEADLINE_CBS:
                    continue
                kv = dict(x.split("=", 1) for x in g[1:] if "=" in x)
                per.setdefault(owner, []).append(int(kv["total"]))
            for n, e in info.items():
                if e["deadline"] is None or not e["listens"]:
                    continue
                got = sorted(per.get(n, []))
                want_totals = list(range(seen[n] + 1, seen[n] + 1 + len(got)))
                if got != want_totals:
                    viol.append({"what": f"{n}: callbacks carry total counts {got}, expected {want_totals} (one notification per increment)",
                                 "op": l, "cause": "deadline-total-sequence"})
                seen[n] += len(got)
                exp = expected_misses(stamps[n], e["deadline"], times[i])
                if seen[n] != exp:
                    cause = "deadline-count-wrong"
                    if e["kind"] == "reader" and seen[n] > exp:
                        cause = "reader-deadline-recounted-every-wakeup"
                    viol.append({"what": f"{n}: {seen[n]} deadline-missed notification(s) by +{times[i]} ns, {exp} whole period(s) of "
                                         f"{e['deadline']} ns have elapsed since the last samples {stamps[n]}", "op": l, "cause": cause})
                    seen[n] = exp if False else seen[n]
        if f[0] == "status" and is_ok(o) and f[1] in info and info[f[1]]["deadline"] is not None:
            kv = dict(x.split("=", 1) for x in o.split()[1:] if "=" in x)
            exp = expected_misses(stamps[f[1]], info[f[1]]["deadline"], times[i])
            if int(kv["total"]) != exp:
                viol.append({"what": f"{f[1]}: status total_count {kv['total']}, {exp} whole period(s) have elapsed", "op": l,
                             "cause": "deadline-count-wrong"})
    return viol


def c30_corpus():
    cs = []
    # D35 exemplar: 1 s on both sides, one sample, 2.5 s: exactly two misses each (as pinned: 31 on the reader)
    cs.append(world(True, "reliability=reliable history=keep_all deadline=1000000000 listener=offered_deadline_missed",
                    "reliability=reliable history=keep_all deadline=1000000000 listener=requested_deadline_missed") +
              ["write w 1 1", "log", "advance 2500000000", "log", "status w offered_deadline_missed", "log"])
    # samples keep arriving just inside the period, then stop
    cs.append(world(True, "reliability=reliable history=keep_all deadline=100000000 listener=offered_deadline_missed",
                    "reliability=best_effort history=keep_all deadline=100000000 listener=requested_deadline_missed") +
              ["write w 1 1", "advance 99999999", "write w 1 2", "advance 100000000", "write w 1 3", "log", "advance 100000001", "log",
               "write w 1 4", "advance 350000000", "log", "status w offered_deadline_missed"])
    # three instances with different phases
    cs.append(world(False, "reliability=reliable history=keep_all deadline=60000000 listener=offered_deadline_missed",
                    "reliability=reliable history=keep_all deadline=120000000 listener=requested_deadline_missed") +
              ["write w 1 1", "advance 20000000", "write w 2 1", "advance 20000000", "write w 3 1", "advance 30000000", "log",
               "advance 200000000", "log", "status w offered_deadline_missed"])
    return [Case(c, {"fam": "corpus"}) for c in cs]


def c30_case(r):
    d = r.choice([20 * MS, POKE - 1, POKE, POKE + 1, 60 * MS, 120 * MS, 250 * MS, 1000 * MS])
    two = r.chance(2, 3)
    keys = r.range(1, 3)
    rd = d if r.chance(2, 3) else 2 * d
    wq = f"reliability=reliable history=keep_all deadline={d}" + (" listener=offered_deadline_missed" if r.chance(5, 6) else "")
    rq = f"reliability={r.choice(['reliable', 'best_effort'])} history=keep_all deadline={rd}" + \
         (" listener=requested_deadline_missed" if r.chance(5, 6) else "")
    if r.chance(1, 4):
        rq += f" tbf={r.choice([rd // 2, rd])}"
    reader = r.chance(5, 6)
    l = world(two, wq, rq, reader=reader)
    fresh = r.chance(1, 3)   # a phase in which the samples keep arriving within the period
    for _ in range(r.range(2, 8)):
        c = r.below(10)
        if c < 4 or fresh:
            l.append(f"write w {r.range(1, keys)} {r.below(100)}")
            if fresh:
                l.append(f"advance {r.choice([1, d // 3, d // 2, d - 1, d])}")
                fresh = r.chance(2, 3)
        elif c < 9:
            l.append(f"advance {r.choice([1, d // 2, d - 1, d, d + 1, d + POKE, 2 * d, 2 * d + 1, 3 * d + d // 2, POKE, 2 * POKE + 1])}")
        else:
            # the late-timer directive, at most one period late (see the catch-up discipline in vlib/props/C31.py)
            l.append(f"jump {r.choice([1, d // 2, d - 1, d])}")
        if r.chance(1, 3):
            l.append("log")
    l += ["log", "status w offered_deadline_missed", "now"]
    return Case(l, {"fam": "two" if two else "one"})


def c30_nontrivial(case, cout):
    """RULE: at least one deadline-missed callback is recorded"""
    return any(l == "log" and o.startswith("ok") and not o.startswith("ok 0") for l, o in zip(case.lines, cout))


def c30_count(ctx, c, co):
    ctx.count("fam:" + str(c.meta.get("fam")))
    for l, o in zip(c.lines, co):
        if l == "log" and o.startswith("ok") and o != "ok 0":
            for it in o.split(" | ")[1:]:
                ctx.count("cb:" + it.split()[0].split(".")[1])
        if l.startswith("jump"):
            ctx.count("op:jump")


# ----------------------------------------------------------------------------- C24, deadline clause

def c24_deadline_cases(rng, tier):
    """EXCLUSIVE reader `r` (deadline d, listener), strong writer `w` (strength 10) and weak writer `v` (strength 1), n >= 2 instances.
    1. `w` writes every instance (owns them); `v` writes every instance (must be refused); take.
    2. silence for more than one period: ALL instances expire in the same worker pass; log.
    3. `v` writes every instance: must be accepted on EVERY instance; take.
    4. `w` writes again (stronger: takes the instances back); `v` is refused again; take.
    Values are unique per write so the oracle can tell the samples apart."""
    n_cases = 30 if tier == "quick" else 400
    cases = []
    for _ in range(n_cases):
        r = rng
        d = r.choice([60 * MS, 100 * MS, 250 * MS, 1000 * MS])
        n = r.range(2, 4)
        two = r.chance(2, 3)
        strong, weak = r.choice([(10, 1), (2, 1), (5, 0)])
        rel = r.choice(["reliable", "best_effort"])
        wq = f"reliability=reliable history=keep_all deadline={d} ownership=exclusive strength={strong}"
        vq = f"reliability=reliable history=keep_all deadline={d} ownership=exclusive strength={weak}"
        rq = f"reliability={rel} history=keep_all deadline={d} ownership=exclusive listener=requested_deadline_missed"
        l = world(two, wq, rq, extra_writers=[("v", vq)])
        val = [100]

        def wr(who, k):
            val[0] += 1
            return f"write {who} {k} {val[0]}"
        keys = list(range(1, n + 1))
        l += [wr("w", k) for k in keys]
        if r.chance(1, 2):
            l += [wr("v", k) for k in r.shuffle(keys)]
        l.append("take r")
        if r.chance(1, 2):
            # the owner keeps some instances alive a little longer: they must NOT be handed over
            keep = r.shuffle(keys)[: r.range(0, n - 2)] if n > 2 else []
            half = d // 2
            l.append(f"advance {half}")
            l += [wr("w", k) for k in keep]
            l.append(f"advance {d - half + r.choice([1, 10 * MS])}")
        else:
            l.append(f"advance {d + r.choice([1, POKE, d // 2])}")
        l.append("log")
        l += [wr("v", k) for k in r.shuffle(keys)]
        l.append("take r")
        if r.chance(1, 2):
            l += [wr("w", k) for k in keys] + [wr("v", k) for k in keys] + ["take r"]
        l.append("log")
        cases.append(Case(l, {"fam": "c24", "n": n}))
    return cases


def c24_deadline_oracle(case, out):
    """implementation output alone. Rule: a sample of writer X on instance k is delivered iff k has no owner, X is the owner, or X is
    stronger than the owner; the owner of k is the writer of the last delivered sample; a requested-deadline miss on k (observed through
    the reader's listener in `log`) releases k. So after the silent window the WEAKER writer's sample must appear in the next `take` for
    EVERY instance the log reports as missed."""
    viol = []
    info = endpoint_info(case.lines)
    owner = {}            # key -> writer name
    pending = []          # (writer, key, value, must_be_delivered, why)
    for l, o in zip(case.lines, out):
        f = l.split()
        if not f:
            continue
        if o in ("PANIC", "HANG", "CRASH", "POISONED") or o.startswith("CRASH"):
            viol.append({"what": f"`{l}` answered {o}", "op": l})
            break
        if f[0] == "write" and o == "ok":
            w, k, v = f[1], int(f[2]), int(f[3])
            cur = owner.get(k)
            ok = cur is None or cur == w or info[w]["strength"] > info[cur]["strength"]
            pending.append((w, k, v, ok, "no owner" if cur is None else f"owner {cur}"))
            if ok:
                owner[k] = w
        if f[0] == "log" and is_ok(o):
            for it in parse_bar_list(o):
                g = it.split()
                if g[0].endswith(".on_requested_deadline_missed"):
                    kv = dict(x.split("=", 1) for x in g[1:] if "=" in x)
                    kk = key_of_handle(kv["last"])
                    if kk.startswith("h("):
                        owner.pop(int(kk[2:-1]), None)
        if f[0] == "take":
            got = set()
            if is_ok(o):
                for s in o.split()[2:]:
                    d = s.split("/")[0]
                    got.add((int(d.split(":")[0]), int(d.split(":")[1])))
            for w, k, v, must, why in pending:
                if must and (k, v) not in got:
                    weaker = any(info[w]["strength"] < e["strength"] for n, e in info.items() if e["kind"] == "writer")
                    viol.append({"what": f"sample {k}:{v} of writer {w} (strength {info[w]['strength']}) was not delivered although instance {k} had {why}"
                                         + (" after its deadline was missed" if weaker else ""), "op": l,
                                 "cause": "ownership-not-released-on-deadline-miss" if weaker else "owner-sample-lost"})
                if not must and (k, v) in got:
                    viol.append({"what": f"sample {k}:{v} of the weaker writer {w} was delivered while instance {k} had {why}", "op": l,
                                 "cause": "weaker-writer-accepted"})
            pending = []
    return viol


def c24_nontrivial(case, cout):
    return any(l == "log" and "on_requested_deadline_missed" in o for l, o in zip(case.lines, cout))
