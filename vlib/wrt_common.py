"""Shared generator / canonicaliser / oracles of the `wrt` engine (writer entity: C27, C29, writer half of C19).

Implementation side: the `dsim` binary (real dust-dds behind the public async API, virtual time, in-memory network),
started through its alias `wrt` (harness/src/bin/wrt.rs) so that the harness binary carries the engine's name.
Model side: `dustmodel wrt` (Driver/Wrt.lean -> Model/WrtWorld.lean -> Model/WriterEnt.lean).

Scenario sub-language (everything else is `bad-op` for the model): the fixed template
    [config announce=<ns>]
    participant P1 / participant P2 / topic t1 P1 T ki / topic t2 P2 T ki / publisher pub P1 / subscriber sub P2
    writer w pub t1 [reliability= history= max_blocking= max_samples= max_instances= max_spi= lifespan= durability=]
followed by any sequence of
    reader r sub t2 history=keep_all [reliability=] [durability=]        (once; may come late = late joiner)
    write w <id> <value> [ts=<ns>]      lookup w <id>      take r      now
    write-bg w <id> <value> [ts=<ns>]   join               (dsim ext2: a write left outstanding / its answer)
    unregister w <id> [ts=<ns>]
    (template option: `topic t0 P1 T0 ki` + `writer w0 pub t0 [qos]` before `writer w`: an idle first writer)
    advance <ns>   jump <ns>   late-release <ns>   release
    hold ACKNACK user   drop-if ACKNACK user [times=n]   drop-next <n> ACKNACK|DATA user   drop-if DATA user times=n
    hold-off   clear-faults   trace on|off|show
The answers of `take` and `trace show` are canonicalised (canon()) on BOTH sides before they are compared: `take`
keeps `<id>:<value>@<source ts>` per sample, grouped by instance in order of first appearance; `trace show` keeps
the datagrams of the user writer/reader as `t=<ns> <submessages without entity ids and lengths> <fate>`.
"""
import re
from vlib.core import Case, run_cases, harness_bin, model_bin, case_hash, shrink_case

ENGINE = "wrt"            # harness binary `wrt` = alias of `dsim` (harness/src/bin/wrt.rs); model engine `dustmodel wrt`
MODEL_ENGINE = "wrt"
MS = 1000000
SEC = 1000000000

# Repairs the MODEL assumes to be present in the tree under test (all committed in /repo main, see notes/w2c.md "Follow-up"):
#   D25  a refused write does not register its instance          (Model/WriterEnt.lean `entWrite`)
#   D81  a write refused for max_instances does not evict first    (`evictWrite` / `roomFor`; fixes/D81.patch)
#   D34  the worker purges expired samples before every mail       (`step`, World.iterate; the line `# assume-fix D34` that
#        scenarios still start with is accepted and ignored by the model since the follow-up)
#   D2/D8, D4/D42, D43: contiguous-only GAP on the reader, DATA after a gap, proxy kept on re-match
# Environment override for experiments: WRT_ASSUME_D34=1
import os as _os
ASSUMED_FIXES = {"D25", "D34"}   # both repairs are committed in /repo (fix: commits); WRT_ASSUME_D34 is obsolete

_PRE = ["# assume-fix D34"] if "D34" in ASSUMED_FIXES else []
TEMPLATE = _PRE + ["participant P1", "participant P2", "topic t1 P1 T ki", "topic t2 P2 T ki", "publisher pub P1",
                   "subscriber sub P2"]


# ----------------------------------------------------------------------------- canonical answers

_SUB = re.compile(r"(DATA_FRAG|DATA|HEARTBEAT_FRAG|HEARTBEAT|ACKNACK|NACK_FRAG|GAP)\(([^)]*)\)")


def _canon_sub(kind, body):
    f = {}
    # `set=[2, 3]` contains ", "
    body = re.sub(r"\[([^\]]*)\]", lambda m: "[" + m.group(1).replace(" ", "").replace(",", ";") + "]", body)
    for t in body.split(","):
        k, _, v = t.partition("=")
        f[k.strip()] = v.strip().replace(";", ",")
    if kind == "DATA":
        return f"DATA(sn={f.get('sn')})"
    if kind == "HEARTBEAT":
        return f"HEARTBEAT(first={f.get('first')},last={f.get('last')},count={f.get('count')})" + ("" if f.get("final", "0") == "0" else "F")
    if kind == "GAP":
        return f"GAP(start={f.get('start')},base={f.get('base')})" + ("" if f.get("set", "[]") == "[]" else f"set={f.get('set')}")
    if kind == "ACKNACK":
        return f"ACKNACK(base={f.get('base')},set={f.get('set')},count={f.get('count')})"
    return f"{kind}({body})"


def is_user_entry(entry):
    """a trace entry that concerns a user-defined writer (entity kind 0x02/0x03 in `w=`)"""
    return any(m.group(1)[-2:] in ("02", "03") for m in re.finditer(r"w=([0-9a-f]{8})", entry))


def canon_trace(o):
    """impl answer of `trace show` -> canonical answer (see module doc)"""
    if not o.startswith("ok"):
        return o
    parts = o.split(" | ")[1:]
    out = []
    for e in parts:
        if not is_user_entry(e):
            continue
        t = re.search(r"\bt=(-?\d+)", e).group(1)
        fate = e.rsplit(" ", 1)[1]
        subs = [_canon_sub(m.group(1), m.group(2)) for m in _SUB.finditer(e)]
        out.append(f"t={t} {' '.join(subs)} {fate}")
    return f"ok {len(out)}" + ("".join(" | " + x for x in out))


def canon_take(o):
    if not o.startswith("ok "):
        return o
    toks = o.split()[2:]
    samples = []
    for t in toks:
        a = t.split("/")
        if a[0] == "-":
            # a key-only marker (unregister / dispose): no data, the instance is in the handle field h(<key>)
            k = a[10][2:-1] if a[10].startswith("h(") else a[10]
            samples.append((k, f"{k}:-@{a[9]}"))
        else:
            samples.append((a[0].split(":")[0], f"{a[0]}@{a[9]}"))
    order, groups = [], {}
    for k, s in samples:
        if k not in groups:
            groups[k] = []
            order.append(k)
        groups[k].append(s)
    flat = [s for k in order for s in groups[k]]
    return f"ok {len(flat)} " + " ".join(flat)


def canon(line, o):
    """canonical form of the IMPLEMENTATION's answer to `line`"""
    t = line.split()
    if not t:
        return o
    if t[0] == "take":
        return canon_take(o)
    if t[0] == "trace" and t[1:] == ["show"]:
        return canon_trace(o)
    return o


# ----------------------------------------------------------------------------- running both sides

def run_both(cases, env=None):
    """-> (impl raw outputs, impl canonical outputs, model outputs)"""
    impl, _ = run_cases([harness_bin(ENGINE)], cases, env=env)
    model, bad_m = run_cases([model_bin(), MODEL_ENGINE], cases)
    can = [[canon(l, o) for l, o in zip(c.lines, io)] for c, io in zip(cases, impl)]
    return impl, can, model, bad_m


def differential(ctx, cases, nontrivial, oracle, shrink=True):
    """the wrt flavour of RunCtx.differential: canonicalise the implementation's answers, compare line by line with
    the model's prediction, run the oracle on the RAW implementation output"""
    impl, can, model, bad_m = run_both(cases)
    if bad_m is not None:
        ctx.disagreements.append({"what": "model driver crashed (model bug, not evidence about the code)",
                                  "ops": cases[bad_m[0]].lines, "detail": str(bad_m[1:])})
    for idx, c in enumerate(cases):
        ctx.stats["evaluations"] += 1
        io, co, mo = impl[idx], can[idx], model[idx]
        h = case_hash(c.lines)
        nt = nontrivial(c, io)
        if nt and h not in ctx._seen:
            ctx._seen.add(h)
            ctx.stats["distinct_nontrivial"] += 1
        if len(ctx.samples) < 8 and nt:
            ctx.samples.append({"ops": c.lines[:14], "impl": co[:14]})
        if "bad-op" in mo:
            k = mo.index("bad-op")
            ctx.disagreements.append({"what": "the generator left the sub-language the model predicts (generator bug, not evidence about the code)",
                                      "ops": c.lines, "at": k, "impl": co[k] if k < len(co) else None, "model": "bad-op"})
        elif co != mo:
            k = next((i for i in range(min(len(co), len(mo))) if co[i] != mo[i]), min(len(co), len(mo)))
            d = {"what": "model and implementation differ", "ops": c.lines, "at": k, "op": c.lines[k] if k < len(c.lines) else None,
                 "impl": co[k] if k < len(co) else None, "model": mo[k] if k < len(mo) else None}
            if shrink and len(ctx.disagreements) < 1:
                def still(cand):
                    _, a, b, _ = run_both([Case(cand)])
                    return a[0] != b[0] and "bad-op" not in b[0]
                small = shrink_case(c.lines, still, budget=60)
                _, a, b, _ = run_both([Case(small)])
                d.update({"shrunk_ops": small, "shrunk_impl": a[0], "shrunk_model": b[0]})
            ctx.disagreements.append(d)
        for v in oracle(c, io) or []:
            v.setdefault("ops", c.lines)
            ctx.violations.append(v)
    return impl


# ----------------------------------------------------------------------------- scenario walking (implementation side)

def parse_qos_tokens(toks):
    return dict(t.split("=", 1) for t in toks if "=" in t)


def dur(v, default=None):
    if v is None:
        return default
    return None if v == "inf" else int(v)


class Walk:
    """what a scenario did, reconstructed from the op lines and the IMPLEMENTATION's answers only"""
    def __init__(self, case, out):
        self.lines, self.out = case.lines, out
        self.wq, self.rq, self.reader_at = None, None, None      # qos token dicts; index of the reader line
        self.writes = []       # dict(i, key, val, ts_arg, t0, t1, ans, withheld, lossy)
        self.takes = []        # (i, time, [(key, val, ts)])
        self.markers = []      # (i, key, ts) key-only samples the reader returned
        self.lookups = []      # (i, key, answer)
        self.unregs = []       # dict(i, key, ans, ts_arg, t0): unregister_instance calls
        bg = None              # the outstanding `write-bg` call
        self.trace = []        # (i, t, subs string, fate) of user traffic
        self.late_times = set()
        self.late_shows = set()    # indices of the `trace show` lines that display what a `late-release` emitted
        self.broken = None     # first PANIC/HANG/... answer
        now = 0
        withheld = False       # a standing rule keeps every ACKNACK away from the writer
        lossy = 0
        for i, (l, o) in enumerate(zip(case.lines, out)):
            t = l.split()
            if o in ("PANIC", "HANG", "CRASH", "POISONED") or o.startswith("CRASH"):
                if self.broken is None:
                    self.broken = (i, l, o)
                continue
            if not t:
                continue
            if t[0] == "writer":
                self.wq = parse_qos_tokens(t[4:])
            elif t[0] == "reader" and o.startswith("ok"):
                self.rq = parse_qos_tokens(t[4:])
                self.reader_at = i
            elif t[0] == "now" and o.startswith("ok "):
                now = int(o.split()[1])
            elif t[0] == "write":
                ts_arg = next((int(x[3:]) for x in t[4:] if x.startswith("ts=")), None)
                t1 = None
                if i + 1 < len(case.lines) and case.lines[i + 1] == "now" and i + 1 < len(out) and out[i + 1].startswith("ok "):
                    t1 = int(out[i + 1].split()[1])
                self.writes.append({"i": i, "key": int(t[2]), "val": int(t[3]), "ts_arg": ts_arg, "t0": now, "t1": t1, "ans": o,
                                    "withheld": withheld, "lossy": lossy > 0, "reader": self.reader_at is not None, "bg": False})
            elif t[0] == "write-bg" and o == "ok":
                ts_arg = next((int(x[3:]) for x in t[4:] if x.startswith("ts=")), None)
                bg = {"key": int(t[2]), "val": int(t[3]), "ts_arg": ts_arg, "t0": now, "i_issue": i,
                      "withheld": withheld, "lossy": lossy > 0, "reader": self.reader_at is not None, "bg": True}
            elif t[0] == "join" and bg is not None:
                t1 = None
                if i + 1 < len(case.lines) and case.lines[i + 1] == "now" and i + 1 < len(out) and out[i + 1].startswith("ok "):
                    t1 = int(out[i + 1].split()[1])
                bg.update({"i": i, "t1": t1, "ans": o, "t_join": now})
                self.writes.append(bg)
                bg = None
            elif t[0] == "unregister":
                self.unregs.append({"i": i, "key": int(t[2]), "ans": o,
                                    "ts_arg": next((int(x[3:]) for x in t[3:] if x.startswith("ts=")), None), "t0": now})
            elif t[0] == "take":
                c = canon_take(o)
                ss = []
                if c.startswith("ok "):
                    for x in c.split()[2:]:
                        kv, ts = x.split("@")
                        k, v = kv.split(":")
                        if v == "-":
                            self.markers.append((i, int(k), int(ts)))     # key-only sample of an unregister
                        else:
                            ss.append((int(k), int(v), int(ts)))
                self.takes.append((i, now, ss))
            elif t[0] == "lookup":
                self.lookups.append((i, int(t[2]), o))
            elif t[0] == "trace" and t[1:] == ["show"]:
                c = canon_trace(o)
                for e in c.split(" | ")[1:]:
                    a = e.split(" ")
                    self.trace.append((i, int(a[0][2:]), " ".join(a[1:-1]), a[-1]))
            elif t[0] in ("hold", "drop-if") and t[1:3] == ["ACKNACK", "user"] and len(t) == 3:
                withheld = True
            elif t[0] in ("release", "hold-off", "clear-faults"):
                if t[0] != "release":
                    withheld = False
                if t[0] == "clear-faults":
                    lossy = 0
            elif t[0] in ("drop-next", "drop-if") and "DATA" in t:
                lossy += 1
            if t[0] == "late-release":
                # the generator writes `trace show`, `late-release <ns>`, `now`, `trace show`
                if i + 1 < len(out) and case.lines[i + 1] == "now" and out[i + 1].startswith("ok "):
                    self.late_times.add(int(out[i + 1].split()[1]))
                if i >= 1 and case.lines[i - 1] == "trace show" and i + 2 < len(case.lines) and case.lines[i + 2] == "trace show":
                    self.late_shows.add(i + 2)

    def depth(self):
        h = (self.wq or {}).get("history", "keep_last:1")
        return None if h == "keep_all" else int(h.split(":")[1])

    def writer_reliable(self):
        return (self.wq or {}).get("reliability", "reliable") == "reliable"

    def reader_reliable(self):
        return self.rq is not None and self.rq.get("reliability", "best_effort") == "reliable"

    def max_blocking(self):
        return dur((self.wq or {}).get("max_blocking"), 100 * MS)

    def lifespan(self):
        return dur((self.wq or {}).get("lifespan"), None)

    def limit(self, k):
        return dur((self.wq or {}).get(k), None)

    def received(self):
        """per instance, everything the reader returned during the scenario, in order"""
        per = {}
        for _, _, ss in self.takes:
            for k, v, ts in ss:
                per.setdefault(k, []).append((v, ts))
        return per


# ----------------------------------------------------------------------------- oracles (implementation output only)

def broken_violation(w):
    i, l, o = w.broken
    return [{"what": f"op {i} `{l}` answered {o}: a panic / hang / crash inside the middleware", "at": i}]


def c27_oracle(case, out):
    """C27 on the implementation's answers alone:
    T1 a write answers Timeout only when it can have been blocked (RELIABLE KEEP_LAST writer, matched reliable reader,
       finite max_blocking_time), and then exactly max_blocking_time after it was issued;
    T2 a successful write never takes longer than max_blocking_time;
    B  while every ACKNACK is withheld (`hold ACKNACK user` / `drop-if ACKNACK user`), a write to an instance whose last
       `depth` samples were all written under the same withholding cannot be acknowledged, so it must NOT answer ok;
    D  the reliable KEEP_ALL reader that was matched before the first write ends up with exactly the successfully
       written samples of every instance, in order (nothing unacknowledged was dropped, nothing refused was stored);
       a late-joining reader gets at most `depth` historical samples per instance - exactly the newest ones the writer
       holds if both sides are TRANSIENT_LOCAL, none if it is VOLATILE - and every sample written after it was matched."""
    w = Walk(case, out)
    if w.broken:
        return broken_violation(w)
    if w.wq is None:
        return []
    viol = []
    depth, rel, mbt = w.depth(), w.writer_reliable(), w.max_blocking()
    hist = {}                      # key -> list of [val, unackable]: the successful writes of the instance
    by_index = {x["i"]: x for x in w.writes}
    withheld, rel_reader, ri = False, False, w.reader_at
    for i, l in enumerate(case.lines):
        t = l.split()
        if not t:
            continue
        if t[0] in ("hold", "drop-if") and t[1:] == ["ACKNACK", "user"]:
            withheld = True
        elif t[0] in ("release", "hold-off", "clear-faults"):
            # acknowledgements get through (or may get through from now on): nothing is provably unacknowledged any more
            for h in hist.values():
                for e in h:
                    e[1] = False
            if t[0] != "release":
                withheld = False
        elif i == ri:
            rel_reader = w.reader_reliable()
            if rel_reader and withheld:
                # a new reliable proxy has acknowledged nothing, and its ACKNACKs are withheld from the start
                for h in hist.values():
                    for e in h:
                        e[1] = True
        x = by_index.get(i)
        if x is None:
            continue
        ans, el = x["ans"], (x["t1"] - x["t0"]) if x["t1"] is not None else None
        can_block = rel and depth is not None and rel_reader
        h = hist.setdefault(x["key"], [])
        must_block = can_block and withheld and len(h) >= depth and h[-depth][1]
        if ans == "err:Timeout":
            if not can_block:
                viol.append({"what": f"op {i} `{l}` answered Timeout although nothing can block it (writer reliable={rel}, depth={depth}, reliable reader matched={rel_reader})", "at": i})
            elif mbt is None:
                viol.append({"what": f"op {i}: Timeout with an infinite max_blocking_time", "at": i})
            elif el is not None and x["t1"] != max(x["t0"] + mbt, x.get("t_join", x["t0"])):
                # (a `write-bg` call is answered at issue + max_blocking_time; `join` sees the answer when it is called)
                viol.append({"what": f"op {i}: Timeout {el} ns after the write was issued at t={x['t0']}, max_blocking_time is {mbt} ns"
                                     + (f" (join called at t={x['t_join']})" if x.get("bg") else ""), "at": i})
        elif ans == "ok":
            if mbt is not None and el is not None and x["t1"] > max(x["t0"] + mbt, x.get("t_join", x["t0"])):
                viol.append({"what": f"op {i}: the write completed {el} ns after it was issued, max_blocking_time is {mbt} ns", "at": i})
            if must_block:
                viol.append({"what": f"op {i} `{l}` answered ok although the oldest of the {depth} stored samples of instance {x['key']} "
                                     f"(value {h[-depth][0]}) cannot have been acknowledged: every ACKNACK since it was written is withheld", "at": i})
            h.append([x["val"], bool(can_block and withheld)])
        elif ans != "err:OutOfResources":
            viol.append({"what": f"op {i} `{l}` answered {ans}", "at": i})
    # D: what the reader ended up with
    if w.rq is not None and w.takes and rel and w.lifespan() is None:
        got = w.received()
        first_write = min((x["i"] for x in w.writes), default=None)
        keys = sorted(set(x["key"] for x in w.writes))
        written = {k: [x["val"] for x in w.writes if x["key"] == k and x["ans"] == "ok"] for k in keys}
        if w.reader_reliable() and (first_write is None or ri < first_write):
            for k in keys:
                g = [v for v, _ in got.get(k, [])]
                if g != written[k]:
                    viol.append({"what": f"the reliable reader matched before the first write received {g} for instance {k}, the writer accepted {written[k]} "
                                         "(a sample was dropped before it was acknowledged, or a refused sample was delivered)"})
        elif w.reader_reliable():
            tl = w.rq.get("durability") == "transient_local" and (w.wq or {}).get("durability") == "transient_local"
            for k in keys:
                before = [x["val"] for x in w.writes if x["key"] == k and x["ans"] == "ok" and x["i"] < ri]
                after = [x["val"] for x in w.writes if x["key"] == k and x["ans"] == "ok" and x["i"] > ri]
                g = [v for v, _ in got.get(k, [])]
                old = [v for v in g if v in before]
                if depth is not None and len(old) > depth:
                    viol.append({"what": f"late joiner received {len(old)} historical samples of instance {k} from a KEEP_LAST({depth}) writer: {old}"})
                if depth is not None and any(v not in before[-depth:] for v in old):
                    viol.append({"what": f"late joiner received {old} of instance {k}; KEEP_LAST({depth}) must have replaced everything but {before[-depth:]}"})
                # with the GAP repairs (D2, D42) in /repo a late joiner gets exactly what the writer holds at the match: the newest
                # `depth` accepted samples of each instance if both sides are TRANSIENT_LOCAL, nothing if the reader is VOLATILE.
                # (a write that was refused or timed out around the join is not tracked precisely: skip the exact comparison then)
                exp_old = (before[-depth:] if depth is not None else before) if tl else []
                if old != exp_old and not any(x["ans"] != "ok" for x in w.writes):
                    viol.append({"what": f"late joiner (transient_local={tl}) received historical samples {old} of instance {k}, "
                                         f"the writer held {exp_old} when it was matched"})
                if [v for v in g if v in after] != after:
                    viol.append({"what": f"late joiner received {[v for v in g if v in after]} of the samples written after it was matched, the writer accepted {after} (instance {k})"})
        # never: a sample whose write was refused
        refused = set(x["val"] for x in w.writes if x["ans"] != "ok")
        for k, l in got.items():
            for v, _ in l:
                if v in refused:
                    viol.append({"what": f"the reader received value {v} of instance {k} although its write was refused"})
    return viol


def c27_nontrivial(case, out):
    w = Walk(case, out)
    if w.wq is None or w.depth() is None or not w.writer_reliable() or not w.reader_reliable():
        return False
    return any(x["reader"] and (x["withheld"] or x["lossy"] or x["ans"] == "err:Timeout" or (x["t1"] or 0) > x["t0"]) for x in w.writes)


def c29_oracle(case, out):
    """C29 on the implementation's answers alone (needs `trace on` from the start):
    E  every DATA submessage of the user writer that the trace shows at time t (whatever happened to the datagram
       afterwards) carries a sample with source timestamp + lifespan > t. The k-th successful write has sequence number
       k; its source timestamp is the `ts=` argument or the clock when the call was issued.
       cause expired-repair-before-purge (D34, repaired in /repo: the entry in known_findings.json is `fixed`, so a hit
       is a violation again) for a transmission emitted inside a `late-release` op at the instant the clock jumped to,
       i.e. the answer to an ACKNACK that is handled before the overdue worker iteration of that instant;
    W  a sample that was already expired when it was written is never sent and never received;
    R  the reader never returns a sample it could only have got from an expired transmission (follows from E with
       the zero-latency network; checked directly for the samples of W)."""
    w = Walk(case, out)
    if w.broken:
        return broken_violation(w)
    life = w.lifespan()
    if w.wq is None or life is None:
        return []
    viol = []
    sn, info = 0, {}
    for x in sorted(w.writes + [dict(u, unreg=True) for u in w.unregs], key=lambda e: e["i"]):
        if x["ans"] != "ok":
            continue
        sn += 1                     # an accepted unregister_instance consumes a sequence number as well (key-only change)
        if x.get("unreg"):
            continue
        ts = x["ts_arg"] if x["ts_arg"] is not None else x["t0"]
        info[sn] = {"ts": ts, "val": x["val"], "key": x["key"], "dead_at_write": ts + life <= x["t0"], "i": x["i"]}
    seen = set()
    for i, t, subs, fate in w.trace:
        for m in re.finditer(r"DATA\(sn=(\d+)\)", subs):
            n = int(m.group(1))
            if n in info and info[n]["ts"] + life <= t:
                v = {"what": f"DATA(sn={n}) (value {info[n]['val']}, source timestamp {info[n]['ts']}, lifespan {life}) was put on the wire at t={t}, "
                             f"{t - info[n]['ts'] - life} ns after it expired ({fate})", "at": i, "sn": n, "t": t}
                if i in w.late_shows and t in w.late_times:
                    v["cause"] = "expired-repair-before-purge"
                viol.append(v)
            seen.add(n)
    dead = {x["val"] for x in info.values() if x["dead_at_write"]}
    for i, t, ss in w.takes:
        for k, v, ts in ss:
            if v in dead:
                viol.append({"what": f"op {i}: the reader returned value {v} of instance {k}, which had already expired when it was written", "at": i})
    return viol


def c29_nontrivial(case, out):
    """finite lifespan, and the clock passes the expiry of at least one accepted sample (or a sample is expired at write)"""
    w = Walk(case, out)
    life = w.lifespan()
    if life is None:
        return False
    end = max([t for _, t, _ in w.takes] + [x["t1"] or 0 for x in w.writes] + [0])
    for x in w.writes:
        if x["ans"] == "ok":
            ts = x["ts_arg"] if x["ts_arg"] is not None else x["t0"]
            if ts + life <= end:
                return True
    return False


def writer_oracle(case, out):
    """writer half of C19 on the implementation's answers alone. The oracle keeps its own count of what a writer
    that obeys the DDS rules stores (KEEP_ALL: every accepted sample; KEEP_LAST(d): the newest d accepted samples of
    an instance - valid because the generated cases let every acknowledgement through, or have no reliable reader)
    and demands, for every write:
      * OutOfResources exactly when the write would exceed max_instances (new instance), max_samples_per_instance
        (not applicable when KEEP_LAST depth <= the limit, as coded and as DDS allows) or max_samples;
      * a refused write stores nothing: the reader never receives it, and `lookup_instance` of an instance whose
        every write was refused answers `none` (cause refused-write-registers-instance = D25 when it does not);
      * the reader receives exactly the accepted samples."""
    w = Walk(case, out)
    if w.broken:
        return broken_violation(w)
    if w.wq is None:
        return []
    viol = []
    depth = w.depth()
    ms, mi, mspi = w.limit("max_samples"), w.limit("max_instances"), w.limit("max_spi")
    count = {}                     # instance -> samples a conforming writer holds
    registered = set()             # instances the writer currently knows (an accepted unregister_instance frees the slot, not the samples)
    accepted = {}                  # instance -> values accepted
    by_index = {x["i"]: x for x in w.writes}
    unreg_at = {u["i"]: u for u in w.unregs}
    look = {i: (k, o) for i, k, o in w.lookups}
    # D81: a write refused for max_instances on an UNREGISTERED instance whose KEEP_LAST deque is full used to evict the
    # oldest sample before it was refused; from then on the implementation holds fewer samples than a conforming writer
    d81_suspect = False
    for i, l in enumerate(case.lines):
        if i in unreg_at:
            u = unreg_at[i]
            if u["ans"] == "ok":
                if u["key"] not in registered:
                    viol.append({"what": f"op {i} `{l}` accepted for an instance the writer does not know", "at": i})
                registered.discard(u["key"])
            elif u["key"] in registered:
                viol.append({"what": f"op {i} `{l}` answered {u['ans']} for a registered instance", "at": i})
        elif i in by_index:
            x = by_index[i]
            k, ans = x["key"], x["ans"]
            new = k not in registered
            n_k = count.get(k, 0)
            if depth is not None and n_k == depth:
                n_k -= 1                                   # KEEP_LAST replaces the oldest sample of the instance
            total = sum(count.values()) - (count.get(k, 0) - n_k)
            why = None
            if new and mi is not None and len(registered) >= mi:
                why = "max_instances"
            elif mspi is not None and not (depth is not None and depth <= mspi) and n_k >= mspi:
                why = "max_samples_per_instance"
            elif ms is not None and total >= ms:
                why = "max_samples"
            if ans == "err:OutOfResources" and why == "max_instances" and depth is not None and count.get(k, 0) == depth:
                d81_suspect = True
            if ans == "err:OutOfResources":
                if why is None:
                    viol.append({"what": f"op {i} `{l}` answered OutOfResources although no limit would be exceeded "
                                         f"(instances {len(registered)}/{mi}, samples of the instance {n_k}/{mspi}, samples {total}/{ms})", "at": i})
            elif ans == "ok":
                if why is not None:
                    v = {"what": f"op {i} `{l}` was accepted although it exceeds {why} "
                                 f"(instances {len(registered)}/{mi}, samples of the instance {n_k}/{mspi}, samples {total}/{ms})"
                                 + ("; an earlier write to an unregistered, full instance was refused for max_instances - a refused write "
                                    "must not evict a stored sample" if d81_suspect and why != "max_instances" else ""), "at": i}
                    if d81_suspect and why != "max_instances":
                        v["cause"] = "refused-write-evicts-oldest-sample"
                    viol.append(v)
                count[k] = n_k + 1
                registered.add(k)
                accepted.setdefault(k, []).append(x["val"])
            else:
                viol.append({"what": f"op {i} `{l}` answered {ans}", "at": i})
            if x["t1"] is not None and x["t1"] != x["t0"]:
                viol.append({"what": f"op {i}: a write that cannot block took {x['t1'] - x['t0']} ns", "at": i})
        elif i in look:
            k, o = look[i]
            attempted = any(x["key"] == k and x["i"] < i for x in w.writes)
            if k in registered and o != f"ok h({k})":
                viol.append({"what": f"op {i}: lookup_instance of the written instance {k} answered {o}", "at": i})
            if k not in registered and o != "ok none":
                v = {"what": f"op {i}: lookup_instance({k}) answered {o} although no write to that instance was accepted (since it was last unregistered)", "at": i}
                if attempted and o == f"ok h({k})":
                    v["cause"] = "refused-write-registers-instance"
                viol.append(v)
    if w.rq is not None and w.reader_reliable() and w.takes:
        got = w.received()
        for k in sorted(set(list(accepted) + list(got))):
            g = [v for v, _ in got.get(k, [])]
            if g != accepted.get(k, []):
                viol.append({"what": f"the reader received {g} for instance {k}, the writer accepted {accepted.get(k, [])}"})
    return viol


def writer_nontrivial(case, out):
    """at least one write refused and one accepted"""
    w = Walk(case, out)
    a = [x["ans"] for x in w.writes]
    return "err:OutOfResources" in a and "ok" in a


WRITER_CORPUS = [
    # D81: a write refused for max_instances on an unregistered, full KEEP_LAST instance must not evict a sample first
    TEMPLATE + ["writer w pub t1 reliability=reliable history=keep_last:3 max_samples=4 max_instances=1 max_spi=3 max_blocking=0",
                "reader r sub t2 reliability=reliable history=keep_all",
                "now", "write w 2 1", "now", "now", "write w 2 2", "now", "now", "write w 2 3", "now", "unregister w 2",
                "now", "write w 1 4", "now", "now", "write w 2 5", "now", "now", "write w 2 6", "now", "now", "write w 1 7", "now",
                "lookup w 1", "lookup w 2", "clear-faults", "release", "advance 300000000", "now", "take r"],
    # D25 (DESIGN 7.1): limits (1 sample, 2 instances): write A ok, write B refused, lookup_instance(B) answers the handle
    TEMPLATE + ["writer w pub t1 reliability=reliable history=keep_all max_samples=1 max_instances=2 max_spi=1",
                "now", "write w 1 1", "now", "now", "write w 2 2", "now", "lookup w 1", "lookup w 2", "lookup w 3"],
    # every limit once, with a reader that must receive exactly the accepted samples
    TEMPLATE + ["writer w pub t1 reliability=reliable history=keep_all max_samples=3 max_instances=2 max_spi=2",
                "reader r sub t2 reliability=reliable history=keep_all",
                "now", "write w 1 1", "now", "now", "write w 1 2", "now", "now", "write w 1 3", "now", "now", "write w 2 4", "now",
                "now", "write w 3 5", "now", "now", "write w 2 6", "now", "lookup w 1", "lookup w 2", "lookup w 3",
                "clear-faults", "release", "advance 300000000", "now", "take r"],
    # KEEP_LAST(2) with max_samples_per_instance = depth: never refused for the instance limit, max_samples binds
    TEMPLATE + ["writer w pub t1 reliability=reliable history=keep_last:2 max_samples=3 max_instances=inf max_spi=2 max_blocking=0",
                "reader r sub t2 reliability=reliable history=keep_all",
                "now", "write w 1 1", "now", "now", "write w 1 2", "now", "now", "write w 1 3", "now", "now", "write w 2 4", "now",
                "now", "write w 2 5", "now", "now", "write w 1 6", "now", "lookup w 1", "lookup w 2",
                "clear-faults", "release", "advance 300000000", "now", "take r"],
]


def writer_cases(rng, tier):
    """cases of the writer half of C19 (for vlib/props/C19.py: `wrt_common.differential(ctx, writer_cases(ctx.rng, ctx.tier),
    writer_nontrivial, writer_oracle)` with BINS += ["wrt", "dsim"])"""
    n = 200 if tier == "quick" else 2500
    cases = [Case(list(c), {"kind": "corpus"}) for c in WRITER_CORPUS]
    for k in range(n):
        cases.append(gen_c19(rng, long=(tier == "thorough" and k % 8 == 0)))
    return cases


# ----------------------------------------------------------------------------- generators

def fmt_qos(d):
    return " ".join(f"{k}={v}" for k, v in d.items())


def _inf(x):
    return "inf" if x is None else str(x)


class Gen:
    """incremental scenario builder; `now` lines follow every op that can move the clock"""
    def __init__(self, r, wq, announce=None, first_writer=None):
        self.r = r
        # first_writer: QoS tokens of an idle writer `w0` (own topic, never matched or written) created BEFORE `w`
        extra = ["topic t0 P1 T0 ki", ("writer w0 pub t0 " + fmt_qos(first_writer)).rstrip()] if first_writer is not None else []
        self.lines = (_PRE + ([f"config announce={announce}"] if announce else []) + list(TEMPLATE[len(_PRE):]) + extra
                      + [("writer w pub t1 " + fmt_qos(wq)).rstrip()])
        self.val = 0
        self.has_reader = False

    def reader(self, rq):
        self.lines.append("reader r sub t2 " + fmt_qos(rq))
        self.has_reader = True

    def write(self, key, ts=None):
        self.val += 1
        self.lines.append("now")
        self.lines.append(f"write w {key} {self.val}" + (f" ts={ts}" if ts is not None else ""))
        self.lines.append("now")

    def write_bg(self, key, ts=None):
        self.val += 1
        self.lines.append("now")
        self.lines.append(f"write-bg w {key} {self.val}" + (f" ts={ts}" if ts is not None else ""))

    def join(self):
        self.lines.append("join")
        self.lines.append("now")

    def op(self, line, clock=False):
        self.lines.append(line)
        if clock:
            self.lines.append("now")

    def drain(self, ns=2 * SEC):
        """let every repair finish: no faults, held datagrams released, time for several heartbeat periods"""
        self.lines += ["clear-faults", "release", f"advance {ns}", "now"]
        if self.has_reader:
            self.lines.append("take r")

    def case(self, **meta):
        return Case(self.lines, meta)


BLOCKS = [0, 1, 30 * MS, 50 * MS, 130 * MS, 200 * MS, 250 * MS, 400 * MS, SEC]


def gen_c27(r, long=False):
    depth = r.choice([1, 1, 2, 2, 3])
    reliable = not r.chance(1, 8)
    withhold = r.chance(3, 5)             # the case uses `hold` / an endless drop rule: blocking must be finite
    mbt = r.choice(BLOCKS) if (withhold or r.chance(3, 4)) else None
    tl = r.chance(1, 3)
    wq = {"reliability": "reliable" if reliable else "best_effort", "history": f"keep_last:{depth}", "max_blocking": _inf(mbt)}
    if tl:
        wq["durability"] = "transient_local"
    if r.chance(1, 6):
        wq["max_spi"] = depth + r.below(2)
    g = Gen(r, wq, announce=r.choice([None, None, None, 700 * MS]))
    mode = r.below(10)                    # 0: no reader, 1: best-effort reader, 2: late joiner, else reliable reader from the start
    rq = {"reliability": "reliable" if (reliable and mode != 1) else "best_effort", "history": "keep_all"}
    if tl and r.chance(1, 2):
        rq["durability"] = "transient_local"
    if mode >= 3 or mode == 1:
        g.reader(rq)
    trace = r.chance(1, 2)
    if trace:
        g.op("trace on")
    keys = [1, 2, 3][: r.range(1, 3)]
    n = r.range(4, 12) * (3 if long else 1)
    late_at = r.range(1, n - 1) if mode == 2 else None
    held = False
    # source timestamps that differ from the clock (replayed data, skewed application clock): the blocking time of a
    # write must not depend on them
    stamps = [None, None, None, -5 * SEC, -SEC, 0, 3 * SEC, 20 * SEC]
    if mode >= 3 and reliable and mbt is not None and r.chance(1, 5):
        # the instance of a BLOCKED write is unregistered (two calls in flight: write-bg ... join): the write must keep
        # waiting for the acknowledgement of the oldest sample
        x = r.choice(keys)
        g.op("hold ACKNACK user"); held = True
        for _ in range(depth):
            g.write(x, ts=r.choice(stamps))
        g.write_bg(x, ts=r.choice(stamps))
        g.op(f"unregister w {x}")
        if r.chance(1, 2):
            g.op(f"advance {r.choice([1, 20 * MS, 50 * MS, 60 * MS])}", clock=True)
        if r.chance(1, 3):
            g.op("release")
        g.join()
        n = r.range(1, 5)
    for k in range(n):
        if late_at == k:
            g.reader(rq)
        c = r.below(100)
        if c < 47:
            g.write(r.choice(keys), ts=r.choice(stamps))
        elif c < 50:
            g.op(f"unregister w {r.choice(keys)}")
        elif c < 58 and withhold and g.has_reader and not held:
            g.op("hold ACKNACK user"); held = True
        elif c < 66 and held:
            g.op("release")
            if r.chance(1, 2):
                g.op("hold-off"); held = False
        elif c < 74 and g.has_reader and mode >= 3:
            g.op(f"drop-next {r.range(1, 2)} DATA user")
        elif c < 82 and g.has_reader:
            g.op(f"drop-if ACKNACK user times={r.range(1, 4)}")
        elif c < 86 and withhold and g.has_reader and not held:
            g.op("drop-if ACKNACK user"); held = True
        elif c < 90 and held:
            g.op("clear-faults"); held = False
        else:
            g.op(f"advance {r.choice([1, 10 * MS, 49 * MS, 50 * MS, 70 * MS, 200 * MS, 230 * MS, 500 * MS])}", clock=True)
    if mode == 2 and not g.has_reader:
        g.reader(rq)
    g.drain()
    if trace:
        g.op("trace show")
    return g.case(kind="c27", mode=mode)


def gen_c19(r, long=False):
    keep_all = r.chance(1, 2)
    depth = None if keep_all else r.choice([1, 2, 3])
    base = 1 if keep_all else depth
    # consistent settings only (qos.rs): depth <= max_samples_per_instance <= max_samples, unlimited > every number
    mspi = r.choice([None, base, base, base + 1, base + 2] + ([0] if keep_all and r.chance(1, 4) else []))
    ms = r.choice([None, mspi, mspi + 1, mspi + 2, mspi + 3]) if mspi is not None else None
    mi = r.choice([None, 1, 2, 2, 3])
    wq = {"reliability": "reliable", "history": "keep_all" if keep_all else f"keep_last:{depth}",
          "max_samples": _inf(ms), "max_instances": _inf(mi), "max_spi": _inf(mspi), "max_blocking": str(r.choice([0, 100 * MS]))}
    g = Gen(r, wq)
    mode = r.below(4)                     # 0: no reader, else a reliable reader from the start (acknowledgements flow)
    if mode:
        g.reader({"reliability": "reliable", "history": "keep_all"})
    keys = [1, 2, 3, 4][: r.range(2, 4)]
    n = r.range(5, 14) * (3 if long else 1)
    unreg = r.chance(1, 2)                # half of the cases also unregister instances: the slot of the instance is free again,
    for k in range(n):                    # its samples stay in the history and keep counting towards max_samples (seeded C19_b)
        g.write(r.choice(keys))
        if r.chance(1, 4):
            g.op(f"lookup w {r.choice(keys + [9])}")
        if unreg and r.chance(1, 5):
            g.op(f"unregister w {r.choice(keys)}")
    for k in keys + [9]:
        g.op(f"lookup w {k}")
    g.drain(300 * MS)
    return g.case(kind="c19")


LIFES = [100 * MS, 150 * MS, 300 * MS, 300 * MS, SEC]


def gen_c29(r, long=False):
    life = r.choice(LIFES)
    keep_all = r.chance(1, 2)
    tl = r.chance(1, 2)
    wq = {"reliability": "reliable", "history": "keep_all" if keep_all else f"keep_last:{r.choice([2, 3])}",
          "lifespan": str(life), "max_blocking": str(r.choice([0, 100 * MS, 300 * MS]))}
    if tl:
        wq["durability"] = "transient_local"
    # a third of the cases: an idle writer with the default (infinite) lifespan is created first in the same publisher -
    # the purge of expired samples must still reach the second writer
    first = r.choice([None, None, {}, {"reliability": "reliable", "history": "keep_all"}, {"lifespan": str(5 * SEC)}])
    g = Gen(r, wq, first_writer=first)
    rq = {"reliability": "reliable", "history": "keep_all"}
    if tl:
        rq["durability"] = "transient_local"
    mode = r.below(4)                     # 0: late joiner, else reader from the start
    if mode:
        g.reader(rq)
    g.op("trace on")
    keys = [1, 2]
    n = r.range(4, 10) * (3 if long else 1)
    late_at = r.range(1, n - 1) if mode == 0 else None
    if mode and r.chance(1, 4):
        # the D34 recipe: a lost DATA, the NACK withheld, then the clock jumps to / past the expiry with the NACK released
        g.op("drop-next 1 DATA user")
        g.write(r.choice(keys))
        g.op("hold ACKNACK user")
        w = r.choice([200 * MS, 230 * MS]) if life > 230 * MS else life // 2
        g.op(f"advance {w}", clock=True)
        d = life - w + r.choice([0, 0, 1, 50 * MS, -1])
        if r.chance(3, 4):
            g.op("trace show"); g.op(f"late-release {d}", clock=True); g.op("trace show")
        else:
            g.op(f"advance {d}", clock=True); g.op("release")
        n = r.range(1, 4)
    t = 0                                  # the generator's estimate of the clock (only used to choose ts= values)
    for k in range(n):
        if late_at == k:
            g.reader(rq)
        c = r.below(100)
        if c < 40:
            ts = None
            if r.chance(1, 3):
                ts = t - r.choice([0, life - 1, life, life + 1, life // 2, 10 * MS, -20 * MS])
            g.write(r.choice(keys), ts=ts)
        elif c < 52 and g.has_reader:
            g.op(f"drop-next {r.range(1, 2)} DATA user")
        elif c < 62 and g.has_reader:
            g.op("hold ACKNACK user")
        elif c < 72:
            d = r.choice([life - 1, life, life + 1, life + 50 * MS, life // 2, 2 * life, 210 * MS])
            g.op("trace show"); g.op(f"late-release {d}", clock=True); g.op("trace show"); t += d
        elif c < 78:
            d = r.choice([life, life + 1, 60 * MS, 2 * life])
            g.op(f"jump {d}", clock=True); t += d
        elif c < 84:
            g.op("release")
        elif c < 88:
            g.op("hold-off")
        else:
            d = r.choice([1, 40 * MS, 50 * MS, life - 1, life, life + 1, 200 * MS, 250 * MS])
            g.op(f"advance {d}", clock=True); t += d
        if r.chance(1, 5) and g.has_reader:
            g.op("take r")
    if mode == 0 and not g.has_reader:
        g.reader(rq)
    g.drain(SEC)
    g.op("trace show")
    return g.case(kind="c29")


if __name__ == "__main__":
    # development helper: python3 -m vlib.wrt_common <scenario file>  -> side-by-side answers
    import sys
    lines = [l.rstrip("\n") for l in open(sys.argv[1]) if l.strip()]
    impl, can, model, _ = run_both([Case(lines)])
    bad = 0
    for l, i, c, m in zip(lines, impl[0], can[0], model[0]):
        mark = "  " if c == m else "!!"
        bad += c != m
        print(f"{mark} {l}\n     impl : {c}\n     model: {m}")
    print("differences:", bad)
