"""Shared generator / parsers for the `hist` engine (reader history cache; C18-C25)."""
from vlib.core import Case

ENGINE = "hist"
KINDS_NOTALIVE = ("D", "U", "DU")


class Profile:
    """bias knobs for the generator"""
    def __init__(self, **kw):
        self.depths = kw.get("depths", ["all", 1, 1, 2, 3, 4])
        self.limits = kw.get("limits", True)          # allow finite resource limits
        self.order = kw.get("order", ["rcv", "rcv", "src"])
        self.own = kw.get("own", ["shared", "shared", "excl"])
        self.minsep = kw.get("minsep", [0, 0, 0, 5, 10, "inf"])
        self.kinds = kw.get("kinds", ["A"] * 8 + ["D", "U", "DU", "F"])
        self.ninst = kw.get("ninst", (1, 4))
        self.nwriters = kw.get("nwriters", (1, 3))
        self.nops = kw.get("nops", (4, 30))
        self.readops = kw.get("readops", ["read", "take", "readni", "takeni"])
        self.p_read = kw.get("p_read", 30)            # percent of ops that are read-like
        self.stamps = kw.get("stamps", "mixed")       # mixed | increasing | alphabet
        self.full_masks = kw.get("full_masks", 50)    # percent of read ops with ANY masks
        self.enabled0 = kw.get("enabled0", 3)         # percent of cases with a disabled reader
        self.unpub = kw.get("unpub", 3)


def gen_case(r, prof, long=False):
    depth = r.choice(prof.depths)
    ms = mi = mspi = "-"
    if prof.limits and r.chance(1, 2):
        d = 1 if depth == "all" else depth
        c = r.below(4)
        if c == 0:
            mspi = d                       # equality with depth (D24 boundary)
        elif c == 1:
            mspi = d + r.range(0, 2)
        if r.chance(1, 3):
            mi = r.range(1, 3)
        if r.chance(1, 3):
            base = mspi if mspi != "-" else d
            ms = base + r.range(0, 3)
    order = r.choice(prof.order)
    own = r.choice(prof.own)
    minsep = r.choice(prof.minsep)
    enabled = 0 if r.below(100) < prof.enabled0 else 1
    lines = [f"qos depth={depth} ms={ms} mi={mi} mspi={mspi} order={order} own={own} minsep={minsep} enabled={enabled}"]
    nw = r.range(*prof.nwriters)
    writers = [r.choice([1, 2, 3, 258, 513]) for _ in range(nw)]
    writers = sorted(set(writers))
    for w in writers:
        lines.append(f"pub {w} {r.choice([0, 1, 1, 5, 10, -1])}")
    ni = r.range(*prof.ninst)
    insts = sorted(set(r.choice([0, 1, 2, 5, 6, 7, 255, 256, 300, 511]) for _ in range(ni)))  # 0 = the all-zero handle (key 0 of a one-byte key)
    nops = r.range(*prof.nops) * (4 if long else 1)
    rts = 1000
    clock = 10
    seq = 0
    for _ in range(nops):
        if r.below(100) < prof.p_read:
            op = r.choice(prof.readops)
            if r.below(100) < prof.full_masks:
                ss, vs, is_ = 3, 3, 7
            else:
                ss, vs, is_ = r.range(0, 3), r.range(0, 3), r.range(0, 7)
                if r.chance(2, 3):
                    ss = ss or 3; vs = vs or 3; is_ = is_ or 7
            mx = r.choice([-1, -1, -1, 0, 1, 2, 3])
            if op in ("read", "take"):
                inst = "-" if r.chance(2, 3) else r.choice(insts + [9])
                lines.append(f"{op} {mx} {ss} {vs} {is_} {inst}")
            else:
                prev = "-" if r.chance(1, 3) else r.choice(insts + [0, 4, 600])
                lines.append(f"{op} {mx} {prev} {ss} {vs} {is_}")
        elif r.below(100) < prof.unpub and writers:
            lines.append(f"unpub {r.choice(writers)}")
        elif r.below(100) < 4:
            lines.append("rejstatus")
        else:
            w = r.choice(writers + ([77] if r.chance(1, 20) else []))
            inst = r.choice(insts)
            kind = r.choice(prof.kinds)
            rts += r.range(0, 50)
            if prof.stamps == "increasing":
                clock += r.range(0, 12)
                sts = clock
            elif prof.stamps == "alphabet":
                sts = r.choice([10, 20, 20, 30, 40, "-"])
            else:
                c = r.below(10)
                if c < 6:
                    clock += r.range(0, 12)
                    sts = clock
                elif c < 9:
                    sts = max(0, clock - r.range(0, 25))
                else:
                    sts = "-"
            seq += 1
            lines.append(f"add {w} {inst} {kind} {sts} {rts} {seq:04x}")
        lines.append("dump")
    return Case(lines, {"depth": depth, "ms": ms, "mi": mi, "mspi": mspi, "order": order, "own": own,
                        "minsep": minsep, "enabled": enabled, "writers": writers})


# ----------------------------------------------------------------------------- parsers

def parse_qos(line):
    d = dict(x.split("=") for x in line.split()[1:])
    def lim(x):
        return None if x == "-" else int(x)
    return {"depth": None if d["depth"] == "all" else int(d["depth"]), "ms": lim(d["ms"]), "mi": lim(d["mi"]),
            "mspi": lim(d["mspi"]), "order": d["order"], "own": d["own"],
            "minsep": None if d["minsep"] == "inf" else int(d["minsep"]), "enabled": d["enabled"] == "1"}


def parse_dump(line):
    """-> (samples, insts, owns) ; samples: dict(inst, kind, writer, sts, read, dgc, nwgc, data)"""
    parts = line.split(" | ") if " | " in line else None
    toks = line.split()
    segs, cur = [], []
    for t in toks:
        if t == "|":
            segs.append(cur); cur = []
        else:
            cur.append(t)
    segs.append(cur)
    if len(segs) != 3:
        return None
    def ts(x):
        return None if x == "-" else int(x)
    samples = []
    for t in segs[0]:
        a = t.split(":")
        samples.append({"inst": int(a[0]), "kind": a[1], "writer": int(a[2]), "sts": ts(a[3]), "read": a[4] == "R",
                        "dgc": int(a[5]), "nwgc": int(a[6]), "data": a[7]})
    insts = {}
    for t in segs[1]:
        a = t.split(":")
        insts[int(a[0])] = {"view": a[1], "st": a[2], "dgc": int(a[3]), "nwgc": int(a[4])}
    owns = {}
    for t in segs[2]:
        a = t.split(":")
        owns[int(a[0])] = {"owner": int(a[1]), "last": int(a[2])}
    return samples, insts, owns


def parse_infos(line):
    """read/take output -> ('err', kind) | ('ok', [info dict])"""
    if line.startswith("err:"):
        return "err", line[4:]
    if line in ("PANIC", "POISONED") or line.startswith("CRASH"):
        return "panic", line
    out = []
    for t in line.split():
        a = t.split("/")
        out.append({"data": a[0], "read": a[1] == "R", "view": a[2], "st": a[3], "dgc": int(a[4]), "nwgc": int(a[5]),
                    "srank": int(a[6]), "grank": int(a[7]), "agrank": int(a[8]),
                    "sts": None if a[9] == "-" else int(a[9]), "inst": int(a[10]), "pub": int(a[11]), "valid": a[12] == "1"})
    return "ok", out


def walk(case, out):
    """yields (index, op tokens, output line, dump_before, dump_after) where dumps are parsed `dump` outputs
    (dump_before = state before the op = last dump seen; dump_after = the dump that follows the op, if any)."""
    last = ([], {}, {})
    n = len(case.lines)
    for i, (l, o) in enumerate(zip(case.lines, out)):
        t = l.split()
        if t[0] == "dump":
            d = parse_dump(o)
            if d is not None:
                last = d
            continue
        after = None
        if i + 1 < n and case.lines[i + 1] == "dump" and i + 1 < len(out):
            after = parse_dump(out[i + 1])
        yield i, t, o, last, after
        if t[0] == "qos":
            last = ([], {}, {})


def sts_key(x):
    return (0, 0) if x is None else (1, x)


def nontrivial(case, out):
    """>= 2 instances or >= 1 non-alive change, and >= 1 read/take between additions"""
    insts, notalive, seen_add, read_between = set(), False, False, False
    pending_read = False
    for l in case.lines:
        t = l.split()
        if t[0] == "add":
            insts.add(t[2])
            if t[3] in KINDS_NOTALIVE:
                notalive = True
            if seen_add and pending_read:
                read_between = True
            seen_add = True
        elif t[0] in ("read", "take", "readni", "takeni") and seen_add:
            pending_read = True
    return (len(insts) >= 2 or notalive) and read_between


def run_hist(ctx, prof, oracle, n_quick, n_thorough, corpus=()):
    r = ctx.rng
    n = n_quick if ctx.tier == "quick" else n_thorough
    cases = [Case(list(c)) for c in corpus]
    for k in range(n):
        cases.append(gen_case(r, prof, long=(ctx.tier == "thorough" and k % 10 == 0)))
    for c in cases:
        for l in c.lines:
            ctx.count(l.split()[0])
    ctx.differential(ENGINE, cases, nontrivial=nontrivial, oracle=oracle)
