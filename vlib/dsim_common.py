"""Helpers for everything that runs on the deterministic simulator `dsim` (harness/src/dsim.rs, bin/dsim.rs).

Reference of the scenario language: notes/dsim.md.

Process model (decided here, because dust-dds allows ONE factory per process — `DomainParticipantFactoryAsync::new`
declares a function-local static channel): every case runs in a FRESH child process. The `dsim` binary does this
itself: started without arguments it is a supervisor that reads all of stdin, cuts it into cases at `reset` lines,
runs the cases in a pool of `dsim --child` processes (DSIM_JOBS at a time, default 16), and prints the outputs in
input order, exactly one line per input line (`ok` for `reset`). Therefore
  * `vlib.core.run_cases([harness_bin("dsim")], cases)` and `ctx.differential("dsim"|"tree", ...)` work unchanged;
  * outputs never depend on earlier cases (fresh virtual world, virtual time 0, participant counter 0);
  * a case whose child dies prints `CRASH` for the op that was running, one that exceeds the wall-clock budget
    (DSIM_CASE_TIMEOUT_MS, default 60 000) prints `HANG`, and `POISONED` for every later op of the case; the other
    cases are not affected.
Inside a child, a panic of the factory worker (e.g. D40) prints `PANIC` for the op and `POISONED` afterwards; a call
that can never complete (dead worker) or exhausts the step budget prints `HANG`.

Canonical answers: `ok`, `ok <values>`, `err:<DdsError kind>`, `pending` (bounded waits), `unsupported` (the API
function is `todo!()` at the pinned commit and is never called), `bad-op` (malformed line), `PANIC`, `HANG`, `CRASH`,
`POISONED`.
"""
import os
from vlib.core import Case, run_cases, harness_bin

HOST_APP = "b1b2b3b4a1a2a3a4"   # GUID prefix bytes 0..8 used by the harness (host id, app id)
BAD = ("PANIC", "HANG", "CRASH", "POISONED")


def dsim_env(jobs=None, case_timeout_ms=None, step_budget=None):
    e = {}
    if jobs is not None:
        e["DSIM_JOBS"] = str(jobs)
    if case_timeout_ms is not None:
        e["DSIM_CASE_TIMEOUT_MS"] = str(case_timeout_ms)
    if step_budget is not None:
        e["DSIM_STEP_BUDGET"] = str(step_budget)
    return e


def run_dsim_cases(cases, jobs=16, case_timeout_ms=60000, timeout=900, binary="dsim"):
    """cases: list of Case or of lists of op lines. Returns one list of output lines per case (same lengths as the
    inputs; a failed case is padded with CRASH/HANG/POISONED by the supervisor)."""
    cs = [c if isinstance(c, Case) else Case(list(c)) for c in cases]
    env = dict(os.environ)
    env.update(dsim_env(jobs, case_timeout_ms))
    outs, bad = run_cases([harness_bin(binary)], cs, timeout=timeout, env=env)
    return outs


def run_dsim(lines, **kw):
    """one scenario -> its output lines"""
    return run_dsim_cases([list(lines)], **kw)[0]


# ----------------------------------------------------------------------------- parsing helpers

def is_ok(o):
    return o == "ok" or o.startswith("ok ")


def err_kind(o):
    return o[4:] if o.startswith("err:") else None


def ok_values(o):
    """`ok a b c` -> ['a','b','c']; None when the answer is not ok"""
    if not is_ok(o):
        return None
    return o.split()[1:]


def parse_bar_list(o):
    """answers of `log`, `inflight`, `trace show`: `ok <n> | item | item` -> [items]"""
    if not is_ok(o):
        return None
    parts = o.split(" | ")
    return parts[1:]


def parse_samples(o):
    """answer of read/take: `ok <n> s1 s2 ...` with s = data/R|N/new|old/A|D|W/dgc/nwgc/srank/grank/agrank/ts/inst/pub/valid"""
    v = ok_values(o)
    if v is None:
        return None
    out = []
    for t in v[1:]:
        a = t.split("/")
        out.append({"data": a[0], "read": a[1] == "R", "view": a[2], "inst_state": a[3], "dgc": int(a[4]),
                    "nwgc": int(a[5]), "srank": int(a[6]), "grank": int(a[7]), "agrank": int(a[8]),
                    "ts": None if a[9] == "-" else int(a[9]), "inst": a[10], "pub": a[11], "valid": a[12] == "1"})
    return out


def parse_status(o):
    """`ok k=v k=v` -> dict (ints where possible)"""
    v = ok_values(o)
    if v is None:
        return None
    d = {}
    for t in v:
        k, _, x = t.partition("=")
        try:
            d[k] = int(x)
        except ValueError:
            d[k] = x
    return d


def expand(lines, outs):
    """pair every PRIMITIVE op with its answer: `repeat n a ; b` lines are unrolled (`%i` substituted) and their
    `;`-joined answers split. Yields (line_index, tokens, answer). A repeat that stopped early (PANIC/HANG) yields
    only the ops that ran."""
    for i, (l, o) in enumerate(zip(lines, outs)):
        t = l.split()
        if t and t[0] == "repeat" and len(t) >= 3 and t[1].isdigit():
            bodies, cur = [], []
            for x in t[2:]:
                if x == ";":
                    if cur:
                        bodies.append(cur)
                    cur = []
                else:
                    cur.append(x)
            if cur:
                bodies.append(cur)
            answers = o.split(";") if o not in ("POISONED", "bad-op") else []
            k = 0
            if o in ("POISONED", "bad-op"):
                yield i, t, o
                continue
            for it in range(int(t[1])):
                for b in bodies:
                    if k >= len(answers):
                        break
                    yield i, [x.replace("%i", str(it)) for x in b], answers[k]
                    k += 1
        else:
            yield i, t, o


# ----------------------------------------------------------------------------- ready-made scenario pieces

def pair_scenario(ty="ki", writer_qos="reliability=reliable history=keep_all",
                  reader_qos="reliability=reliable history=keep_all", frag=None, topic="T"):
    """two participants P1 (publisher pub, writer w) and P2 (subscriber sub, reader r) on one topic; discovery and
    matching complete within the creating ops (no virtual time passes)"""
    lines = []
    if frag is not None:
        lines.append(f"config frag={frag}")
    lines += ["participant P1", "participant P2", f"topic t1 P1 {topic} {ty}", f"topic t2 P2 {topic} {ty}",
              "publisher pub P1", "subscriber sub P2", f"writer w pub t1 {writer_qos}".rstrip(),
              f"reader r sub t2 {reader_qos}".rstrip()]
    return lines
