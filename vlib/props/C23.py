"""C23: read/take_next_instance walk instances in handle order, skipping instances without matching samples."""
from vlib.hist_common import *
from vlib.props.C20 import sel

RULE = ("instance sets with any mix of read/unread/taken samples (handles chosen so that byte-lexicographic order is exercised: "
        "1,2,5,6,7,255,256,300,511), previous handle absent/known/unknown, all mask subsets; non-trivial as for hist")
ASSUMPTIONS = ["'greater handle' is the byte-lexicographic order of the 16-byte InstanceHandle (harness maps ids so that it equals numeric order)"]
PROFILE = Profile(own=["shared"], minsep=[0], ninst=(2, 4), readops=["readni", "takeni", "readni", "takeni", "read", "take"], p_read=50,
                  full_masks=30, kinds=["A"] * 6 + ["D", "U"], limits=False)
CORPUS = [["qos depth=all ms=- mi=- mspi=- order=rcv own=shared minsep=0 enabled=1", "add 1 5 A 10 100 01", "dump", "add 1 6 A 20 110 02", "dump",
           "add 1 7 A 30 120 03", "dump", "read -1 3 3 7 6", "dump", "readni -1 5 2 3 7", "dump"]]


def oracle(case, out):
    q = parse_qos(case.lines[0]) if case.lines and case.lines[0].startswith("qos") else None
    if q is None:
        return []
    viol = []
    for i, t, o, before, after in walk(case, out):
        if o in ("PANIC", "POISONED") or o.startswith("CRASH"):
            viol.append({"what": f"op {i} {' '.join(t)} panicked", "at": i}); break
        if t[0] not in ("readni", "takeni"):
            continue
        samples, insts, _ = before
        mx = int(t[1]); prev = None if t[2] == "-" else int(t[2]); ss, vs, is_ = int(t[3]), int(t[4]), int(t[5])
        kind, infos = parse_infos(o)
        if not q["enabled"]:
            if (kind, infos) != ("err", "NotEnabled"):
                viol.append({"what": f"op {i}: disabled reader answered {o}", "at": i})
            continue
        cands = sorted(h for h in insts if (prev is None or h > prev) and sel(samples, insts, ss, vs, is_, h, mx))
        if not cands:
            if (kind, infos) != ("err", "NoData"):
                viol.append({"what": f"op {i}: no later instance has matching samples but got {o[:60]}", "at": i})
            continue
        h = cands[0]
        exp = [samples[k]["data"] for k in sel(samples, insts, ss, vs, is_, h, mx)]
        if kind != "ok":
            viol.append({"what": f"op {i}: instance {h} (> {prev}) has matching samples {exp} but got {o}", "at": i}); continue
        if [x["data"] for x in infos] != exp or any(x["inst"] != h for x in infos):
            viol.append({"what": f"op {i}: expected samples {exp} of instance {h}, got {[(x['inst'], x['data']) for x in infos]}", "at": i})
    return viol


def run(ctx):
    run_hist(ctx, PROFILE, oracle, 1500, 30000, CORPUS)

TECHNIQUE = "Lean 4 theorem (next instance = least greater handle with matching samples) + differential correspondence"
LEVEL_TEXT = 'Kernel-checked Lean theorems: next_instance returns the least known handle greater than the given one and none only if there is none (C23_next_is_least, for all instance lists), and read/take_next_instance return the read/take of an instance after prev that has matching samples, skipping instances without (C23_loop_sound). Tied to UserDefinedDataReader::read/take_next_instance by differential runs; the oracle recomputes the expected instance from the dumps.'
LEVEL_NOTE = 'Trusted: Lean kernel (axioms audited: propext, Classical.choice, Quot.sound at most); the hand-written model Model/ReaderHist.lean of data_reader_entity.rs / user_defined_data_reader.rs (handles as Nat, times as total ns, Vec as List); the hist harness that drives the real DataReaderEntity<()> / UserDefinedDataReader through the cfg(dust_dds_verif) re-export and prints canonical lines; the Python oracle. The differential run validates the model on sampled op sequences only; the theorems are about the model.'
DESIGN_REF = 'DESIGN.md section 5 C23'
