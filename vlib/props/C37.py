"""C37: QoS validation — inconsistent combinations are rejected with InconsistentPolicy, changes of immutable policies of an
enabled entity with ImmutablePolicy; part 1: the rule functions (engine match), part 2: set_qos/get_qos atomicity through the
public API in the deterministic simulator (dsim)."""
from vlib.match_common import *

RULE = ("writer / reader / topic QoS values with boundary-biased history depth vs max_samples_per_instance vs max_samples "
        "(equal, +-1, unlimited, 0, i32::MAX), deadline vs minimum_separation classes, representation lists of length 0-3; pairs "
        "(current, requested) differing in 0-2 policies for the immutability rule; a case is non-trivial when a finite limit or a "
        "finite deadline/separation is involved (consistency) or the two QoS differ (immutability); distinct by canonical op line")
ASSUMPTIONS = ["DATA_REPRESENTATION is treated as changeable by the code (not part of check_immutability); the XTypes specification lists it as not changeable - recorded in DESIGN.md as an observation, the property text names no policy list",
               "set_qos sequencing (validate, immutability if enabled, store, announce) is the 3-branch function setQos of the model, tied to DataWriterAsync/DataReaderAsync::set_qos/get_qos through the simulator (150 scenarios quick, 4000 thorough)"]


def spec_limits_ok(e):
    ms, mspi = len_key(e["ms"]), len_key(e["mspi"])
    if ms < mspi:
        return False
    if e["depth"] != "all" and (0, int(e["depth"])) > mspi:
        return False
    return True


def expected(op, a, b):
    if op == "wcons":
        ok = (0 if a["repr"] == "-" else len(a["repr"].split(","))) <= 1 and spec_limits_ok(a)
        return "ok" if ok else "InconsistentPolicy"
    if op == "rcons":
        ok = spec_limits_ok(a) and dur_key(a["dl"]) >= dur_key(a["minsep"])
        return "ok" if ok else "InconsistentPolicy"
    if op == "tcons":
        return "ok" if spec_limits_ok(a) else "InconsistentPolicy"
    same = all(a[k] == b[k] for k in ["dur", "livk", "lease", "rel", "mbt", "do", "depth", "ms", "mi", "mspi", "own"])
    return "ok" if same else "ImmutablePolicy"


def split(case):
    t = case.lines[0].split()
    if "|" in t:
        i = t.index("|")
        return t[0], parse_end(t[1:i]), parse_end(t[i + 1:])
    return t[0], parse_end(t[1:]), None


def nontrivial(case, out):
    op, a, b = split(case)
    if b is not None:
        return a != b
    return a["ms"] != "-" or a["mspi"] != "-" or (a["dl"] != "inf" and a["minsep"] != "0:0")


def oracle(case, out):
    op, a, b = split(case)
    exp = expected(op, a, b)
    o = out[0] if out else ""
    if o != exp:
        return [{"what": f"{op}: the DDS rules say {exp}, the code answered {o}", "op": case.lines[0]}]
    return []


# ---------------------------------------------------------------- part 2: set_qos / get_qos through the public API (dsim)
from vlib.core import run_cases, harness_bin, model_bin, case_hash
from vlib import dsim_common as D

DSIM_DUR = {"durability": ["volatile", "transient_local", "transient", "persistent"],
            "liveliness": ["automatic", "manual_participant", "manual_topic"],
            "reliability": ["best_effort", "reliable"], "order": ["reception", "source"], "ownership": ["shared", "exclusive"]}


def ns(d):
    if d == "inf":
        return "inf"
    a, b = d.split(":")
    return str(int(a) * 1000000000 + int(b))


def api_tokens(e, reader):
    t = [f"durability={DSIM_DUR['durability'][int(e['dur'])]}", f"liveliness={DSIM_DUR['liveliness'][int(e['livk'])]}",
         f"lease={ns(e['lease'])}", f"reliability={DSIM_DUR['reliability'][int(e['rel'])]}", f"max_blocking={ns(e['mbt'])}",
         f"order={DSIM_DUR['order'][int(e['do'])]}",
         "history=keep_all" if e["depth"] == "all" else f"history=keep_last:{e['depth']}",
         f"max_samples={'inf' if e['ms'] == '-' else e['ms']}", f"max_instances={'inf' if e['mi'] == '-' else e['mi']}",
         f"max_spi={'inf' if e['mspi'] == '-' else e['mspi']}", f"ownership={DSIM_DUR['ownership'][int(e['own'])]}",
         f"deadline={ns(e['dl'])}",
         "repr=" + ("-" if e["repr"] == "-" else ",".join({"0": "xcdr1", "2": "xcdr2"}[x] for x in e["repr"].split(","))),
         "user_data=" + e["ud"].encode().hex()]
    if reader:
        t.append(f"tbf={ns(e['minsep'])}")
    return t


def gen_api_ent(r, base=None):
    e = gen_ent(r, base)
    for k in ("lease", "mbt", "dl", "minsep"):
        if e[k] not in ("inf",) and int(e[k].split(":")[0]) > 1000:
            e[k] = "5:0"
    if e["minsep"] == "inf":
        e["minsep"] = "0:0"
    if e["repr"] != "-":
        e["repr"] = ",".join(x for x in e["repr"].split(",") if x in ("0", "2")) or "-"
    for k in ("ms", "mi", "mspi"):
        if e[k] == "2147483647":
            e[k] = "7"
    if e["depth"] == "0":
        e["depth"] = "1"
    return e


def api_case(r):
    reader = r.chance(1, 2)
    enabled = 0 if r.chance(1, 4) else 1
    cur = gen_api_ent(r)
    if r.chance(3, 4):
        # make the starting QoS consistent most of the time so that the entity exists
        if cur["depth"] != "all" and cur["mspi"] != "-" and int(cur["depth"]) > int(cur["mspi"]):
            cur["mspi"] = cur["depth"]
        if len_key(cur["ms"]) < len_key(cur["mspi"]):
            cur["ms"] = "-"
        if dur_key(cur["dl"]) < dur_key(cur["minsep"]):
            cur["minsep"] = "0:0"
        if cur["repr"].count(",") >= 1 and not reader:
            cur["repr"] = cur["repr"].split(",")[0]
    new = gen_api_ent(r, base=cur)
    kind = "reader" if reader else "writer"
    parent = "sub" if reader else "pub"
    lines = [f"participant P autoenable={enabled}" if not enabled else "participant P", "topic t P T ki",
             "publisher pub P", "subscriber sub P",
             f"{kind} e {parent} t " + " ".join(api_tokens(cur, reader)), "get-qos e",
             "set-qos e " + " ".join(api_tokens(new, reader)), "get-qos e"]
    model = [f"{'rcons' if reader else 'wcons'} {fmt_ent(cur)}", f"{'rset' if reader else 'wset'} {enabled} {fmt_ent(cur)} | {fmt_ent(new)}"]
    return Case(lines, {"model": model, "reader": reader, "enabled": enabled, "cur": cur, "new": new})


def qos_fields(line):
    return dict(t.split("=", 1) for t in line.split()[1:]) if line.startswith("ok ") else None


def run_api(ctx, n):
    r = ctx.rng
    cases = [api_case(r) for _ in range(n)]
    outs, _ = run_cases([harness_bin("dsim")], cases, timeout=1500)
    mcases = [Case(c.meta["model"]) for c in cases]
    mouts, _ = run_cases([model_bin(), "match"], mcases)
    for c, o, mo in zip(cases, outs, mouts):
        ctx.stats["evaluations"] += 1
        ctx.count("api:" + ("reader" if c.meta["reader"] else "writer") + (":enabled" if c.meta["enabled"] else ":disabled"))
        h = case_hash(c.lines)
        if c.meta["cur"] != c.meta["new"] and h not in ctx._seen:
            ctx._seen.add(h); ctx.stats["distinct_nontrivial"] += 1
        if len(ctx.samples) < 10:
            ctx.samples.append({"ops": c.lines[4:], "impl": o[4:]})
        if len(o) < 8 or any(x in ("PANIC", "HANG", "POISONED") or x.startswith("CRASH") for x in o):
            ctx.violations.append({"what": "entity QoS scenario panicked / hung", "ops": c.lines, "out": o}); continue
        created, setres = o[4], o[6]
        # model prediction
        m_create = "ok" if mo[0] == "ok" else "err:" + mo[0]
        got_create = "ok" if created.startswith("ok") else created
        if got_create != m_create:
            ctx.disagreements.append({"what": "model and implementation differ on creation", "ops": c.lines, "impl": created, "model": mo[0]})
        exp_create = expected("rcons" if c.meta["reader"] else "wcons", c.meta["cur"], None)
        if got_create != ("ok" if exp_create == "ok" else "err:" + exp_create):
            ctx.violations.append({"what": f"creation with {'in' if exp_create != 'ok' else ''}consistent QoS answered {created}", "ops": c.lines})
        if not created.startswith("ok"):
            continue
        ctx.count("api:set:" + setres)
        m_set = mo[1].split()[0]
        got_set = "ok" if setres == "ok" else setres[4:] if setres.startswith("err:") else setres
        if got_set != m_set:
            ctx.disagreements.append({"what": "model and implementation differ on set_qos", "ops": c.lines, "impl": setres, "model": mo[1]})
        # oracle (DDS rules, independent of the model)
        cons = expected("rcons" if c.meta["reader"] else "wcons", c.meta["new"], None)
        imm = expected("rimm", c.meta["cur"], c.meta["new"])
        exp = cons if cons != "ok" else (imm if c.meta["enabled"] else "ok")
        if got_set != exp:
            ctx.violations.append({"what": f"set_qos answered {setres}, the DDS rules say {exp}", "ops": c.lines})
        before, after = qos_fields(o[5]), qos_fields(o[7])
        if before is None or after is None:
            ctx.violations.append({"what": "get_qos failed", "ops": c.lines, "out": o}); continue
        if got_set != "ok" and after != before:
            ctx.violations.append({"what": f"set_qos failed with {setres} but get_qos changed: the rejected QoS was stored",
                                   "ops": c.lines, "before": o[5], "after": o[7]})
        if got_set == "ok":
            want = dict(t.split("=", 1) for t in api_tokens(c.meta["new"], c.meta["reader"]))
            diff = {k: (after.get(k), v) for k, v in want.items() if after.get(k) != v}
            if diff:
                ctx.violations.append({"what": f"accepted QoS is not returned unchanged by get_qos: {diff}", "ops": c.lines})


def run(ctx):
    r = ctx.rng
    n = 6000 if ctx.tier == "quick" else 200000
    cases = []
    for k in range(n):
        a = gen_ent(r)
        c = r.below(10)
        if c < 5:
            # make limits interesting: tie mspi / ms / depth together
            if r.chance(2, 3) and a["depth"] != "all":
                d = int(a["depth"])
                a["mspi"] = r.choice([str(max(0, d - 1)), str(d), str(d + 1), "-"])
                if a["mspi"] != "-":
                    a["ms"] = r.choice([str(max(0, int(a["mspi"]) - 1)), a["mspi"], str(int(a["mspi"]) + 1), "-"])
            cases.append(Case([f"{r.choice(['wcons', 'rcons', 'tcons'])} {fmt_ent(a)}"]))
        else:
            b = gen_ent(r, base=a)
            cases.append(Case([f"{r.choice(['wimm', 'rimm'])} {fmt_ent(a)} | {fmt_ent(b)}"]))
    for c in cases:
        ctx.count(c.lines[0].split()[0])
    impl = ctx.differential(ENGINE, cases, nontrivial=nontrivial, oracle=oracle, shrink=False)
    for o in impl:
        ctx.count("result:" + (o[0] if o else "?"))
    run_api(ctx, 150 if ctx.tier == "quick" else 4000)


BINS = ["match", "dsim"]


LEVEL_TEXT = ("Kernel-checked Lean theorems for ALL QoS values: is_consistent of writer/reader/topic QoS accepts exactly the combinations "
              "the DDS rules allow (C37_writer/reader/topic_consistent_iff: max_samples >= max_samples_per_instance, depth <= "
              "max_samples_per_instance, deadline >= minimum_separation, at most one offered representation), check_immutability accepts "
              "exactly the changes that leave the seven immutable policies untouched (C37_immutable_iff), and the set_qos sequence is atomic "
              "(C37_error_keeps_qos, C37_success_stores_new, C37_result: InconsistentPolicy is checked first, ImmutablePolicy only when "
              "enabled). The rule functions are tied to the real private functions through cfg-guarded wrappers by a differential run; the "
              "set_qos sequence itself is exercised end-to-end through the public API in the deterministic simulator: create a writer/reader "
              "(enabled or not) with one QoS, set_qos another, compare the result with the model's setQos and with the DDS rules, and check "
              "get_qos before/after (a rejected QoS must not be stored; an accepted one is returned unchanged). The announcement of the "
              "accepted QoS to remote participants is not checked here.")
LEVEL_NOTE = ("Trusted: Lean kernel; Model/Match.lean (QoS rules as Boolean functions over Option/Nat with the code's own orderings); cfg(dust_dds_verif) "
              "wrappers verif_is_consistent / verif_check_immutability; Python re-statement of the DDS rules as oracle. Not covered: publisher / "
              "participant QoS setters, default-QoS setters, the announcement of the accepted QoS to remote participants.")
TECHNIQUE = "Lean 4 theorems (decision functions = DDS rules; set_qos atomicity) + differential correspondence through cfg hooks"
DESIGN_REF = "DESIGN.md section 5 C37"
