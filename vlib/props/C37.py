"""C37: QoS validation — inconsistent combinations are rejected with InconsistentPolicy, changes of immutable policies of an
enabled entity with ImmutablePolicy (this module: the rule functions; the set_qos atomicity through the public API is
exercised by the dsim-based part when that engine is present)."""
from vlib.match_common import *

RULE = ("writer / reader / topic QoS values with boundary-biased history depth vs max_samples_per_instance vs max_samples "
        "(equal, +-1, unlimited, 0, i32::MAX), deadline vs minimum_separation classes, representation lists of length 0-3; pairs "
        "(current, requested) differing in 0-2 policies for the immutability rule; a case is non-trivial when a finite limit or a "
        "finite deadline/separation is involved (consistency) or the two QoS differ (immutability); distinct by canonical op line")
ASSUMPTIONS = ["DATA_REPRESENTATION is treated as changeable by the code (not part of check_immutability); the XTypes specification lists it as not changeable - recorded in DESIGN.md as an observation, the property text names no policy list",
               "set_qos sequencing (validate, immutability if enabled, store, announce) is the 3-branch function setQos of the model; its tie to the entity API needs the simulator engine"]


def spec_limits_ok(e):
    ms, mspi = len_key(e["ms"]), len_key(e["mspi"])
    if ms < mspi:
        return False
    if e["depth"] != "all" and (0, int(e["depth"])) > mspi:
        return False
    return True


def expected(op, a, b):
    if op == "wcons":
        ok = (0 if a["repr"] == "-" else len(a["repr"].split(","))) <= 1 and spec_limits_ok(a)
        return "ok" if ok else "InconsistentPolicy"
    if op == "rcons":
        ok = spec_limits_ok(a) and dur_key(a["dl"]) >= dur_key(a["minsep"])
        return "ok" if ok else "InconsistentPolicy"
    if op == "tcons":
        return "ok" if spec_limits_ok(a) else "InconsistentPolicy"
    same = all(a[k] == b[k] for k in ["dur", "livk", "lease", "rel", "mbt", "do", "depth", "ms", "mi", "mspi", "own"])
    return "ok" if same else "ImmutablePolicy"


def split(case):
    t = case.lines[0].split()
    if "|" in t:
        i = t.index("|")
        return t[0], parse_end(t[1:i]), parse_end(t[i + 1:])
    return t[0], parse_end(t[1:]), None


def nontrivial(case, out):
    op, a, b = split(case)
    if b is not None:
        return a != b
    return a["ms"] != "-" or a["mspi"] != "-" or (a["dl"] != "inf" and a["minsep"] != "0:0")


def oracle(case, out):
    op, a, b = split(case)
    exp = expected(op, a, b)
    o = out[0] if out else ""
    if o != exp:
        return [{"what": f"{op}: the DDS rules say {exp}, the code answered {o}", "op": case.lines[0]}]
    return []


def run(ctx):
    r = ctx.rng
    n = 6000 if ctx.tier == "quick" else 200000
    cases = []
    for k in range(n):
        a = gen_ent(r)
        c = r.below(10)
        if c < 5:
            # make limits interesting: tie mspi / ms / depth together
            if r.chance(2, 3) and a["depth"] != "all":
                d = int(a["depth"])
                a["mspi"] = r.choice([str(max(0, d - 1)), str(d), str(d + 1), "-"])
                if a["mspi"] != "-":
                    a["ms"] = r.choice([str(max(0, int(a["mspi"]) - 1)), a["mspi"], str(int(a["mspi"]) + 1), "-"])
            cases.append(Case([f"{r.choice(['wcons', 'rcons', 'tcons'])} {fmt_ent(a)}"]))
        else:
            b = gen_ent(r, base=a)
            cases.append(Case([f"{r.choice(['wimm', 'rimm'])} {fmt_ent(a)} | {fmt_ent(b)}"]))
    for c in cases:
        ctx.count(c.lines[0].split()[0])
    impl = ctx.differential(ENGINE, cases, nontrivial=nontrivial, oracle=oracle, shrink=False)
    for o in impl:
        ctx.count("result:" + (o[0] if o else "?"))


LEVEL_TEXT = ("Kernel-checked Lean theorems for ALL QoS values: is_consistent of writer/reader/topic QoS accepts exactly the combinations "
              "the DDS rules allow (C37_writer/reader/topic_consistent_iff: max_samples >= max_samples_per_instance, depth <= "
              "max_samples_per_instance, deadline >= minimum_separation, at most one offered representation), check_immutability accepts "
              "exactly the changes that leave the seven immutable policies untouched (C37_immutable_iff), and the set_qos sequence is atomic "
              "(C37_error_keeps_qos, C37_success_stores_new, C37_result: InconsistentPolicy is checked first, ImmutablePolicy only when "
              "enabled). The rule functions are tied to the real private functions through cfg-guarded wrappers by a differential run; the "
              "sequencing of set_*_qos on real entities and the announcement are partial here (three-branch model of writer_methods.rs:548-552).")
LEVEL_NOTE = ("Trusted: Lean kernel; Model/Match.lean (QoS rules as Boolean functions over Option/Nat with the code's own orderings); cfg(dust_dds_verif) "
              "wrappers verif_is_consistent / verif_check_immutability; Python re-statement of the DDS rules as oracle. Not covered: publisher / "
              "participant QoS setters, default-QoS setters, the announcement of the accepted QoS to remote participants.")
TECHNIQUE = "Lean 4 theorems (decision functions = DDS rules; set_qos atomicity) + differential correspondence through cfg hooks"
DESIGN_REF = "DESIGN.md section 5 C37"
