"""C34: the one-shot, mpsc and notification channels never lose values or wake-ups."""
import itertools
from vlib.core import Case

ENGINE = "chan"
RULE = ("step lists over one channel kind at a time: ALL lists up to length 6 (one-shot) and 4 (mpsc, notification) in quick, 8 and 6 in thorough, over a small "
        "alphabet (two wakers, two sender handles, send/notify/clone/drop/poll/drop-receiver) plus random lists of 5-40 "
        "steps with up to 4 sender handles and 3 wakers, plus threaded stress ops; a case is non-trivial when it contains "
        "at least one poll that was not refused and at least one accepted sender-side step")
ASSUMPTIONS = [
    "critical_section::with gives mutual exclusion (std implementation of the critical-section crate); under it every "
    "interleaving of threads is a sequence of whole critical sections, which is what a step list is",
    "one receiver task per channel (the receiver futures need &mut / are awaited by one task), so a re-registration "
    "replaces the waker of the same task",
    "the model and the check assume fixes/D39.patch is applied to dcps/channels/mpsc.rs",
]

ONE_ALPHA = ["o.send 5", "o.drops", "o.poll 1", "o.poll 2", "o.dropr"]
MPSC_ALPHA = ["m.send 0 V", "m.send 1 V", "m.clone 0 1", "m.drops 0", "m.drops 1", "m.poll 1", "m.poll 2", "m.dropr"]
NOTIF_ALPHA = ["n.notify 0", "n.notify 1", "n.clone 0 1", "n.drops 0", "n.drops 1", "n.poll 1", "n.poll 2", "n.dropr"]

CORPUS = [
    # D39 exemplar (fixed by fixes/D39.patch; kept as regression): last sender dropped, queue empty -> receive must report disconnection
    ["m.drops 0", "m.poll 1"],
    ["m.poll 1", "m.drops 0", "m.poll 1"],
    ["m.send 0 1", "m.drops 0", "m.poll 1", "m.poll 1"],
    ["o.poll 7", "o.send 5", "o.poll 7", "o.poll 7"],
    ["o.poll 7", "o.drops", "o.poll 8"],
    ["o.send 5", "o.dropr", "o.poll 1"],
    ["o.poll 1", "o.poll 2", "o.send 9", "o.poll 2"],
    ["m.clone 0 1", "m.send 0 10", "m.send 1 11", "m.poll 5", "m.send 0 12", "m.poll 5", "m.poll 5", "m.poll 5", "m.send 1 13"],
    ["n.poll 3", "n.notify 0", "n.notify 0", "n.poll 3", "n.poll 3", "n.drops 0", "n.poll 4"],
    ["n.poll 3", "n.clone 0 1", "n.drops 0", "n.drops 1", "n.poll 3"],
    ["n.notify 0", "n.drops 0", "n.poll 1", "n.poll 1"],
    ["x.one 50 3", "x.mpsc 3 200", "x.notif 50"],
]


def number_values(lines):
    """replace the placeholder V by increasing values so that FIFO order is observable"""
    out, k = [], 100
    for l in lines:
        if l.endswith(" V"):
            out.append(l[:-1] + str(k)); k += 1
        else:
            out.append(l)
    return out


def gen_random(r):
    kind = r.choice(["o", "m", "m", "n", "n"])
    n = r.range(5, 40)
    lines = []
    if kind == "o":
        for _ in range(r.range(2, 8)):
            c = r.below(10)
            lines.append("o.poll %d" % r.range(1, 3) if c < 5 else "o.send %d" % r.range(0, 9) if c < 7 else
                         "o.drops" if c < 9 else "o.dropr")
        return lines
    alive, nxt, val = [0], 1, 100
    for _ in range(n):
        c = r.below(100)
        sid = r.choice(alive) if alive and r.chance(9, 10) else r.range(0, 4)
        if c < 35:
            lines.append(f"{kind}.poll {r.range(1, 3)}")
        elif c < 70:
            if kind == "m":
                lines.append(f"m.send {sid} {val}"); val += 1
            else:
                lines.append(f"n.notify {sid}")
        elif c < 82:
            new = nxt if r.chance(4, 5) else r.range(0, 4)
            lines.append(f"{kind}.clone {sid} {new}")
            if sid in alive and new not in alive:
                alive.append(new)
            nxt = max(nxt, new + 1)
        elif c < 98:
            lines.append(f"{kind}.drops {sid}")
            if sid in alive:
                alive.remove(sid)
        else:
            lines.append(f"{kind}.dropr")
    return lines


def parse_wake(tok):
    # "wake=-" or "wake=1,2"
    v = tok.split("=", 1)[1]
    return [] if v == "-" else [int(x) for x in v.split(",")]


def oracle(case, out):
    """spec-level re-check of the property on the implementation's output (independent of the Lean model)"""
    viol = []
    def bad(i, cause, what):
        viol.append({"cause": cause, "what": f"op {i} `{case.lines[i]}` -> `{out[i] if i < len(out) else None}`: {what}", "at": i})
    # one-shot
    o_snd, o_sent, o_got, o_rcv, o_wait = True, None, False, True, None
    # mpsc
    m_snd, m_q, m_rcv, m_wait = {0}, [], True, None
    # notification
    n_snd, n_unseen, n_rcv, n_wait = {0}, 0, True, None
    for i, l in enumerate(case.lines):
        if i >= len(out):
            bad(i, "crash", "no output"); break
        t, o = l.split(), out[i].split()
        if not o or o[0] in ("PANIC", "POISONED", "CRASH", "bad-op"):
            bad(i, "panic", "panic / crash"); break
        op = t[0]
        if op.startswith("x."):
            if out[i] != "ok":
                bad(i, "stress-" + (o[1] if len(o) > 1 else "fail"), "threaded stress failed")
            continue
        # ---------------- sender-side steps: a waiting receiver must be woken
        if op in ("o.send", "o.drops"):
            if not o_snd:
                if o[0] != "gone": bad(i, "harness", "sender already consumed")
                continue
            if o[0] not in ("sent", "dropped"):
                bad(i, "oneshot-send-refused", "send/drop not executed"); continue
            w = parse_wake(o[1])
            if o_wait is not None and o_wait not in w:
                bad(i, "oneshot-lost-wakeup", f"receiver pending with waker {o_wait} was not woken")
            o_wait = None
            o_snd = False
            if op == "o.send":
                o_sent = int(t[1])
        elif op == "o.poll":
            if not o_rcv:
                if o[0] != "gone": bad(i, "harness", "receiver dropped")
                continue
            if o_sent is not None and not o_got:
                exp = f"ready {o_sent}"
            elif not o_snd:
                exp = "closed"
            else:
                exp = "pending"
            if out[i] != exp:
                cause = ("oneshot-duplicate-or-wrong-value" if o[0] == "ready" else
                         "oneshot-value-lost" if exp.startswith("ready") else "oneshot-closed-wrong")
                bad(i, cause, f"expected `{exp}`")
            if o[0] == "ready": o_got = True
            o_wait = int(t[1]) if o[0] == "pending" else None
        elif op == "o.dropr":
            o_rcv, o_wait = False, None
        elif op == "m.send":
            sid = int(t[1])
            if sid not in m_snd:
                if o[0] != "gone": bad(i, "harness", "no such sender")
                continue
            if o[0] != "sent":
                if m_rcv: bad(i, "mpsc-send-refused", "send through a live handle with a live receiver failed")
                continue
            m_q.append(int(t[2]))
            w = parse_wake(o[1])
            if m_wait is not None and m_wait not in w:
                bad(i, "mpsc-lost-wakeup", f"receiver pending with waker {m_wait} was not woken by send")
            m_wait = None
        elif op in ("m.clone", "n.clone"):
            snd = m_snd if op[0] == "m" else n_snd
            sid, new = int(t[1]), int(t[2])
            legal = sid in snd and new not in snd
            if (o[0] == "ok") != legal: bad(i, "harness", "clone legality")
            if legal: snd.add(new)
        elif op == "m.drops":
            sid = int(t[1])
            if sid not in m_snd:
                if o[0] != "gone": bad(i, "harness", "no such sender")
                continue
            m_snd.discard(sid)
            w = parse_wake(o[1]) if len(o) > 1 else []
            if not m_snd and not m_q and m_wait is not None:
                if m_wait not in w:
                    bad(i, "mpsc-no-disconnect", f"last sender dropped, queue empty: pending receiver (waker {m_wait}) not woken")
                else:
                    m_wait = None
        elif op == "m.poll":
            if not m_rcv:
                if o[0] != "gone": bad(i, "harness", "receiver dropped")
                continue
            if m_q:
                exp = f"ready {m_q[0]}"
            elif not m_snd:
                exp = "closed"
            else:
                exp = "pending"
            if out[i] != exp:
                if exp == "closed" and o[0] == "pending":
                    bad(i, "mpsc-no-disconnect", "all senders dropped and queue empty, but receive stays pending")
                elif o[0] == "ready":
                    bad(i, "mpsc-order-or-duplicate", f"expected `{exp}`")
                elif exp.startswith("ready"):
                    bad(i, "mpsc-value-lost", f"expected `{exp}`")
                else:
                    bad(i, "mpsc-closed-wrong", f"expected `{exp}`")
            if o[0] == "ready" and m_q:
                v = int(o[1])
                if v in m_q: m_q.remove(v)
            m_wait = int(t[1]) if o[0] == "pending" else None
        elif op == "m.dropr":
            m_rcv, m_wait = False, None
        elif op == "n.notify":
            sid = int(t[1])
            if sid not in n_snd:
                if o[0] != "gone": bad(i, "harness", "no such sender")
                continue
            if o[0] != "notified":
                bad(i, "notif-refused", "notify not executed"); continue
            n_unseen += 1
            w = parse_wake(o[1])
            if n_wait is not None and n_wait not in w:
                bad(i, "notif-lost-wakeup", f"receiver pending with waker {n_wait} was not woken by notify")
            n_wait = None
        elif op == "n.drops":
            sid = int(t[1])
            if sid not in n_snd:
                if o[0] != "gone": bad(i, "harness", "no such sender")
                continue
            n_snd.discard(sid)
            w = parse_wake(o[1]) if len(o) > 1 else []
            if not n_snd and n_wait is not None:
                if n_wait not in w:
                    bad(i, "notif-lost-wakeup", f"last sender dropped: pending receiver (waker {n_wait}) not woken")
                n_wait = None
        elif op == "n.poll":
            if not n_rcv:
                if o[0] != "gone": bad(i, "harness", "receiver dropped")
                continue
            exp = "ready" if n_unseen > 0 else ("closed" if not n_snd else "pending")
            if out[i] != exp:
                bad(i, "notif-lost" if exp == "ready" else "notif-poll-wrong", f"expected `{exp}`")
            if o[0] == "ready": n_unseen = 0
            n_wait = int(t[1]) if o[0] == "pending" else None
        elif op == "n.dropr":
            n_rcv, n_wait = False, None
        if len(viol) >= 3:
            break
    return viol


def nontrivial(case, out):
    polled = any(l.split()[0].endswith(".poll") and o != "gone" for l, o in zip(case.lines, out))
    acted = any(o.split()[0] in ("sent", "dropped", "notified") for o in out if o)
    stress = any(l.startswith("x.") for l in case.lines)
    return (polled and acted) or stress


def exhaustive(alpha, length):
    for n in range(1, length + 1):
        for combo in itertools.product(alpha, repeat=n):
            yield Case(number_values(list(combo)))


def run(ctx):
    r = ctx.rng
    quick = ctx.tier == "quick"
    cases = [Case(list(c)) for c in CORPUS]
    cases += list(exhaustive(ONE_ALPHA, 6 if quick else 8))
    cases += list(exhaustive(MPSC_ALPHA, 4 if quick else 6))
    cases += list(exhaustive(NOTIF_ALPHA, 4 if quick else 6))
    for _ in range(6000 if quick else 100000):
        cases.append(Case(gen_random(r)))
    for k in range(3 if quick else 40):
        cases.append(Case([f"x.one {r.range(50, 300)} {r.range(1, 99999)}", f"x.mpsc {r.range(2, 6)} {r.range(100, 600)}",
                           f"x.notif {r.range(10, 300)}"]))
    for c in cases:
        for l in c.lines:
            ctx.count(l.split()[0])
    ctx.differential(ENGINE, cases, nontrivial=nontrivial, oracle=oracle)


TECHNIQUE = "Lean 4 invariants over arbitrary step lists (= interleavings of critical sections) + differential correspondence with the real channels polled by hand"
LEVEL = "proof"
LEVEL_TEXT = ("Kernel-checked Lean theorems over ALL step lists of the three channel state machines (one step = one "
              "critical_section::with block of the code; threads = arbitrary interleaving): one-shot value received exactly once "
              "and only if sent (C34_oneshot_exactly_once, _outputs_once), poll answers exactly what the history demands, Err iff "
              "dropped unsent (C34_oneshot_poll_spec, _err_iff), a pending un-woken receiver is always still registered with nothing "
              "to receive and is woken by send and by sender drop (C34_oneshot_no_lost_wakeup, _wake_on_send_and_drop); mpsc (code "
              "with fixes/D39.patch): received ++ queued = sent (C34_mpsc_fifo), sender_count = live handles and closed iff none "
              "(C34_mpsc_count), receive answers the oldest value, None exactly when all senders are dropped and the queue is "
              "empty, else Pending (C34_mpsc_poll_spec, full), every send and the last sender drop wake the receiver "
              "(C34_mpsc_send_wakes, _last_drop_wakes, _no_lost_wakeup); notification: sender_count = live handles, no underflow "
              "(C34_notify_count), Ready iff a notify happened since the last Ready, Err iff no sender left "
              "(C34_notify_poll_spec), no lost wake-up (C34_notify_no_lost_wakeup, _wakes). The former defect D39 (mpsc never "
              "reported disconnection) is kept as regression witness C34_mpsc_disconnect_counterexample on the pre-patch model "
              "function. Tied to the real channels by exhaustive short and random long step lists with hand-polled futures and "
              "counting wakers.")
LEVEL_NOTE = ("Trusted / outside the model: mutual exclusion of critical_section::with (std feature of the critical-section crate) "
              "and the memory ordering it provides - the model takes each critical section as atomic; thread scheduling itself "
              "(the x.* threaded stress ops are a test of that assumption, not a proof); Arc reference counting; the Lean kernel "
              "(axioms audited); the hand-written model Model/Chan.lean; the chan harness (hand-polled futures, std::task::Wake "
              "counting wakers); the Python oracle. `o.send` in the harness is the whole send(self) = two critical sections; the "
              "interleavings between them exist only in the theorems. Requires fixes/D39.patch: on a tree without it the check "
              "reports VIOLATION (cause mpsc-no-disconnect).")
DESIGN_REF = "DESIGN.md section 5 C34"
TRUSTED_EXTRA = ["critical-section crate (std implementation): mutual exclusion of critical_section::with is assumed, not proved"]
