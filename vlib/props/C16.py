"""C16: matched-status counts track the actual matched set (full stack on the deterministic simulator `dsim`)."""
import os
from vlib.core import Case
from vlib.dsim_common import dsim_env
from vlib.matchset_common import *

BINS = ["dsim", "matchset"]
RULE = ("scenarios over the public API on the simulator: 2-4 participants of one domain, each with topics A/B, publishers and a subscriber; "
        "3-9 random actions (create writer/reader with reliability/deadline/user_data/listener variations, set_qos of deadline or user_data "
        "- flipping compatibility both ways -, delete endpoint, delete participant, silent death of a participant followed by 130 s of "
        "virtual time, late-joining participant), each followed by status reads, matched lists, the listener log and the destinations of "
        "a freshly written sample; hand-written corpus with the exemplars of the repaired defects D3, D21, D22, D23 first; a case is non-trivial when a match was "
        "observed (total_count > 0) and a deletion / QoS change / silence happened; distinct by op lines")
ASSUMPTIONS = ["model = code of main (with the repairs D3, D21) plus fixes/D22.patch and fixes/D23.patch",
               "network abstraction: an announcement of S reaches X iff S's outgoing traffic is not cut and S and X have discovered each other; "
               "the scenarios never re-open a cut link",
               "a participant cut at time t is removed by everybody inside (t + 94 s, t + 101 s) (lease 100 s, SPDP period 5 s); no scenario "
               "observes inside that window",
               "partitions, topic data and type matching are constant (default); compatibility varies through reliability kind and deadline only",
               "last_subscription_handle / last_publication_handle are never set by the code (always the nil handle); not part of this property"]


def run(ctx):
    n = 200 if ctx.tier == "quick" else 3000
    cases = [Case(c) for c in CORPUS]
    cases += [gen_case(ctx.rng, ctx.tier) for _ in range(n)]
    for c in cases:
        for l in c.lines:
            ctx.count("op:" + l.split()[0])
    env = dict(os.environ)
    env.update(dsim_env(16, 60000))
    ctx.differential(ENGINE, cases, nontrivial=nontrivial, oracle=oracle, env=env)
    for v in ctx.violations:
        ctx.count("oracle:" + str(v.get("cause")))


LEVEL_TEXT = ("Kernel-checked Lean theorems about the bookkeeping automaton of one data writer / data reader (Model/MatchSet.lean, the code of "
              "process_discovered_readers/_writers, remove_discovered_reader/_writer, remove_discovered_participant and the status getters, with "
              "the repairs D3, D21, D22 and D23), for ALL sequences of discover / re-announce / undiscover / participant-gone / read-status steps "
              "on both sides: current_count is the size of the matched list, the RTPS proxies are exactly the matched endpoints and nobody is "
              "matched twice (C16_current); total_count is the number of steps that added an endpoint not matched at that moment (C16_total); "
              "both change fields are the difference since the last read (C16_change_total, C16_change_current); after a deletion, a "
              "participant removal or an incompatible (re-)announcement the endpoint is not matched and not addressed until it is announced "
              "compatible again (C16_not_addressed, C16_not_addressed_gone, C16_gone_unmatched, C16_incompatible); every endpoint of every "
              "reachable world is in such a state (C16_world). The four defects found on the way are repaired and kept as Lean regression "
              "witnesses on the old model functions (D3, D21: ..._asis_counterexample; D22, D23: ..._old_counterexample). The world around the "
              "automaton (Model/MatchWorld.lean: who hears whose announcements, worker iteration, lease expiry) drives the endpoint states only "
              "through the automaton's step function and is tied to the real stack by a differential run of whole scenarios on the simulator "
              "(public async API, virtual time, real RTPS discovery traffic): every status, matched list, listener call and the destinations of "
              "every written sample are predicted exactly. An independent set-based specification oracle judges the implementation's answers "
              "alone; nothing is suppressed any more.")
LEVEL_NOTE = ("Trusted: Lean kernel; Model/MatchSet.lean + Model/MatchWorld.lean (hand transcription; the network abstraction and the 94-101 s "
              "expiry window are assumptions, see ASSUMPTIONS); the dsim simulator and interpreter (snapshot of another builder), "
              "the canonicaliser in harness/src/bin/matchset.rs (log entries sorted, trace reduced to destination sets) and the Python oracle. The theorems speak about the model of main "
              "plus fixes/D22.patch and fixes/D23.patch.")
TECHNIQUE = "Lean 4 invariants over all step sequences of the bookkeeping automaton + differential correspondence of full-stack scenarios on the deterministic simulator"
DESIGN_REF = "DESIGN.md section 5 C16"
