"""C16: matched-status counts track the actual matched set (full stack on the deterministic simulator `dsim`)."""
import os
from vlib.core import Case
from vlib.dsim_common import dsim_env
from vlib.matchset_common import *

BINS = ["dsim", "matchset"]
RULE = ("scenarios over the public API on the simulator: 2-4 participants of one domain, each with topics A/B, publishers and a subscriber; "
        "3-9 random actions (create writer/reader with reliability/deadline/user_data/listener variations, set_qos of deadline or user_data "
        "- flipping compatibility both ways -, delete endpoint, delete participant, silent death of a participant followed by 130 s of "
        "virtual time, late-joining participant), each followed by status reads, matched lists, the listener log and the destinations of "
        "a freshly written sample; hand-written corpus with the exemplars of D3, D21, D22, D23 first; a case is non-trivial when a match was "
        "observed (total_count > 0) and a deletion / QoS change / silence happened; distinct by op lines")
ASSUMPTIONS = ["model = code with fixes/D3.patch and fixes/D21.patch applied (on the tree without them the corpus cases of D3 and D21 fail)",
               "network abstraction: an announcement of S reaches X iff S's outgoing traffic is not cut and S and X have discovered each other; "
               "the scenarios never re-open a cut link",
               "a participant cut at time t is removed by everybody inside (t + 94 s, t + 101 s) (lease 100 s, SPDP period 5 s); no scenario "
               "observes inside that window",
               "partitions, topic data and type matching are constant (default); compatibility varies through reliability kind and deadline only",
               "last_subscription_handle / last_publication_handle are never set by the code (always the nil handle); not part of this property"]


def run(ctx):
    n = 200 if ctx.tier == "quick" else 3000
    cases = [Case(c) for c in CORPUS]
    cases += [gen_case(ctx.rng, ctx.tier) for _ in range(n)]
    for c in cases:
        for l in c.lines:
            ctx.count("op:" + l.split()[0])
    env = dict(os.environ)
    env.update(dsim_env(16, 60000))
    ctx.differential(ENGINE, cases, nontrivial=nontrivial, oracle=oracle, env=env)
    for v in ctx.violations:
        ctx.count("oracle:" + str(v.get("cause")))


LEVEL_TEXT = ("Kernel-checked Lean theorems about the bookkeeping automaton of one data writer / data reader (Model/MatchSet.lean, the code of "
              "process_discovered_readers/_writers, remove_discovered_reader/_writer, remove_discovered_participant and the status getters, with "
              "the repairs D3 and D21 applied), for ALL sequences of discover / re-announce / undiscover / participant-gone / read-status steps: "
              "total_count is the number of steps that added an endpoint not matched at that moment (C16_total); total_count_change is the "
              "difference since the last read (C16_change_total); every RTPS proxy belongs to a matched endpoint and no endpoint is matched twice "
              "(C16_proxies_matched), on the writer side the proxies ARE the matched endpoints even across participant removal "
              "(C16_proxies_writer); after a deletion or a participant removal the endpoint is not addressed until it is announced again "
              "(C16_not_addressed, C16_not_addressed_gone). Two clauses hold only partially because of open defects, each with a Lean "
              "counterexample replayed on the real stack: current_count = |matched| and current_count_change hold for all histories without a "
              "participant removal (C16_current_partial, C16_change_current_partial; D23: remove_discovered_participant purges the writer's "
              "matched list without touching the counters and never purges the reader's list, and the dead participant's readers are matched "
              "again from the unpurged discovered list), and an endpoint is never matched while all its announcements are incompatible "
              "(C16_incompatible_partial; D22: an endpoint that BECOMES incompatible stays matched). The world around the automaton "
              "(Model/MatchWorld.lean: who hears whose announcements, worker iteration, lease expiry) drives the endpoint states only through the "
              "automaton's step function and is tied to the real stack by a differential run of whole scenarios on the simulator (public async "
              "API, virtual time, real RTPS discovery traffic): every status, matched list, listener call and the destinations of every written "
              "sample are predicted exactly. An independent set-based specification oracle judges the implementation's answers alone.")
LEVEL_NOTE = ("Trusted: Lean kernel; Model/MatchSet.lean + Model/MatchWorld.lean (hand transcription; the network abstraction and the 94-101 s "
              "expiry window are assumptions, see ASSUMPTIONS); the dsim simulator and interpreter (snapshot of another builder), "
              "the canonicaliser in harness/src/bin/matchset.rs (log entries sorted, trace reduced to destination sets) and the Python oracle. The theorems speak about the model with "
              "fixes/D3.patch and fixes/D21.patch; D22 and D23 are open findings.")
TECHNIQUE = "Lean 4 invariants over all step sequences of the bookkeeping automaton + differential correspondence of full-stack scenarios on the deterministic simulator"
DESIGN_REF = "DESIGN.md section 5 C16"
