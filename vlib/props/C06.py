"""C06: no datagram can crash, hang or exhaust a running participant (system-level robustness; the datagrams of this
check are well-formed RTPS messages with arbitrary field values that reach the dispatch — raw-byte decoder totality is C07)."""
from vlib.fuzzdg_common import *
from vlib.dsim_common import dsim_env

BINS = ["dsim", "fuzzdg"]
LEAN_MODULES = ["DustVerif.Props.C06"]
RULE = ("dsim scenarios: a victim participant P2 with a matched reliable reader and writer (0-3 real samples each) and two "
        "probe pairs; 1-5 injected datagrams of 1-4 submessages (HEARTBEAT, GAP, DATA, DATA_FRAG, HEARTBEAT_FRAG, ACKNACK, "
        "NACK_FRAG, INFO_TS/DST/SRC/REPLY, PAD, unknown ids) claiming the GUID prefix of the discovered peer, of the victim, of "
        "nobody, or switching it with INFO_SRC; every sequence number / count / numBits / fragment field from 0, 1, near the "
        "live value, 255-257, 2^15, 2^16, 2^31, 2^32-1, i64::MIN/MAX and neighbours; user entities (replies of the victim "
        "observed and predicted) and built-in entities / metatraffic port (crash and liveness only); a case is non-trivial "
        "when at least one injected submessage is addressed to a matched endpoint under the peer's identity; distinct by op list")
ASSUMPTIONS = ["the delivered model is that of the repository's main branch (which contains the repairs D5 D62 D6 D7 D2+D8 D9 D63 D1+D44 "
               "D-rtps-1 D-wire-3 D-wire-4) WITH fixes/D64.patch and fixes/D65.patch applied",
               "datagrams are structurally well-formed little-endian RTPS messages (lengths consistent); malformed byte strings are C07",
               "reliable KEEP_ALL endpoints, debug profile (overflow checks on), no virtual time passes before the liveness epilogue",
               "memory: the peak heap of the simulated process may grow by at most 64 x datagram length + 256 KiB while one injected datagram is "
               "processed, and no single state may exceed 2 GiB (counting allocator of the dsim extension `x-w2d-inject`)",
               "DATA / DATA_FRAG payloads are small valid or empty encodings; discovery-data and XTypes decoders reached through built-in readers are C07"]

P1b, P2b = prefix_of(0), prefix_of(1)
RA_, WA_, RB_, WB_ = ent(RA), ent(WA), ent(RB), ent(WB)


def case(na, nb, dgs, hold=True, port="user"):
    l = skeleton(na, nb)
    if not hold:
        l = l[:-1]
    for d in dgs:
        l += inject(d, port) if hold else [f"x-w2d-inject P1 P2 {port} {d}"]
    return l + EPILOGUE


# exemplars of the repaired defects (each panicked / hung the worker of the tree as found) and of ordinary forged traffic
CORPUS = [
    ("D5", case(2, 2, [datagram(UNKNOWN_PREFIX, [m_nack_frag(RB_, WB_, 1, 1, 300, [0], 1, words=8)])])),
    ("D62", case(2, 2, [datagram(UNKNOWN_PREFIX, [m_nack_frag(RB_, WB_, 1, U32_MAX, 2, [1], 1)])])),
    ("D6", case(2, 2, [datagram(P1b, [m_data_frag(RA_, WA_, 3, 1, 1, 0, 100, bytes(8))])])),
    ("D7", case(2, 2, [datagram(UNKNOWN_PREFIX, [m_info_reply(0)])])),
    ("D8", case(2, 2, [datagram(P1b, [m_gap(RA_, WA_, 2, 2**40, 0, [])])])),
    ("D9", case(2, 2, [datagram(P1b, [m_heartbeat(RA_, WA_, I64_MIN, 2, 100)])])),
    ("D9", case(2, 2, [datagram(P1b, [m_heartbeat(RA_, WA_, I64_MIN, 2, 100, final=True)]), datagram(P1b, [m_data(RA_, WA_, 3, ki_payload(5, 5))])])),
    ("D9", case(2, 2, [datagram(P1b, [m_acknack(RB_, WB_, I64_MIN, 0, [], 100)])])),
    ("D63", case(2, 2, [datagram(P1b, [m_gap(RA_, WA_, I64_MAX, I64_MAX, 1, [0])]), datagram(UNKNOWN_PREFIX, [m_heartbeat(bytes(4), bytes(4), 1, 1, 1, final=True)])])),
    ("D63", case(2, 2, [datagram(P1b, [m_acknack(RB_, WB_, I64_MAX, 1, [0], 100)])])),
    ("D63", case(2, 2, [datagram(P1b, [m_acknack(RB_, WB_, I64_MAX - 1, 3, [2], 100)])])),
    ("D63", case(2, 2, [datagram(P1b, [m_nack_frag(RB_, WB_, I64_MAX, 1, 1, [0], 100)])])),
    ("D63", case(2, 2, [datagram(P1b, [m_heartbeat(RA_, WA_, I64_MAX, I64_MAX, 100)]), datagram(P1b, [m_data(RA_, WA_, I64_MAX, ki_payload(5, 5))]),
                        datagram(P1b, [m_heartbeat(RA_, WA_, I64_MAX, I64_MAX, 101)])])),
    ("D64", case(2, 2, [datagram(P1b, [m_data_frag(RA_, WA_, 3, 1, 5, 100, 100, bytes(8))]), datagram(P1b, [m_heartbeat(RA_, WA_, 1, 3, 100)])])),
    ("D44", case(2, 2, [datagram(P1b, [m_data_frag(RA_, WA_, 3, 300, 1, 10, 10000, bytes(8))]), datagram(P1b, [m_heartbeat(RA_, WA_, 1, 3, 100)])])),
    # D65: 700 DATA_FRAG submessages (fragments_in_submessage 65535, size 1) in one 30 KB datagram: 20 s of worker time on main, 0.1 s repaired
    ("D65", case(2, 2, [datagram(P1b, [m_data_frag(RA_, WA_, 3, 1 + i * 65535, 65535, 1, 700 * 65535, bytes(8)) for i in range(700)])])),
    # D2: a GAP that is not contiguous with what the reader has (3 is missing) is ignored on main; the contiguous one is honoured
    ("-", case(2, 2, [datagram(P1b, [m_gap(RA_, WA_, 5, 7, 0, [])]), datagram(P1b, [m_heartbeat(RA_, WA_, 1, 9, 100)]),
                      datagram(P1b, [m_gap(RA_, WA_, 3, 7, 4, [0, 1, 3])]), datagram(P1b, [m_heartbeat(RA_, WA_, 1, 12, 101)])])),
    # element counts read from the wire that exceed what the submessage carries: INFO_REPLY numLocators 2^20 / u32::MAX with no locator
    # present, a truthful unicast list followed by a lying multicast list; the parser runs out of ITS octets and only that submessage is dropped
    ("-", case(2, 2, [datagram(UNKNOWN_PREFIX, [m_info_reply(0, claimed=2**20), m_heartbeat(RA_, WA_, 1, 5, 100)]),
                      datagram(P1b, [m_info_reply(0, claimed=U32_MAX), m_heartbeat(RA_, WA_, 1, 5, 100)]),
                      datagram(P1b, [m_info_reply(1, None, multicast=(1, 2**31)), m_info_reply(2, claimed=1, trailing=4), m_heartbeat(RA_, WA_, 1, 6, 101)])])),
    # D-wire-4: a set that could name a number above i64::MAX is rejected by the decoder; D-wire-3: an unknown kind with length 0 swallows the rest
    ("-", case(2, 2, [datagram(P1b, [m_gap(RA_, WA_, 3, I64_MAX - 1, 3, [0]), m_heartbeat(RA_, WA_, 1, 5, 100)]),
                      datagram(P1b, [sub(0x80, 0, b""), m_heartbeat(RA_, WA_, 1, 6, 101)])])),
    ("D9", case(2, 2, [datagram(P1b, [m_heartbeat(ent(SEDP_PUB_R), ent(SEDP_PUB_W), I64_MIN, 2, 100)])], hold=False, port="meta")),
    # forged but harmless traffic: replies of the victim are predicted by the model
    ("-", case(2, 2, [datagram(P1b, [m_heartbeat(RA_, WA_, 1, 5, 100)]), datagram(P1b, [m_acknack(RB_, WB_, 1, 3, [0, 2], 100)])])),
    ("-", case(2, 2, [datagram(P1b, [m_data_frag(RA_, WA_, 3, 2, 1, 8, 20, b"y" * 8)]), datagram(P1b, [m_heartbeat(RA_, WA_, 1, 3, 100)]),
                      datagram(P1b, [m_data_frag(RA_, WA_, 3, 1, 1, 8, 20, bytes([0, 1, 0, 0, 7, 0, 0, 0])), m_data_frag(RA_, WA_, 3, 3, 1, 8, 20, b"z" * 4),
                                     m_heartbeat(RA_, WA_, 1, 3, 101)])])),
    ("-", case(2, 2, [datagram(UNKNOWN_PREFIX, [m_heartbeat(RA_, WA_, 1, 5, 100), m_info_src(P1b), m_heartbeat(RA_, WA_, 1, 6, 101), m_info_dst(UNKNOWN_PREFIX),
                                                m_heartbeat(RA_, WA_, 1, 7, 102, final=True), m_heartbeat(RA_, WA_, 2, 1, 103, final=True, liveliness=True)])])),
    ("-", case(2, 2, [datagram(P1b, [m_nack_frag(RB_, ent("12345678"), 1, 0, 3, [1, 2], 5)]), datagram(P1b, [m_nack_frag(RB_, WB_, 7, 1, 0, [], 7)])])),
    ("-", case(0, 0, [datagram(P1b, [m_heartbeat(RA_, WA_, 1, I64_MAX, 1)]), datagram(P1b, [m_gap(RA_, WA_, 1, 5, 8, [1, 7])]),
                      datagram(P1b, [m_heartbeat(RA_, WA_, 1, 20, 2)])])),
]


def injected(case_lines):
    return [l.split() for l in case_lines if l.startswith("inject ") or l.startswith("x-w2d-inject ")]


def nontrivial(case, out):
    peer = prefix_of(0).hex()
    for t in injected(case.lines):
        h = t[4]
        if peer in h and any(x in h for x in (WA, RA)):
            return True
    return False


def oracle(case, out):
    viol = []
    bad = next((k for k, o in enumerate(out) if o in BAD or o.startswith("CRASH") or o.startswith("ALLOC")), None)
    if bad is not None and out[bad].startswith("ALLOC"):
        n = len(case.lines[bad].split()[4]) // 2
        return [{"what": f"op {bad}: processing one injected datagram of {n} bytes raised the peak heap by {out[bad].split()[1]} bytes "
                         f"(allowed {ALLOC_C} * {n} + {ALLOC_D}): memory is not proportional to the datagram size", "at": bad}]
    if bad is not None:
        tag = case.meta.get("exemplar") if isinstance(case.meta, dict) else None
        v = {"what": f"op {bad} `{case.lines[bad][:200]}` answered {out[bad]}: the worker of the factory died / did not return", "at": bad}
        cause = {"D5": "fragment-number-set-numbits-unchecked", "D62": "fragment-number-set-base-overflow", "D6": "data-frag-fragment-size-zero",
                 "D7": "info-reply-todo", "D8": "gap-range-loop-unbounded", "D9": "sequence-number-minus-one-overflow",
                 "D63": "sequence-number-plus-one-overflow", "D64": "nack-frag-no-fragment-missing-expect", "D44": "nack-frag-set-window-index",
                 "D65": "data-frag-reassembly-quadratic"}.get(tag)
        if cause:
            v["cause"] = cause
        return [v]
    if any(o == "bad-op" for o in out):
        return [{"what": "scenario not accepted by the interpreter (generator bug)", "at": out.index("bad-op")}]
    # liveness epilogue: the untouched pairs still communicate in both directions and the API answers
    exp = {"write wp 9 9": "ok", "wait-ack wp 1000000000": "ok", "write wq 8 8": "ok", "wait-ack wq 1000000000": "ok", "probe P2": "ok"}
    for l, o in zip(case.lines, out):
        if l in exp and o != exp[l]:
            viol.append({"what": f"liveness probe `{l}` answered {o} after the injections"})
        if l == "take rp" and not o.startswith("ok 1 9:9/"):
            viol.append({"what": f"probe sample P1->P2 not delivered after the injections: {o}"})
        if l == "take rq" and not o.startswith("ok 1 8:8/"):
            viol.append({"what": f"probe sample P2->P1 not delivered after the injections: {o}"})
    # amplification bound: one injected datagram never makes the victim answer with more than 256 + 257 datagrams per submessage
    for k, l in enumerate(case.lines):
        if l == "inflight" and k < len(out) and out[k].startswith("ok "):
            n = int(out[k].split()[1])
            subs = 8
            if n > 520 * subs:
                viol.append({"what": f"{n} reply datagrams to one injected datagram", "at": k})
    return viol


def run(ctx):
    r = ctx.rng
    n = 350 if ctx.tier == "quick" else 8000
    cases = [Case(list(l), {"exemplar": tag, "mode": "corpus"}) for tag, l in CORPUS]
    for k in range(n):
        cases.append(gen_case(r, big_ranges=(k % 7 == 3)))
    for c in cases:
        ctx.count("mode:" + str(c.meta.get("mode")))
        for t in injected(c.lines):
            ctx.count("datagrams")
            ctx.count("prefix:" + ("peer" if t[4][16:40] == prefix_of(0).hex() else "victim" if t[4][16:40] == prefix_of(1).hex() else "other"))
    ctx.differential(ENGINE, cases, nontrivial=nontrivial, oracle=oracle, shrink=True,
                     env={**dsim_env(jobs=16, case_timeout_ms=150000), **ALLOC_ENV})


TECHNIQUE = ("Lean 4 theorems (total, invariant-preserving, step-bounded dispatch for all submessage lists and field values) over a panic-aware "
             "model of MessageReceiver + handle_data + the RTPS proxy handlers, differential correspondence of panics AND of the victim's reply "
             "datagrams through the deterministic simulator, liveness oracle")
LEVEL_TEXT = ("Kernel-checked Lean theorems about a panic-aware transcription of the MessageReceiver state machine and of the dispatch of every "
              "submessage kind into the reader-side writer proxy (HEARTBEAT, GAP, DATA, DATA_FRAG, HEARTBEAT_FRAG: sequence-number window, "
              "fragment buffer, ACKNACK / NACK_FRAG construction) and the writer-side reader proxy (ACKNACK, NACK_FRAG, re-send of requested "
              "changes): for ALL submessage lists with ARBITRARY field values, all senders and all proxy states satisfying the invariant "
              "'no buffered fragment has size 0', the repaired dispatch returns without a panic outcome and re-establishes the invariant "
              "(C06_dispatch_total), hence survives any sequence of datagrams (C06_sequence_total); a datagram that does not carry a discovered "
              "peer's GUID prefix leaves every proxy untouched (C06_unknown_sender_inert); the attacker-driven loops are bounded: GAP 1+numBits "
              "steps whatever the range (C06_gap_steps), HEARTBEAT 515+2|fragment buffer| (C06_heartbeat_steps), ACKNACK by the set sizes "
              "(C06_acknack_steps), DATA_FRAG by the number of buffered fragments (C06_datafrag_steps, needs fixes/D65.patch). Each of the repaired panic / hang sites keeps a one-datagram witness on the model of the tree as found "
              "(C06_*_counterexample), every one replayed on the real code. The model is tied to the real stack in the deterministic simulator: "
              "forged datagrams are injected into a participant with matched endpoints and the model predicts, line by line, PANIC/ok and the "
              "decoded reply datagrams of the victim (ACKNACK base/set/count, NACK_FRAG, re-sent DATA / GAP); the as-found variant of the model "
              "agreed with the as-found binary on 200+ scenarios including 56 panics. A liveness oracle (two untouched pairs still deliver and "
              "acknowledge, API answers) checks the implementation alone.")
LEVEL_NOTE = ("Trusted: Lean kernel; Model/Receiver.lean; the dsim simulator, harness/src/dsimwrap.rs; the Python datagram builder and oracle. "
              "The delivered model is main + fixes/D64.patch + fixes/D65.patch; with D65 the DATA_FRAG work is bounded by the number of buffered "
              "fragments (C06_datafrag_steps), but the fragment buffer itself is still unbounded for the expected sequence number. Best-effort "
              "readers, inline QoS, built-in endpoint state, discovery-data / XTypes decoding (C07) and memory accounting are outside the model; "
              "built-in-entity and metatraffic injections are checked by the crash/liveness oracle only. On main without the two patches the D64 "
              "exemplar answers PANIC and the D65 exemplar keeps the worker busy for ~20 s (HANG only when the case time-out is shorter).")
DESIGN_REF = "DESIGN.md section 5 C06, section 7 D5-D10, D44"
