"""C15: endpoints match exactly when every request/offered QoS policy is compatible per the DDS table;
both sides reach the same verdict and name the offending policies."""
from vlib.match_common import *

RULE = ("pairs (writer+publisher QoS, reader+subscriber QoS) over all kinds x duration classes (0, 1ns, <1s, 1s, >1s, i32::MAX s, "
        "infinite, random) x presentation flags x representation lists; half of the pairs differ from a compatible pair in at most 3 "
        "policies; a case is non-trivial when at least one RxO policy differs between the two sides; distinct by canonical op line")
ASSUMPTIONS = ["durations are normalised (nanosec < 10^9), which is all the public constructors produce",
               "topic name, type and partition matching are outside this engine (they are inline in process_discovered_readers/writers and are exercised end-to-end by the dsim-based checks)"]
CORPUS = [
    # D19: same liveliness kind, offered lease shorter than requested (compatible per DDS, was reported incompatible)
    "rxo dur=0 scope=0 coh=0 ord=0 dl=inf lat=0:0 livk=0 lease=1:0 rel=1 do=0 own=0 repr=- | dur=0 scope=0 coh=0 ord=0 dl=inf lat=0:0 livk=0 lease=2:0 rel=1 do=0 own=0 repr=-",
    # D19: offered lease longer than requested (incompatible per DDS, was accepted)
    "rxo dur=0 scope=0 coh=0 ord=0 dl=inf lat=0:0 livk=0 lease=2:0 rel=1 do=0 own=0 repr=- | dur=0 scope=0 coh=0 ord=0 dl=inf lat=0:0 livk=0 lease=1:0 rel=1 do=0 own=0 repr=-",
    # D53: coherent access offered but not requested (compatible per DDS)
    "rxo dur=0 scope=1 coh=1 ord=1 dl=inf lat=0:0 livk=0 lease=inf rel=1 do=0 own=0 repr=- | dur=0 scope=0 coh=0 ord=0 dl=inf lat=0:0 livk=0 lease=inf rel=1 do=0 own=0 repr=-",
]


def nontrivial(case, out):
    t = case.lines[0].split()
    i = t.index("|")
    return t[1:i] != t[i + 1:]


def oracle(case, out):
    t = case.lines[0].split()
    i = t.index("|")
    w, r = parse_end(t[1:i]), parse_end(t[i + 1:])
    o = out[0] if out else ""
    if not o.startswith("W:"):
        return [{"what": f"compatibility check did not answer: {o}", "op": case.lines[0]}]
    ws, rs = o.split()
    wset, rset = parse_ids(ws[2:]), parse_ids(rs[2:])
    spec = spec_incompat(w, r)
    viol = []
    for side, got in (("writer", wset), ("reader", rset)):
        for p in sorted(got ^ spec):
            v = {"what": f"{side} side reports policy {p} as {'incompatible' if p in got else 'compatible'}, the DDS table says {'incompatible' if p in spec else 'compatible'}",
                 "op": case.lines[0], "policy": p}
            if p == 8 and w["livk"] == r["livk"] and w["lease"] != r["lease"]:
                v["cause"] = "liveliness-lexicographic-compare"
            if p == 3 and p in got and int(w["scope"]) >= int(r["scope"]) and ((w["coh"] == "1" and r["coh"] == "0") or (w["ord"] == "1" and r["ord"] == "0")):
                v["cause"] = "presentation-flags-compared-with-ne"
            viol.append(v)
    if wset != rset:
        viol.append({"what": f"the two sides disagree: writer side {sorted(wset)}, reader side {sorted(rset)}", "op": case.lines[0]})
    return viol


def run(ctx):
    r = ctx.rng
    n = 6000 if ctx.tier == "quick" else 200000
    cases = [Case([c]) for c in CORPUS]
    for k in range(n):
        w = gen_end(r)
        rd = gen_end(r, base=w if k % 2 == 0 else None)
        cases.append(Case([f"rxo {fmt_end(w)} | {fmt_end(rd)}"]))
    for c in cases:
        t = c.lines[0].split(); i = t.index("|")
        ctx.count("incompat%d" % len(spec_incompat(parse_end(t[1:i]), parse_end(t[i + 1:]))))
    ctx.differential(ENGINE, cases, nontrivial=nontrivial, oracle=oracle, shrink=False)


LEVEL_TEXT = ("Kernel-checked Lean theorems for ALL QoS values (every kind, every pair of durations incl. infinite, every flag and "
              "representation list): a policy is in the list the writer side computes iff the DDS request/offered table says it is "
              "incompatible (C15_writer_side_exact), the same for the reader side (C15_reader_side_exact), hence both sides name the same "
              "policies (C15_both_sides_agree) and the pair is accepted iff every policy is compatible (C15_compatible_iff). The model is "
              "the transcription of the two private functions; it is tied to them through cfg-guarded wrappers by a differential run over "
              "thousands of QoS pairs, and an independent Python statement of the DDS table checks the implementation output directly. Two "
              "genuine defects were found this way and repaired (liveliness lease compared lexicographically with the kind, D19; presentation "
              "flags compared with !=, D53); their pre-fix behaviour is kept as Lean regression witnesses. Topic-name, type and partition "
              "matching are inline in process_discovered_readers/writers and are not part of this engine (partial). A third part replays "
              "matched-set scenarios with set_qos steps (engine, model and set-based oracle of C16) so that 'both sides reach the same "
              "verdict' is also judged after a QoS change of a matched endpoint.")
LEVEL_NOTE = ("Trusted: Lean kernel; Model/Match.lean (the code's orderings as rank functions, Duration order lexicographic on (sec, nanosec)); "
              "cfg(dust_dds_verif) wrappers around the two private functions and hook constructors of the builtin-topic records; Python oracle. "
              "Assumes normalised durations. Partition / fnmatch matching, topic and type matching, and the status reporting of the "
              "incompatible policies are not modelled here.")
TECHNIQUE = "Lean 4 theorem (code's decision function = DDS RxO table, for all QoS values) + differential correspondence through cfg hooks"
DESIGN_REF = "DESIGN.md section 5 C15"


# ---- BEGIN partition / topic-name part (builder w2b; everything it needs is in vlib/partition_common.py) -----------------
# Lean: Model/Partition.lean + Props/C15Partition.lean (theorems C15_partition_*); Rust: `glob` op of harness/src/bin/match.rs
# (hook verif_partition_pattern_is_match) and end-to-end scenarios on the simulator through the `matchset` engine.
from vlib import partition_common as _pc

BINS = sorted(set(["match"] + _pc.PART_BINS))
LEAN_MODULES = ["DustVerif.Props.C15"] + _pc.PART_LEAN_MODULES
RULE += ("; PARTITION part: (pattern, name) pairs over literals, *, ?, [..], [!..], + (non-trivial when the pattern has a glob "
         "character) and end-to-end publisher/subscriber partition lists of 0-2 names from a small alphabet incl. the empty name, "
         "*, A*, ?1, [a-b]1, a+ on equal/different topic names (non-trivial when a list is non-empty)")
ASSUMPTIONS = [a for a in ASSUMPTIONS if not a.startswith("topic name, type and partition matching are outside")] + [
    "partition patterns are restricted to literals, *, ?, [..] with alphanumeric members/ranges, [!..]/[^..], and + after a literal, ? or class; "
    "backslash escapes, unclosed/empty classes and other regex syntax inside classes are outside the Lean glob matcher (the driver answers bad-op)",
    "type matching is not varied (one type); the end-to-end partition scenarios assume the network abstraction of C16 (notes/w2b.md)"]
LEVEL_TEXT += (" PARTITION part: the inline partition test is modelled in Model/Partition.lean (glob matcher = fnmatch_to_regex + regex folded "
               "together, validated pair by pair against the real translation + regex crate through a hook, and end to end on the simulator); "
               "proved for all name lists: both sides reach the same verdict (C15_partition_symmetric), the empty list gets exactly the verdict "
               "of the list holding the empty name (C15_partition_empty_is_default; defect D20a, repaired by fixes/D20a.patch), on ALL pattern-free "
               "lists the verdict is the DDS rule 'a common name' (C15_partition_plain), the executable glob matcher accepts exactly the "
               "declarative reading of a pattern (C15_partition_glob_spec); on all lists of expressions and clean names the verdict is the DDS partition rule - equal strings match, an expression "
               "matches the names it describes, two different expressions never match each other (C15_partition_spec; defect D20b, repaired by "
               "fixes/D20b.patch); regression witnesses C15_partition_empty_old_counterexample, C15_partition_pattern_vs_pattern_counterexample; "
               "open finding with a Lean witness: + is a regex quantifier (D20c: two tests of the repository rely on it).")
_run_rxo_part = run


RULE += ("; QoS-CHANGE part: matched-set scenarios of the C16 engine that contain a set_qos step (deadline / user_data flips of a matched "
         "writer or reader, both directions), judged by the set-based oracle of C16: after the change both sides hold the same verdict")


def _run_requalify_part(ctx):
    """third part: "both sides reach the same verdict" after a QoS CHANGE of a matched endpoint (seeded change C15_d: the reader kept
    a writer matched that its own new deadline makes incompatible). The scenarios, the model and the oracle are those of the
    matched-set engine of C16 (vlib/matchset_common.py), restricted to histories that contain a set-qos step."""
    import os
    from vlib import matchset_common as M
    from vlib.dsim_common import dsim_env
    want = 25 if ctx.tier == "quick" else 300
    cases, tries = [], 0
    while len(cases) < want and tries < want * 40:
        tries += 1
        c = M.gen_case(ctx.rng, ctx.tier)
        if any(l.startswith("set-qos") for l in c.lines):
            cases.append(c)
    ctx.count("requalify:cases", len(cases))
    env = dict(os.environ)
    env.update(dsim_env(16, 60000))
    ctx.differential(M.ENGINE, cases, nontrivial=M.nontrivial, oracle=M.oracle, env=env)


def run(ctx):
    _run_rxo_part(ctx)
    _pc.run_partition_part(ctx)
    _run_requalify_part(ctx)
# ---- END partition / topic-name part ---------------------------------------------------------------------------------
