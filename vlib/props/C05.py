"""C05: fragmented samples are reassembled byte-identically for any payload size and any accepted fragment size."""
from vlib.rtps_common import *

RULE = ("pure cases: `frags` / `reasm` for fragment sizes from every class of the accepted range 8..=65000 (ends, powers of two "
        "+-1, random) and payload sizes 0,1,f-1,f,f+1,2f-1,2f,2f+1,3f,3f+1,5f+3,random, fragment arrival streams with "
        "duplicates, reordering, missing fragments and fragments of a second sample; system cases: a real writer/reader pair "
        "(reliable and best-effort) with fragmented samples under drop/dup/reorder of single fragment datagrams, reliable cases "
        "end with a healing suffix; best-effort fragment-loss cases: two or three samples of 2-4 fragments, exactly one fragment of an "
        "earlier sample dropped, the later ones delivered completely (FIFO, shuffled inside a sample, or between the writes). Non-trivial = a pure case with >= 2 fragments, or a system case with a fragmented sample, "
        ">= 1 fault directive and >= 1 delivery")
ASSUMPTIONS = ["fragment size within the accepted range 8..=65000 (C38) and payload below 2^32 bytes, so the `as u16` / `as u32` "
               "casts of as_data_frag_submessage are exact (hypotheses f < 2^16, |data| < 2^32 of the theorems)",
               "the network does not forge: every fragment that carries a sequence number of the writer was made by "
               "as_data_frag_submessage from the change published under that number",
               "the delivered model is the tree with fixes/D1_D44.patch applied (NACK_FRAG repair); on a tree without it the "
               "model variant `cfg d1=0` is used and the oracle reports D1 / D44"]

CORPUS = [
    # D1 exemplar: 20 bytes, f = 8, fragment 2 lost once; heal
    (["init rel vol 8", "match", "write p20.3", "drop 1", "flush"] + heal_suffix(4), {"heal": True, "rel": True}),
    # D44 exemplar: 300 fragments, only the first arrives, then the heartbeat (last datagram)
    (["init rel vol 8", "match", "write p2400.1", "deliver 0", "deliver 298"] + heal_suffix(6), {"heal": True, "rel": True}),
    # two distant losses (DESIGN 7.1 D44): fragments 2 and 290 dropped
    (["init rel vol 8", "match", "write p2400.1", "drop 1", "drop 288"] + heal_suffix(6), {"heal": True, "rel": True}),
    # seed C05_d exemplar: best-effort, three samples of 3, 3, 2 fragments, fragment 2 of the first lost: 2 and 3 arrive completely
    (["init be vol 8", "match", "write p20.1", "write p17.2", "write p12.3", "drop 1", "flush"], {"rel": False}),
    # the same with the later samples' fragments in reverse order and a duplicate
    (["init be tl 8", "match", "write p20.1", "write p17.2", "drop 1", "deliver 0", "deliver 0", "dup 2", "deliver 2", "deliver 1",
      "deliver 0", "deliver 0"], {"rel": False}),
    # best-effort: fragments of sn 1 interleaved with DATA 2, duplicates, reverse order
    (["init be vol 8", "match", "write p20.3", "write x0102", "dup 0", "deliver 2", "deliver 1", "deliver 0", "flush"], {"rel": False}),
]


def pure_oracle(t, o):
    if t[0] == "frags":
        data, f = pspec_bytes(t[1]), int(t[2])
        n = div_ceil(len(data), f)
        exp = [str(n)] + [f"{k + 1}:1:{f}:{len(data)}:{show_payload(data[k * f:(k + 1) * f])}" for k in range(n)]
        got = o.split()
        if got != exp:
            k = next((i for i in range(min(len(got), len(exp))) if got[i] != exp[i]), min(len(got), len(exp)))
            return [{"what": f"`{' '.join(t)}`: fragment list differs from the payload cut into {n} pieces of {f} "
                             f"(first difference at item {k}: got {got[k] if k < len(got) else None}, "
                             f"expected {exp[k] if k < len(exp) else None})", "cause": "fragmentation-wrong"}]
    elif t[0] == "reasm":
        f, a, b = int(t[1]), pspec_bytes(t[2]), pspec_bytes(t[3])
        have = {"a": set(), "b": set()}
        for x in t[4:]:
            have[x[0]].add(int(x[1:]))
        def exp(d, s):
            n = div_ceil(len(d), f)
            return show_payload(d) if n >= 1 and s >= set(range(n)) else "none"
        e = f"r1={exp(a, have['a'])} r2={exp(b, have['b'])} again=none"
        if o != e:
            return [{"what": f"`{' '.join(t[:4])} ...`: reassembly gave `{o}`, expected `{e}`", "cause": "reassembly-wrong"}]
    return []


def oracle(case, out):
    viol = []
    for l, o in zip(case.lines, out):
        t = l.split()
        if t[0] in ("frags", "reasm"):
            if o == "PANIC":
                viol.append({"what": f"`{l[:80]}` panicked", "cause": "panic"})
            else:
                viol += pure_oracle(t, o)
    if any(l.startswith("init") for l in case.lines):
        # byte identity of everything delivered; duplicates/reordering belong to C01/C02 but are reported here too
        viol += [v for v in safety_oracle(case, out, check_skip=False)
                 if v["cause"] in ("payload-corrupted", "panic", "nackfrag-set-spans-256", "forged", "cache-rewritten")]
        # a fragmented sample that is still held must arrive once the network heals (reliable)
        viol += [v for v in liveness_oracle(case, out) if v["cause"] == "lost-fragment-never-repaired"]
        # best-effort: a fragmented sample whose fragments all arrived is delivered, whatever happened to earlier samples
        viol += be_complete_oracle(case, out)
    return attribute(case, viol)


def nontrivial(case, out):
    for l in case.lines:
        t = l.split()
        if t[0] == "frags":
            return div_ceil(len(pspec_bytes(t[1])), int(t[2])) >= 2
        if t[0] == "reasm":
            return len(t) > 5
    return nontrivial_system(case, out)


def sizes_for(f):
    return [0, 1, f - 1, f, f + 1, 2 * f - 1, 2 * f, 2 * f + 1, 3 * f, 3 * f + 1, 5 * f + 3]


def gen_pure(r, cfg, big):
    f = r.choice(F_CLASSES) if not big else r.choice([8192, 32768, 64999, 65000, r.range(8, 65000)])
    if r.chance(1, 4):
        f = r.range(8, 2000)
    n = r.choice(sizes_for(f)) if r.chance(3, 4) else r.range(0, 6 * f)
    seed = r.below(256)
    if r.chance(1, 2):
        return Case([cfg_line(cfg), f"frags p{n}.{seed} {f}"])
    m = r.choice(sizes_for(f)[:8])
    na, nb = div_ceil(n, f), div_ceil(m, f)
    toks = [f"a{k}" for k in range(na)] + [f"b{k}" for k in range(nb) if r.chance(2, 3)]
    if na and r.chance(1, 3):
        toks.remove(f"a{r.below(na)}")                     # one fragment missing
    toks += [r.choice(toks) for _ in range(r.below(4)) if toks]   # duplicates
    toks = r.shuffle(toks)
    return Case([cfg_line(cfg), f"reasm {f} p{n}.{seed} p{m}.{seed + 1} " + " ".join(toks)])


def gen_frag_system(r, cfg):
    """one or two fragmented samples among small ones; faults hit single fragment datagrams"""
    rel = r.chance(2, 3)
    f = r.choice([8, 8, 9, 16, 33, 100, 1000, 8192])
    lines = [cfg_line(cfg), f"init {'rel' if rel else 'be'} {r.choice(['vol', 'tl'])} {f}", "match"]
    nw = r.range(1, 4)
    for _ in range(nw):
        if r.chance(2, 3):
            k = r.choice([2, 2, 3, 3, 4, 7])
            n = r.choice([k * f, k * f - 1, (k - 1) * f + 1])
        else:
            n = r.choice([0, 1, f - 1, f])
        lines.append(f"write p{n}.{r.below(256)}")
        for _ in range(r.below(8)):
            c = r.below(10)
            lines.append(f"deliver {r.below(9)}" if c < 5 else f"drop {r.below(9)}" if c < 8 else f"dup {r.below(9)}")
    if rel:
        lines += heal_suffix(nw + 6)
    else:
        lines += ["flush"]
    return Case(lines, {"rel": rel, "heal": rel})


def run(ctx):
    r = ctx.rng
    cfg = preflight(ctx)
    quick = ctx.tier == "quick"
    cases = [Case([cfg_line(cfg)] + ops, meta) for ops, meta in CORPUS]
    # boundary sweep of the pure functions for every f class
    for f in sorted(set(F_CLASSES)):
        for n in sizes_for(f) if (f <= 1344 or not quick) else [f - 1, f, f + 1, 3 * f + 1]:
            cases.append(Case([cfg_line(cfg), f"frags p{n}.{f % 256} {f}"]))
    for k in range(120 if quick else 4000):
        cases.append(gen_pure(r, cfg, big=(k % 25 == 0)))
    for _ in range(150 if quick else 3000):
        cases.append(gen_frag_system(r, cfg))
    for _ in range(100 if quick else 2000):
        cases.append(gen_be_frag_loss(r, cfg))
    count_ops(ctx, cases)
    ctx.differential(ENGINE, cases, nontrivial=nontrivial, oracle=oracle)


TECHNIQUE = "Lean 4 theorems over all payloads / fragment sizes / arrival streams + differential correspondence with the real RTPS writer and reader"
LEVEL_TEXT = ("Kernel-checked Lean theorems for the model of as_data_frag_submessage / reconstruct_data_from_frag / NACK_FRAG: C05_count "
              "(writer count = ceil(len/f) = reader's total, for all payloads and 1<=f<2^16), C05_reassemble (for EVERY arrival stream with "
              "duplicates, any order and fragments of other samples the buffer yields exactly the payload once all fragments arrived and "
              "nothing before), C05_reassemble_sound, C05_purge_other_untouched, C05_nackfrag_consistent (repaired code: every requested "
              "number is in 1..=N, really missing, and answered with the fragment of that number); as-is witnesses "
              "C05_nackfrag_index/_dropped/_panic_asis_counterexample (D1, D44) replayed on the real code. Tied to the code by differential "
              "runs of the pure functions over all fragment-size classes and of a real RtpsStatefulWriter/RtpsStatefulReader pair under "
              "fragment-level faults; the oracle compares every delivered payload with the written bytes.")
LEVEL_NOTE = ("Trusted: Lean kernel (axioms audited); the hand-written model Model/Rtps.lean (bytes as Nat, sequence numbers/counts as Nat, "
              "one writer and one reader); harness/src/bin/rtps.rs incl. its transcription of the private GAP/HEARTBEAT glue (guarded by a "
              "source hash); payloads above 32 bytes are compared by length + FNV-1a-32. The protocol-level delivery of fragmented samples "
              "under faults is C01_in_order_once / C02_subsequence (safety) — eventual delivery is checked by the oracle only.")
DESIGN_REF = "DESIGN.md section 5 C05"
LEAN_MODULES = ["DustVerif.Props.C05"]
