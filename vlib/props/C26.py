"""C26: a reader on a content-filtered topic presents exactly the samples that satisfy the filter, in whatever
grouping the samples arrive (one DATA per datagram, several DATA submessages in one RTPS message)."""
from vlib.cfilter_common import *
from vlib.dsim_common import dsim_env

BINS = ["dsim", "cfilter"]
RULE = ("three-participant dsim scenarios (writer, reader on the filtered topic, control reader on the plain topic); filters "
        "`<member> (=|<=) %0` on the INT32 members id/value of KeyedI32 and on the string member of KeyedStr, parameter "
        "values at the i32 rails / equal to / one off the sample values, 1-9 samples (and disposes) delivered one per "
        "datagram, merged pair-wise (coalesce-next) or re-grouped arbitrarily (hold + x-w2d merge-held); a case is "
        "non-trivial when the filter is valid, at least one sample passes and one fails, and some datagram carries two or "
        "more DATA submessages; distinct by op list")
ASSUMPTIONS = ["the delivered model is that of the repository's main branch (D32, D60 repaired there) WITH fixes/D61.patch applied "
               "(the operand after the operator is read: %n / quoted string / integer literal; everything else is rejected at creation)",
               "tolerated: a quoted integer for an INT32 member (`value <= '5'`) and an unquoted integer literal for a string member "
               "(`name = 10`, compared as text) are accepted by the code and by the oracle's specification",
               "reliable KEEP_ALL endpoints without resource limits, no time passes inside a scenario (virtual time 0)",
               "filter expressions of the form `<member> (=|<=) <operand>`; every other SQL operator is unimplemented in "
               "dust-dds and outside this check",
               "strings are ASCII (String order = code point order)"]
LEAN_MODULES = ["DustVerif.Props.C26"]

P = skeleton
CORPUS = [
    # seeded change C26_d: a `%n` parameter must not be trimmed — parameter " RED": " RED" satisfies `name = %0`, "RED" does not; `<=` likewise
    P("ks", "\\sRED", "name = %0") + ["hold DATA user to=P2", "x-w2d s-write w 1 \\sRED", "x-w2d s-write w 2 RED", "x-w2d s-write w 3 RED\\s",
                                       "x-w2d merge-held 3", "x-w2d s-take rf", "x-w2d s-take rc"],
    P("ks", "x,RED\\s", "name <= %1") + ["x-w2d s-write w 1 RED", "x-w2d s-write w 2 RED\\s", "x-w2d s-write w 3 RED\\s\\s", "x-w2d s-write w 4 REE",
                                          "x-w2d s-take rf", "x-w2d s-take rc"],
    # quoted literal with inner leading / trailing blanks; blanks around the operand token do not count
    P("ks", "-", "name =   '\\sRED\\s'  ") + ["x-w2d s-write w 1 \\sRED\\s", "x-w2d s-write w 2 RED", "x-w2d s-write w 3 \\sRED", "x-w2d s-take rf"],
    # D32 exemplar: failing sample first in a two-sample datagram (DESIGN 7.1): 5 must be delivered
    P("ki", "10", "value <= %0") + ["hold DATA user to=P2", "write w 1 50", "write w 2 5", "x-w2d merge-held 2", "take rf", "take rc"],
    # the same two samples with the stock pair-wise coalesce fault
    P("ki", "10", "value <= %0") + ["coalesce-next 1 DATA user to=P2", "write w 1 50", "write w 2 5", "take rf", "take rc"],
    # control: separate datagrams
    P("ki", "10", "value <= %0") + ["write w 1 50", "write w 2 5", "take rf", "take rc"],
    # failing sample in the middle of a five-sample datagram, dispose inside the batch
    P("ki", "3", "id = %0") + ["hold DATA user to=P2", "write w 3 1", "write w 4 2", "write w 3 3", "dispose w 3", "write w 3 4",
                               "x-w2d merge-held 5", "take rf", "take rc"],
    # string member
    P("ks", "m", "name <= %0") + ["hold DATA user to=P2", "x-w2d s-write w 1 abc", "x-w2d s-write w 2 zz", "x-w2d s-write w 1 m",
                                  "x-w2d s-write w 3 %e", "x-w2d s-write w 3 ma", "x-w2d merge-held 3 2", "x-w2d s-take rf", "x-w2d s-take rc"],
    P("ks", ",", "name = %0") + ["x-w2d s-write w 1 a", "x-w2d s-write w 2 %e", "x-w2d s-take rf"],
    # D60 (repaired by fixes/D60.patch): invalid filters were accepted and killed the worker with the first sample; now BadParameter
    P("ki", "-", "value <= %0") + ["write w 1 5", "take rf", "probe P1"],
    P("ki", "abc", "value <= %0") + ["write w 1 5", "take rf", "probe P1"],
    P("kb", "05", "value = %0") + ["write w 1 0505", "take rf", "probe P1"],
    # D61 (repaired by fixes/D61.patch): the operand text was ignored and parameter 0 used: these two presented (5, 50) and (2)
    P("ki", "100,3", "value <= %1") + ["write w 1 5", "write w 2 50", "write w 3 3", "take rf", "take rc"],
    P("ki", "3", "value <= 10") + ["write w 1 5", "write w 2 2", "write w 3 11", "take rf", "take rc"],
    # operand forms: %2, quoted string literal, literal without any parameter, index beyond the list (rejected), no operand (rejected)
    P("ks", "zz,zz,m", "name <= %2") + ["hold DATA user to=P2", "x-w2d s-write w 1 abc", "x-w2d s-write w 2 z", "x-w2d s-write w 3 m",
                                          "x-w2d merge-held 3", "x-w2d s-take rf", "x-w2d s-take rc"],
    P("ks", "zz", "name = 'ab'") + ["x-w2d s-write w 1 ab", "x-w2d s-write w 2 zz", "x-w2d s-take rf"],
    P("ki", "-", "id = 7") + ["write w 7 1", "write w 8 1", "take rf"],
    P("ki", "5,6", "value <= %2") + ["write w 1 5", "take rf", "take rc", "probe P2"],
    P("ki", "5", "value <= abc") + ["write w 1 5", "take rf", "take rc", "probe P2"],
    # unknown member: nothing is presented, nothing breaks
    P("ki", "5", "valu = %0") + ["write w 1 5", "take rf", "take rc", "probe P2"],
    # i32 rails
    P("ki", "-2147483648", "value <= %0") + ["hold DATA user to=P2", "write w 1 -2147483648", "write w 1 -2147483647", "write w 2 2147483647",
                                             "x-w2d merge-held 3", "take rf"],
    P("ki", "+2147483647", "id=%0") + ["write w 2147483647 1", "write w 2147483646 1", "write w -2147483648 1", "take rf"],
]


def nontrivial(case, out):
    sc = Scenario(case.lines)
    if sc.ty is None or sc.expr is None:
        return False
    f = FilterSpec(sc.ty, sc.expr, sc.params)
    if f.status != "ok":
        return False
    w = [e for e in sc.events if e[0] == "w"]
    p = sum(1 for e in w if f.sat(sc.ty, e[1], e[2]))
    return 0 < p < len(w) and any(len(g) >= 2 for g in sc.groups)


def oracle(case, out):
    sc = Scenario(case.lines)
    if sc.ty is None or sc.expr is None:
        return []
    spec = FilterSpec(sc.ty, sc.expr, sc.params)
    cv = code_view(sc.ty, sc.expr, sc.params)
    operand_is_p0 = spec.status == "ok" and spec.rhs_index == 0
    viol = []
    bad = next((k for k, o in enumerate(out) if o in BAD or o.startswith("CRASH")), None)
    if bad is not None:
        v = {"what": f"op {bad} `{case.lines[bad]}` answered {out[bad]}: filter `{sc.expr}` with parameters {sc.params} on type {sc.ty} "
                     f"({'valid filter' if spec.status == 'ok' else 'invalid filter: ' + spec.why})", "at": bad}
        if spec.status == "invalid" and spec.why in ("parameter index out of range", "operand is not an INT32",
                                                     "member type not supported by the filter"):
            v["cause"] = "invalid-filter-accepted-then-panics"
        elif spec.status == "ok" and not operand_is_p0 and cv is None:
            v["cause"] = "filter-operand-ignored-parameter-0-used"
        return [v]
    kcft = next(k for k, l in enumerate(case.lines) if l.startswith("cft ") or l.startswith("x-w2d s-cft "))
    rejected = out[kcft] == "err:BadParameter"
    if not rejected and out[kcft] != "ok":
        return [{"what": f"create_contentfilteredtopic answered {out[kcft]}", "at": kcft}]
    # bad-op is only expected where the scenario refers to the filtered topic that was not created
    for k, (l, o) in enumerate(zip(case.lines, out)):
        if o == "bad-op" and not (rejected and (" rf" in l or l.endswith(" f") or " f " in l)):
            return [{"what": "scenario not accepted by the interpreter (generator bug)", "at": k}]
    if rejected:
        if spec.status == "ok":
            v = {"what": f"valid filter `{sc.expr}` with parameters {sc.params} on type {sc.ty} rejected with BadParameter", "at": kcft}
            if not operand_is_p0 and cv is None:
                v["cause"] = "filter-operand-ignored-parameter-0-used"     # a literal / %n operand, but parameter 0 is what the code wants
            viol.append(v)
    elif spec.status == "invalid":
        v = {"what": f"invalid filter `{sc.expr}` with parameters {sc.params} on type {sc.ty} ({spec.why}) accepted by create_contentfilteredtopic", "at": kcft}
        if cv is not None:
            v["cause"] = "filter-operand-ignored-parameter-0-used"         # valid when the operand is replaced by parameter 0
        else:
            v["cause"] = "invalid-filter-accepted-then-panics"
        viol.append(v)
    delivered = set(e for g in sc.groups for e in g)
    got = {"rf": [], "rc": []}
    for r in ("rf", "rc"):
        if r == "rf" and rejected:
            continue
        for k in sc.takes[r]:
            d = taken_data(out[k]) if k < len(out) else None
            if d is None:
                return viol + [{"what": f"take did not answer: {out[k] if k < len(out) else None}", "at": k}]
            got[r] += d
    written = [(e, ev) for e, ev in enumerate(sc.events) if ev[0] == "w"]
    all_shown = [show(sc.ty, ev[1], ev[2]) for e, ev in written]
    if sc.takes["rc"] and got["rc"] != all_shown:
        viol.append({"what": f"control reader on the plain topic presented {got['rc']}, written {all_shown}"})
    if rejected or spec.status != "ok" or not sc.takes["rf"] or sc.takes["rf"][-1] < max([ev[3] for ev in sc.events] + [0]):
        return viol
    expected = [show(sc.ty, ev[1], ev[2]) for e, ev in written if e in delivered and spec.sat(sc.ty, ev[1], ev[2])]
    if got["rf"] != expected:
        v = {"what": f"filter `{sc.expr}` params {sc.params}: reader on the filtered "
                     f"topic presented {got['rf']}, the filter selects {expected} of {all_shown} (datagram grouping {[len(g) for g in sc.groups]})"}
        if cv is not None and not operand_is_p0 and got["rf"] == [show(sc.ty, ev[1], ev[2]) for e, ev in written if e in delivered and cv.sat(sc.ty, ev[1], ev[2])]:
            v["cause"] = "filter-operand-ignored-parameter-0-used"
        elif got["rf"] == asis_d32(sc, spec):
            v["cause"] = "batch-discarded-after-filter-mismatch"
        viol.append(v)
    return viol


def run(ctx):
    r = ctx.rng
    n = 400 if ctx.tier == "quick" else 4000
    cases = [Case(list(c)) for c in CORPUS]
    for k in range(n):
        force = "invalid" if k % 20 == 7 else ("rhs" if k % 20 in (3, 13, 17) else None)
        cases.append(gen_case(r, force=force))
    for c in cases:
        sc = Scenario(c.lines)
        f = FilterSpec(sc.ty, sc.expr, sc.params)
        ctx.count("type:" + sc.ty)
        ctx.count("filter:" + (f.status if f.status == "ok" else "invalid:" + f.why))
        if f.status == "ok":
            ctx.count(f"op:{f.op}:{f.kind}")
        for g in sc.groups:
            ctx.count("batch-size:%d" % min(len(g), 5))
        ctx.count("disposes", sum(1 for e in sc.events if e[0] == "d"))
    ctx.differential(ENGINE, cases, nontrivial=nontrivial, oracle=oracle, shrink=True,
                     env=dsim_env(jobs=16, case_timeout_ms=120000))


TECHNIQUE = ("Lean 4 theorems over all filters / batches / datagram groupings of the model of the filter evaluation and batch loop + "
             "differential correspondence with the real stack in the deterministic simulator (real writer, real datagrams re-grouped)")
LEVEL_TEXT = ("Kernel-checked Lean theorems about the transcription of create_contentfilteredtopic's validation, of the operand resolution "
              "(fixes/D61.patch: %n / quoted string / integer literal), of the filter evaluation and of the per-datagram loop of "
              "process_user_defined_received_cache_changes: EVERY filter the validation accepts judges every sample of the related type "
              "without panic or structural failure (C26_validated_total), so for every accepted filter, every list of changes and EVERY "
              "grouping of them into datagrams the loop hands exactly the satisfying samples (and all not-alive changes) to the reader "
              "history, in order (C26_exact_validated, C26_exact), independent of the grouping (C26_grouping_independent); the code's "
              "verdict equals the DDS meaning `member op value` for EVERY operand form the code resolves (C26_eval_spec_int / _str, "
              "C26_exact_int / _str), and C26_operand_param / _quoted / _literal say which text denotes which value (a parameter index "
              "beyond the list denotes nothing and the filter is rejected); with an unlimited KEEP_ALL history every delivered sample is "
              "stored in arrival order (C26_presented). Regression witnesses keep the three repaired defects: the loop as first found "
              "(D32: C26_asis_batch_counterexample, C26_asis_prefix_partial), creation without validation (D60: "
              "C26_invalid_filter_panics_counterexample), the ignored operand (D61: C26_operand_ignored_counterexample on evalOld). The model "
              "is tied to the real code by dsim scenarios in which the real writer's datagrams are merged pair-wise or re-grouped arbitrarily "
              "and every answer (creation result, samples taken from the filtered reader and from a control reader) is compared line by line "
              "with the model; a Python statement of the filter semantics checks the implementation output alone.")
LEVEL_NOTE = ("Trusted: Lean kernel; Model/CFilter.lean (validation + evaluation + loop) and Model/ReaderHist.lean (reader history, already used by C18-C25); "
              "the dsim simulator and its `x-w2d` extension (merge-held, KeyedStr ops); harness/src/dsimwrap.rs (replaces entity handles by "
              "`*` / `@name`); the Python oracle. The delivered model assumes main + fixes/D61.patch; on main without it every operand other than %0 is "
              "evaluated against parameter 0 (oracle `filter-operand-ignored-parameter-0-used`, correspondence fails). Operators "
              "other than = and <=, nested members, non-ASCII strings, set_expression_parameters (todo!() in the code) are not covered.")
DESIGN_REF = "DESIGN.md section 5 C26, section 7 D32"
