"""C33: each status change reaches exactly one listener, the most specific enabled one (entity, then
publisher/subscriber, then participant); new data is data-on-readers on the subscriber when enabled there,
data-available otherwise."""
from vlib.listen_common import *

BINS = ["dsim", "listen"]
RULE = ("dsim scenarios (real code, public async API, recording listeners) from six event families (publication/subscription "
        "matched, offered/requested incompatible QoS, inconsistent topic, data available / data on readers, sample rejected, "
        "offered/requested deadline missed) x listener placement at the three levels of both sides (corpus: all 2^3 placements x "
        "every family; random: independent masks per level biased to the statuses of the family, listeners installed at creation, "
        "later by set_listener, or nil listener with a mask; listeners REPLACED or REMOVED by set_listener after creation, on any of the "
        "six non-topic levels, before the status is raised; a family with several new-data changes in one processing pass (two DATA "
        "datagrams coalesced into one RTPS message); one or two participants; optional second writer); a case is "
        "non-trivial when at least one `log` answer records a callback; distinct by op lines")
ASSUMPTIONS = ["single-threaded deterministic simulator: the order of callbacks of different listener tasks is a scheduling artefact, "
               "so `log` answers are compared as multisets (with exact multiplicities)",
               "deadline callbacks are compared as 'at least one' per receiver and log window (how many periods fall into a window is C30's "
               "subject); every other callback, incl. incompatible-QoS and inconsistent-topic, is compared with its exact count",
               "SampleLost, LivelinessLost and LivelinessChanged are never raised by the code (no ListenerMail variant) and "
               "are therefore not exercised; status fields of the callbacks (counts) belong to C16 / C19 / C30",
               "the listener configuration is not changed between a status change and the `log` that records it",
               "the model is main + fixes/D38.patch, D-listen-1.patch, D-listen-2.patch, D-listen-3.patch"]


def run(ctx):
    r = ctx.rng
    n = 200 if ctx.tier == "quick" else 4000
    cases = corpus() + [gen_case(r) for _ in range(n)]
    for c in cases:
        ctx.count("place%d" % (c.meta.get("place", 0) & 7))
    run_differential(ctx, cases)


LEVEL_TEXT = ("Kernel-checked Lean theorem over ALL listener configurations (arbitrary masks and installed-or-nil listeners at the three "
              "levels) and all nine status-raising events of the code: the callbacks made for one status change are exactly those the DDS "
              "rule names — the first level whose mask enables the status, nobody otherwise, DATA_ON_READERS on the subscriber before the "
              "DATA_AVAILABLE chain (C33_dispatch, full), hence at most one callback per change (C33_at_most_one) and never a wrong receiver "
              "(C33_never_wrong_listener); a worker iteration without a new status change is silent and an endpoint already known as "
              "incompatible / inconsistent is not notified again (C33_iteration_without_change_is_silent, C33_known_endpoint_not_renotified). "
              "Four defects found by this check were repaired (D38 DATA_AVAILABLE never reached subscriber / participant listeners; "
              "D-listen-1 incompatible-QoS callbacks repeated on every worker iteration; D-listen-2 inconsistent-topic count growing on every "
              "iteration (now: once per inconsistent remote type, reported when topic discovery resolves it; endpoints add nothing); D-listen-3 the topic "
              "listener never called); their old behaviour is kept "
              "as Lean regression witnesses on the `…Old` model functions and as corpus scenarios. The model is tied to the code by a differential "
              "run of dsim scenarios (all 2^3 placements x every event family, plus random masks), and an independent Python statement of "
              "the DDS rule checks every recorded callback, its multiplicity, and that observable changes did produce their callback.")
LEVEL_NOTE = ("Trusted: Lean kernel; Model/Listener.lean (transcription of the if/else-if chains and of the listener tasks, plus a small world "
              "that predicts which status changes the scenario family raises); the dsim simulator and its recording listeners; Python "
              "canonicaliser (handles -> names, log as multiset) and oracle. Assumes the four patches named above. Not covered: SampleLost / "
              "Liveliness* (never raised), the status-condition side of the same changes (C32), counts inside the status structures, "
              "re-notification when an already incompatible endpoint changes its QoS to another incompatible one.")
TECHNIQUE = "Lean 4 theorems over all mask placements (dispatch = first enabled level) + differential correspondence through the deterministic simulator"
DESIGN_REF = "DESIGN.md section 5 C33"
