"""C33: each status change reaches exactly one listener, the most specific enabled one (entity, then
publisher/subscriber, then participant); new data is data-on-readers on the subscriber when enabled there,
data-available otherwise."""
from vlib.listen_common import *

BINS = ["dsim", "listen"]
RULE = ("dsim scenarios (real code, public async API, recording listeners) from six event families (publication/subscription "
        "matched, offered/requested incompatible QoS, inconsistent topic, data available / data on readers, sample rejected, "
        "offered/requested deadline missed) x listener placement at the three levels of both sides (corpus: all 2^3 placements x "
        "every family; random: independent masks per level biased to the statuses of the family, listeners installed at creation, "
        "later by set_listener, or nil listener with a mask; one or two participants; optional second writer); a case is "
        "non-trivial when at least one `log` answer records a callback; distinct by op lines")
ASSUMPTIONS = ["single-threaded deterministic simulator: the order of callbacks of different listener tasks is a scheduling artefact, "
               "so `log` answers are compared as multisets",
               "deadline / incompatible-QoS / inconsistent-topic callbacks are compared as 'at least one' per receiver and log window: "
               "their multiplicity depends on the number of worker wake-ups (findings D35, D-listen-1, D-listen-2); the oracle checks it",
               "SampleLost, LivelinessLost and LivelinessChanged are never raised by the pinned code (no ListenerMail variant) and "
               "are therefore not exercised; status fields of the callbacks (counts) belong to C16 / C19 / C30",
               "the listener configuration is not changed between a status change and the `log` that records it"]


def run(ctx):
    r = ctx.rng
    n = 200 if ctx.tier == "quick" else 4000
    cases = corpus() + [gen_case(r) for _ in range(n)]
    for c in cases:
        ctx.count("place%d" % (c.meta.get("place", 0) & 7))
    run_differential(ctx, cases)


LEVEL_TEXT = ("Kernel-checked Lean theorems over ALL listener configurations (arbitrary masks and installed-or-nil listeners at the three "
              "levels) and all nine status-raising events of the code: the mail of every chained status goes to the first level whose mask "
              "enables it, to nobody otherwise (C33_dispatch_decision); at most one callback per status change (C33_at_most_one) and never "
              "a wrong receiver or callback (C33_never_wrong_listener) hold without exception; the exact receiver is proved for every "
              "configuration except two open findings (C33_dispatch_partial): DATA_AVAILABLE enabled only on the subscriber or participant "
              "is never delivered (D38) and a topic's own listener is never called (D-listen-3), each with a Lean counter-example replayed on "
              "the real code; C33_data_dispatch_repaired shows the two missing branches would close D38. The model is tied to the code by "
              "a differential run of dsim scenarios (all 2^3 placements x every event family, plus random masks), and an independent Python "
              "statement of the DDS rule checks every recorded callback. Two further findings are about repetition in time: incompatible-QoS "
              "and inconsistent-topic notifications are repeated on every worker iteration (D-listen-1, D-listen-2).")
LEVEL_NOTE = ("Trusted: Lean kernel; Model/Listener.lean (transcription of the if/else-if chains and of the listener tasks, plus a small world "
              "that predicts which status changes the scenario family raises); the dsim simulator and its recording listeners; Python "
              "canonicaliser (handles -> names, log as multiset) and oracle. Not covered: SampleLost / Liveliness* (never raised), the "
              "status-condition side of the same changes (C32), counts inside the status structures.")
TECHNIQUE = "Lean 4 theorems over all mask placements (dispatch = first enabled level) + differential correspondence through the deterministic simulator"
DESIGN_REF = "DESIGN.md section 5 C33"
