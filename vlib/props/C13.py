"""C13: discovery data (participant, publication, subscription, topic) round-trips through its parameter-list
encoding; unknown / vendor-specific parameters in received announcements are ignored."""
from vlib.plist_common import *
from vlib.core import run_cases

RULE = ("records of the four discovery kinds with every QoS policy at and around its default and at range boundaries, locator lists "
        "of length 0-4, partitions of 0-4 names, names incl. multi-byte UTF-8 and up to 5000 octets, optional type information, "
        "user/topic/group data of sizes {0,1,2,3,4,5,7,8,9,15,16,17,100,255,256,1000,4096, 65519..65528, 65529..65540, 70000, 131072}; "
        "each record is encoded by the implementation (bytes compared with the model and re-read by an independent PL_CDR parser), "
        "decoded again (compared field by field with the input) and decoded once more after 1-5 unknown / vendor-specific / "
        "must-understand / PAD parameters were inserted at random positions; plus malformed lists (structure-aware mutations, "
        "truncations, random bytes) for the correspondence of the decoder. A case is non-trivial when the record emits at least one "
        "parameter that is not always present (a value differs from its default); distinct by canonical op line")
ASSUMPTIONS = [
    "durations are compared as the (sec, nanosec) pair that is on the wire; DurationKind::Infinite is the pair (0x7fffffff, 0xffffffff), "
    "so a Finite duration with exactly that pair (not constructible through Duration::new, which normalises nanosec < 10^9) is not distinguished",
    "the value of PID_TYPE_INFORMATION is an opaque byte string for the model; its XCDR2 decoding belongs to the XCDR engine (C09/C07_xcdr). "
    "Type information blobs in generated records come from the real serializer (harness op `timk`)",
    "guid_prefix / remote_writer_guid / remote_reader_guid are not transmitted: from_bytes derives them from the key, and the generator "
    "gives them the value the library itself would (prefix of the key)",
    "strings are valid UTF-8 (a Rust String cannot hold anything else)",
]
CORPUS = [
    ("participant", {"key": "080808080808080808080808000001c1", "ud": "6135", "did": "0", "tag": "6162", "pv": "0204", "vid": "494a", "eiq": "1",
                     "mul": "11:12:01010101010101010101010101010101,21:22:02020202020202020202020202020202",
                     "mml": "11:12:01010101010101010101010101010101", "dul": "11:12:01010101010101010101010101010101",
                     "dml": "11:12:01010101010101010101010101010101", "bes": "2", "mlc": "2", "beq": "536870912", "lease": "10:11"}),
    ("participant", {"key": "080808080808080808080808000001c1", "vid": "494a", "bes": "2"}),
    ("publication", {"key": "01000000020000000300000004000000", "pkey": "06000000070000000800000009000000", "tn": "6162", "ty": "6364", "geid": "151617c9"}),
    ("subscription", {"key": "01000000020000000300000004000000", "pkey": "06000000070000000800000009000000", "tn": "6162", "ty": "6364"}),
    ("topic", {"key": "01000000020000000300000004000000", "tn": "6162", "ty": "6364", "hist": "1,-1", "rl": "10,2147483647,0"}),
    # D17: 65536 octets of user data: the u16 length field of the parameter wraps
    ("publication", {"key": "01" * 16, "tn": "6162", "ty": "6364", "ud": "ab" * 65536}),
    ("participant", {"key": "02" * 16, "ud": "cd" * 65529}),
]


def enc_line(kind, rec):
    return f"enc {kind} " + fmt_rec(kind, rec)


def nontrivial(case, out):
    kind, rec = case.meta["kind"], case.meta["rec"]
    n = norm_record(kind, rec)
    return any(f["emit"] in ("omit", "some", "each") and n[f["name"]] != f["dflt"] for f in FIELDS[kind] if f["emit"] != "derived")


def oracle_enc(case, out):
    """what into_bytes emits must be a conforming parameter list from which an independent parser reads the record back"""
    kind, rec = case.meta["kind"], case.meta["rec"]
    o = out[0] if out else ""
    big = is_big(kind, rec)
    cause = "parameter-length-u16-truncation" if big else None
    if not o or any(c not in "0123456789abcdef" for c in o):
        return [{"what": f"into_bytes of a {kind} record did not produce bytes: {o[:60]}", "op": case.lines[0][:400]}]
    try:
        back = py_decode(kind, bytes.fromhex(o))
    except Exception as ex:
        v = {"what": f"the bytes of a {kind} record are not a well-formed parameter list ({ex})", "op": case.lines[0][:400]}
        if cause:
            v["cause"] = cause
        return [v]
    want = norm_record(kind, rec)
    bad = [k for k in want if back.get(k) != want[k]]
    if bad:
        v = {"what": f"an independent PL_CDR parser reads other values back for {bad[:4]} of a {kind} record",
             "op": case.lines[0][:400], "field": bad[0], "want": want[bad[0]][:80], "got": str(back.get(bad[0]))[:80]}
        if cause:
            v["cause"] = cause
        return [v]
    return []


def oracle_dec(case, out):
    """decode(encode d) == d field by field; inserting unknown parameters does not change the decoded record"""
    kind, rec = case.meta["kind"], case.meta["rec"]
    big = is_big(kind, rec)
    viol = []
    got = parse_ok(out[0]) if out else None
    want = norm_record(kind, rec)
    if got is None:
        v = {"what": f"the implementation cannot decode its own {kind} announcement: {out[0][:60] if out else ''}", "op": case.lines[0][:300]}
        if big:
            v["cause"] = "parameter-length-u16-truncation"
        return [v]
    bad = [k for k in want if got.get(k) != want[k]] + [k for k in got if k not in want]
    if bad:
        v = {"what": f"decode(encode(d)) differs from d in {bad[:4]} ({kind})", "op": case.lines[0][:300], "field": bad[0],
             "want": str(want.get(bad[0]))[:80], "got": str(got.get(bad[0]))[:80]}
        if big:
            v["cause"] = "parameter-length-u16-truncation"
        viol.append(v)
    variants = case.meta.get("variants", [])
    for j in range(1, len(case.lines)):
        if out[j] != out[0]:
            g2 = parse_ok(out[j])
            diff = [k for k in got if g2 is None or g2.get(k) != got[k]][:4]
            how = ("a parameter placed after the sentinel of" if j < len(variants) and variants[j] == "after-sentinel"
                   else "unknown parameters inserted into")
            viol.append({"what": f"{how} a {kind} announcement changed the decoded record ({out[j][:40] if g2 is None else diff})",
                         "op": case.lines[j][:400], "without": case.lines[0][:400]})
    return viol


def oracle_be(case, out):
    """a well-formed big-endian announcement must decode to the announced data"""
    kind, rec = case.meta["kind"], case.meta["rec"]
    got = parse_ok(out[0]) if out else None
    want = norm_record(kind, rec)
    if got is None:
        # (finding D-plist-1, cause `big-endian-header-read-as-lease-duration`, is repaired by fixes/D-plist-1.patch:
        #  the old failure pattern is a plain violation now)
        return [{"what": f"a well-formed big-endian {kind} announcement is rejected: {out[0][:60] if out else ''}", "op": case.lines[0][:400]}]
    bad = [k for k in want if got.get(k) != want[k]]
    if bad:
        return [{"what": f"a big-endian {kind} announcement decodes to other values in {bad[:4]}", "op": case.lines[0][:400],
                 "field": bad[0], "want": str(want[bad[0]])[:80], "got": str(got.get(bad[0]))[:80]}]
    return []


def impl_only(ctx, cases, oracle):
    outs, _ = run_cases([harness_bin(ENGINE)], cases)
    for c, o in zip(cases, outs):
        ctx.stats["evaluations"] += 1
        for v in oracle(c, o) or []:
            v.setdefault("ops", c.lines)
            ctx.violations.append(v)


def oracle_no_crash(case, out):
    return [{"what": f"decoder answered {o}", "op": l[:400]} for l, o in zip(case.lines, out)
            if not (o.startswith("ok ") or o.startswith("err:") or o in ("PANIC", "ALLOC-LIMIT"))]


def run(ctx):
    r = ctx.rng
    quick = ctx.tier == "quick"
    fix = probe_fixes()
    ctx.count(fix)
    tis = make_tis(r, 4 if quick else 12)
    ctx.count("type-information-blobs", len(tis))
    recs = [(k, dict(rec)) for k, rec in CORPUS]
    n = 100 if quick else 3000
    for i in range(n):
        for kind in KINDS:
            recs.append((kind, gen_record(r, kind, tis)))
    for i in range(2 if quick else 25):
        for kind in KINDS:
            recs.append((kind, gen_record(r, kind, tis, density=25, big="ok")))
            recs.append((kind, gen_record(r, kind, tis, density=25, big="bad")))
    # pass 1: encode
    enc_cases = [Case([enc_line(k, rec)], {"kind": k, "rec": rec}) for k, rec in recs]
    for c in enc_cases:
        ctx.count("enc-" + c.meta["kind"])
        if is_big(c.meta["kind"], c.meta["rec"]):
            ctx.count("record-with-parameter-over-65535")
    outs = ctx.differential(ENGINE, enc_cases, nontrivial=nontrivial, oracle=oracle_enc, shrink=False)
    # pass 2: decode what was encoded, then again with unknown parameters inserted
    dec_cases = []
    for c, o in zip(enc_cases, outs):
        h = o[0] if o else ""
        if not h or any(ch not in "0123456789abcdef" for ch in h):
            continue
        kind = c.meta["kind"]
        lines = [f"dec {kind} {h} {fix}"]
        variants = ["base"]
        data = bytes.fromhex(h)
        try:
            walk_spec(data)
            for _ in range(2 if len(data) < 5000 else 1):
                lines.append(f"dec {kind} {inject(r, kind, data).hex()} {fix}")
                variants.append("unknown-inserted")
                ctx.count("injected")
            # a parameter the record does read, but placed after the sentinel: the list ended before it
            extra = r.choice([f for f in FIELDS[kind] if f["emit"] in ("each", "omit") and f["codec"] != "ti"])
            m = members(extra["shape"], gen_field(r, kind, extra, []))
            val = enc_value(extra["codec"], m[0] if extra["emit"] == "each" and m else (m if extra["emit"] != "each" else [1, 7400, bytes(16)]))
            lines.append(f"dec {kind} {(data + param(extra['pid'], val)).hex()} {fix}")
            variants.append("after-sentinel")
            ctx.count("after-sentinel")
        except DecodeError:
            ctx.count("not-injectable(length-field-wrapped)")
        dec_cases.append(Case(lines, dict(c.meta, variants=variants)))
    ctx.differential(ENGINE, dec_cases, nontrivial=nontrivial, oracle=oracle_dec, shrink=False)
    # pass 2b: the same announcements as a big-endian sender would write them (RTPS lets every sender choose)
    be_cases = []
    for k, rec in recs[: (100 if quick else 2000)]:
        if is_big(k, rec):
            continue
        rec2 = {a: b for a, b in rec.items() if a != "ti"}     # the blobs at hand are little-endian XCDR2
        be_cases.append(Case([f"dec {k} {py_encode(k, rec2, be=True).hex()} {fix}"], {"kind": k, "rec": rec2}))
        ctx.count("big-endian-" + k)
    ctx.differential(ENGINE, be_cases, nontrivial=nontrivial, oracle=oracle_be, shrink=False)
    # pass 3: the decoder on malformed lists: correspondence only (the totality oracle is the C07 check)
    mal = set_fix_token(c07_cases(r, ctx.tier), fix)
    diffable = [c for c in mal if not has_foreign_type_information(c.lines[0], tis)]
    foreign = [c for c in mal if has_foreign_type_information(c.lines[0], tis)]
    for c in mal:
        ctx.count("malformed-" + c.meta.get("class", "?"))
    ctx.count("malformed-not-diffed(foreign type information)", len(foreign))
    ctx.differential(ENGINE, diffable, nontrivial=c07_nontrivial, oracle=oracle_no_crash, shrink=False)
    if foreign:
        impl_only(ctx, foreign, oracle_no_crash)


LEAN_MODULES = ["DustVerif.Props.C13"]
LEVEL_TEXT = ("Kernel-checked Lean theorems over a generic parameter-list codec: for EVERY byte order, EVERY schema whose decode rows are "
              "consistent with its encode rows (same pid, same value codec, same default; pairwise distinct pids) and every record whose values "
              "are in the value domain of their codecs and whose parameters are shorter than 2^16 octets, from_bytes(announcement of d) = d up "
              "to the documented normalisation (C13_roundtrip); the four real schemas (transcribed tables) satisfy the side condition in both "
              "byte orders by `decide` (C13_roundtrip_real); inserting any parameter with a pid outside the schema anywhere before the sentinel "
              "never changes the decoded record, for arbitrary (not only self-produced) well-delimited lists (C13_unknown_ignored), and nothing "
              "after the sentinel matters (C13_after_sentinel_ignored). A 65 536-octet user_data wraps the u16 length field and the record does "
              "not come back (C13_big_octets_counterexample, finding D17, open). The repaired finding D-plist-1 (the iterator read the "
              "encapsulation header as a parameter, so every big-endian participant announcement was rejected) is kept as a regression witness "
              "on the earlier decoder (C13_big_endian_participant_counterexample / _fixed). The model is tied to the code by a differential run "
              "on bytes and on decoded records through cfg-guarded mirror structs, and oracles look at the implementation alone (independent "
              "PL_CDR parser on the emitted bytes, field-by-field round trip, unknown-parameter insertion, parameters after the sentinel, "
              "big-endian announcements).")
LEVEL_NOTE = ("Trusted: Lean kernel; Model/Plist.lean (transcription of PidIterator, CdrSerialize/CdrDeserialize, the XCDR1 paths the QoS structs "
              "take, the four schema tables); cfg(dust_dds_verif) mirror structs in verif_hooks.rs; Python reference PL_CDR codec and oracles. "
              "Type information is opaque. The delivered model is repository main + fixes/D-plist-1.patch; the check probes the tree under test "
              "(exemplars of D11, D13, D-plist-1) and compares with the matching model variant, so on a tree without the patch the big-endian "
              "oracle reports the defect again as a plain violation.")
TECHNIQUE = "Lean 4 theorems over a schema-generic PL_CDR codec (round trip, unknown parameters ignored) + differential correspondence through cfg hooks"
DESIGN_REF = "DESIGN.md section 5 C13"
