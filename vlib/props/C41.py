"""C41: IDL compiler output matches the IDL declarations.

Random IDL ASTs are pretty-printed, compiled by the REAL compiler (`dust_dds_gen::compile_idl`, harness bin `idlc`), the
generated Rust is put into a generated crate and compiled against dust_dds; the crate prints the dynamic type description of
every generated type. The Lean model (`Model/Idl.lean` + `Model/Derive.lean`) predicts outcome and descriptions."""
import os
from vlib.core import Case, run_lines, model_bin
from vlib import gen_common as G
from vlib import gen_idl as I

ENGINE = "gen"
BINS = ["gen", "idlc"]
LEAN_MODULES = ["DustVerif.Props.C41"]
RULE = ("random IDL specifications (1-5 definitions, modules nested up to 2 deep: structs with @key/@id/@optional/@final/@appendable/"
        "@mutable and other annotations, several declarators per member, arrays, enums with @value, unions with integer discriminators, "
        "several labels and default, typedefs, constants, bounded/unbounded strings, wstrings and sequences, all 20 base type spellings, "
        "scoped names relative and absolute) + a hand-written corpus with the exemplar of every known finding and a malformed-IDL stream; "
        "plus (ORACLE ONLY, no Lean model of the preprocessor) a multi-file family: 2 corpus + 6 (quick) / 20 per round (thorough) specifications "
        "compiled from three files -- a guarded header with a #define, a second guarded header that includes it, a main file that includes both "
        "(in either order, or the first one twice) and uses the macro as array / sequence / string bound -- judged against their single-file AST; "
        "a case (one specification: outcome line + one line per declared type) is non-trivial when the compiler accepted it, the output "
        "compiled and at least one type description with a member was printed; distinct by op lines")
ASSUMPTIONS = [
    "supported subset as in Model/Idl.lean: no inheritance, interfaces, bitsets, bitmasks, maps, fixed, any, long double, non-integer "
    "union discriminators / labels, const expressions other than literals",
    "the expected structure is the IDL declaration read by IDL 4.2 / XTypes 1.3 rules (annotations apply to every declarator of a member; "
    "names are looked up through the enclosing scopes); dust_dds's default extensibility `final` is taken as the default",
    "generated identifiers avoid IDL and Rust keywords",
    "rustc, pest and the description walker of the generated crate are trusted",
]
N_QUICK, N_THOROUGH, ROUNDS_THOROUGH = 45, 120, 4
N_MF_QUICK, N_MF_THOROUGH = 6, 20

MALFORMED = [
    ("struct S { long a; }", "missing semicolon after definition"),
    ("struct S { long a };", "missing semicolon after member"),
    ("struct { long a; };", "missing identifier"),
    ("strukt S { long a; };", "misspelt keyword"),
    ("struct S { sequence<long a; };", "unbalanced template bracket"),
    ("module M { struct S { long a; }; ;", "unbalanced brace"),
    ("struct S { long long long a; };", "impossible type"),
    ("enum E { };", "empty enum"),
    ("union U switch (long) { };", "union without case"),
    ("union U switch (float) { case 1: long a; };", "float discriminator"),
    ("struct S { Unknown a; };", "unknown type"),
    ("struct S { M::Unknown a; };", "unknown scoped type"),
    ("struct S { long a; long a; };", "duplicate member"),
    ("struct S { long a; }; struct S { long b; };", "duplicate type"),
    ("struct S { @id(-1) long a; };", "negative id"),
    ("struct S { long a[0]; };", "zero array"),
    ("struct S { fixed<5,2> f; };", "fixed point (unsupported)"),
    ("struct S { long double d; };", "long double (unsupported)"),
    ("struct S { any a; };", "any (unsupported)"),
    ("struct S { map<long, long> m; };", "map (unsupported)"),
    ("bitmask B { A, B };", "bitmask (unsupported)"),
    ("bitset B { bitfield<3> a; };", "bitset (unsupported)"),
    ("", "empty file"),
    ("// only a comment\n", "comment only"),
    ("struct S { long a; }; \x00", "NUL byte"),
    ("#include \"missing.idl\"\nstruct S { long a; };", "missing include"),
    ("#define X\n#ifdef X\nstruct S { long a; };\n", "unterminated #ifdef"),
    ("const long K = ;", "const without value"),
    ("typedef long;", "typedef without declarator"),
    ("struct S { string<> s; };", "empty bound"),
    ("union U switch (long) { case 1: case 1: long a; };", "duplicate label"),
    ("struct S { long a; }; " * 2000, "very long input"),
    ("module " * 3000 + "X", "deep nesting"),
]
# malformed inputs for which an answer other than Err is a finding (syntax errors and unknown types): everything except these
MALFORMED_SEMANTIC = {"unknown type", "unknown scoped type", "duplicate member", "duplicate type", "negative id", "zero array", "duplicate label",
                      "very long input", "empty bound"}


def model_lines(lines):
    rc, out, err = run_lines([model_bin(), "gen"], lines)
    if rc != 0 or len(out) != len(lines):
        raise RuntimeError(f"model driver failed: rc={rc} {err}")
    return out


def nontrivial(case, out):
    return bool(out) and out[0] == "ok" and any(o.startswith("T ") and "(m " in o for o in out[1:])


def oracle(case, out):
    viol = []
    specs = I.parse_idl_lines(case.lines)
    for line, o in zip(case.lines, out):
        tk = line.split(None, 3)
        spec = specs[int(tk[1])]
        if tk[0] == "idl":
            if o != "ok":
                feats = I.features(spec)
                d = {"what": f"a specification of the supported subset is not usable: compile_idl / rustc outcome {o}", "op": line[:400],
                     "idl": I.spec_idl(spec)[:600]}
                front = ("template-close-parsed-as-shift", "union-annotation-rejected", "typedef-array-panics")
                want = {"ERR": ["template-close-parsed-as-shift", "union-annotation-rejected"], "PANIC": ["typedef-array-panics"],
                        "RUSTC": [c for c in I.OUTCOME_CAUSE_ORDER if c not in front]}.get(o, [])
                hit = [c for c in want if c in feats]
                if hit:
                    d["cause"] = hit[0]
                viol.append(d)
        elif tk[0] == "ty":
            if not o.startswith("T "):
                continue        # no description: judged at the `idl` line
            j = int(tk[2])
            types = I.spec_types(spec)
            path, d, mods = types[j]
            name, rest = o[2:].split(" ", 1)
            got = G.parse_sexp(rest)[0]
            vs = []
            if name != "::".join(path):
                vs.append({"what": f"type {j} is {name}, declared {'::'.join(path)}"})
            I.check_decl(I.idl_scope(spec), mods, d, got, "::".join(path), vs, set())
            for v in vs:
                v["op"] = line[:400]
            viol.extend(vs)
    return viol


def malformed_stream(ctx):
    """the compiler alone: a malformed input must give Err(..), not a panic, a hang or generated code"""
    work = os.path.join(G.GENCRATES, f"idl_{ctx.seed}_malformed")
    for k, (text, what) in enumerate(MALFORMED):
        st, out = I.idlc(text, work, k)
        ctx.count("malformed:" + st)
        ctx.stats["evaluations"] += 1
        if st in ("PANIC", "CRASH", "HANG"):
            cause = "compiler-panics-on-unsupported-construct" if "unsupported" in what else "compiler-panics-on-malformed-input"
            ctx.violations.append({"what": f"malformed IDL ({what}): compile_idl answered {st} {out[:160]!r} instead of Err",
                                   "ops": [f"malformed {k} {text[:200]!r}"], "cause": cause})
        elif st == "ok" and what not in MALFORMED_SEMANTIC and what not in ("comment only",):
            ctx.violations.append({"what": f"malformed IDL ({what}) was accepted and produced code", "ops": [f"malformed {k} {text[:200]!r}"],
                                   "cause": "malformed-idl-accepted"})
        elif st == "ok" and what in ("unknown type", "unknown scoped type"):
            ctx.violations.append({"what": f"IDL with an {what} was accepted and produced code that names the unknown type",
                                   "ops": [f"malformed {k} {text[:200]!r}"], "cause": "unknown-type-not-diagnosed"})
        elif st == "ok":
            ctx.count("malformed-semantic-accepted:" + what.replace(" ", "-"))


def count_spec(ctx, spec):
    def go(defs, depth):
        for d in defs:
            ctx.count("def:" + d[0])
            if d[0] == "module":
                ctx.count(f"module-depth:{depth + 1}")
                go(d[2], depth + 1)
            elif d[0] == "struct":
                for anns, t, decls in d[3]:
                    ctx.count("member:" + t[0] + (":" + t[1] if t[0] == "base" else ""))
                    for a in anns:
                        ctx.count("mann:" + (a if isinstance(a, str) else a[0]))
    go(spec, 0)


def run(ctx):
    G.clean_gencrates("idl_")
    malformed_stream(ctx)
    rounds = 1 if ctx.tier == "quick" else ROUNDS_THOROUGH
    n = N_QUICK if ctx.tier == "quick" else N_THOROUGH
    for c in range(rounds):
        g = I.IdlGen(ctx.rng)
        specs = list(I.corpus()) if c == 0 else []
        while len(specs) < n:
            batch = [g.spec() for _ in range(n - len(specs))]
            ans = model_lines([f"idl {i} {I.spec_sx(s)}" for i, s in enumerate(batch)])
            for s, a in zip(batch, ans):
                if a == "bad-op":
                    ctx.count("dropped:model-says-outside-subset")
                else:
                    specs.append(s)
        specs = {i: s for i, s in enumerate(specs)}
        # multi-file family (preprocessor: include guards, #define shared across #include) -- oracle only, see gen_idl.MF_BASE
        mg = I.MfGen(ctx.rng)
        mfs = (list(I.mf_corpus()) if c == 0 else []) + [mg.spec() for _ in range(N_MF_QUICK if ctx.tier == "quick" else N_MF_THOROUGH)]
        for j, s in enumerate(mfs):
            specs[I.MF_BASE + j] = s
            ctx.count("multi-file-spec")
        for s in specs.values():
            count_spec(ctx, s)
        pred = model_lines([f"idl {i} {I.spec_sx(s)}" for i, s in sorted(specs.items())])
        predicted = {i: p for (i, _), p in zip(sorted(specs.items()), pred)}
        entries, d, out, secs, main_ok = I.build_idl_crate(f"idl_{ctx.seed}_{c}", specs, predicted, ctx.log)
        ctx.count("crate_build_s", int(secs))
        for e in entries:
            ctx.count("outcome:" + e["status"])
        if not main_ok:
            errs = "\n".join(l for l in out.splitlines() if l.startswith("error"))[:3000]
            ctx.disagreements.append({"what": "the crate with the generated Rust of all specifications the model expects to compile does not "
                                              "compile (the model accepts what rustc rejects, or the generator is wrong)", "crate": d, "detail": errs})
            return
        cases = [Case(I.idl_case_lines(i, s)) for i, s in sorted(specs.items())]
        for e in entries:
            for w in e.get("mf_viol", []):
                ctx.violations.append({"what": f"multi-file specification {e['i']}: {w}", "ops": I.idl_case_lines(e["i"], specs[e["i"]]),
                                       "files": e["mf_files"]})
        ctx.differential("gen_idl", cases, nontrivial=nontrivial, oracle=oracle, model_engine="gen", shrink=False)


LEVEL_TEXT = ("Kernel-checked Lean theorems over ALL IDL specifications of the modelled subset: C41_structure_modules / C41_structure_names / "
              "C41_structure_partial (every struct at any module depth is generated once, one field per declarator, in order, with the declared "
              "name and the image of the declared type), C41_type_mapping_partial, C41_annotations (key / id / optional reach the derive macro for "
              "EVERY declarator of EVERY member) and C41_struct_header (qualified name and extensibility, both spellings) — both full since the "
              "repairs D-gen-14/15/16 —, C41_describe_names / C41_describe_flags (composition with C40), C41_bit_bound_partial, C41_constant_partial. "
              "Four defects found by this check were repaired and committed (D-gen-14, 15, 16 and D-gen-4 = D-gen-19); their old behaviour is kept as "
              "Lean regression witnesses on ...Old model functions and as corpus cases. Still FALSE for the code as it is (known findings): "
              "@bit_bound spelling and TRUE / FALSE constants (D-gen-24, D-gen-28: repairs exist, but change what two baseline tests assert), "
              "bounds dropped, multi-dimensional arrays, wide types, octet, union member names, union annotations rejected, typedef arrays panic, "
              "optional constructed members, nested sequences, scoped names, `>>`, panics on unsupported constructs, unknown types.")
LEVEL_NOTE = ("ORACLE-ONLY PART: dds_gen/src/preprocessor (#include, include guards, #define substitution) has no Lean model; it is exercised by the "
              "multi-file family, whose generated types are compared with the Lean prediction and the declared structure of the equivalent "
              "single-file specification, and checked for 'every header type generated exactly once' and 'macro substituted'. "
              "Trusted: Lean kernel; Model/Idl.lean (transcription of generator/rust.rs, the accept/reject behaviour of the grammar for the "
              "AST, rustc path resolution for the generated paths, the derive's first-attribute rule) and Model/Derive.lean; the IDL "
              "pretty printer; rustc; pest; Python oracle (IDL scoping and annotation rules). The pest grammar and the preprocessor are "
              "validated by correspondence and the malformed-input stream only.")
TECHNIQUE = "Lean 4 theorems over the IDL AST + differential correspondence: real compiler -> generated crate compiled against dust_dds -> type descriptions"
DESIGN_REF = "DESIGN.md section 5 C41"
TRUSTED_EXTRA = ["generated crate around the real compiler's output (vlib/gen_idl.py), compiled by rustc against the repo checkout"]
