"""C30: for a writer (reader) with a finite deadline, the offered (requested) deadline-missed total_count of an instance grows by
exactly one for each full period that elapses without a new sample, each increase is signalled once, and no miss is reported
while samples keep arriving within the period."""
from vlib.deadline_common import *

BINS = ["dsim", "deadline"]
LEAN_MODULES = ["DustVerif.Props.C30", "DustVerif.Props.C24Deadline"]
RULE = ("dsim scenarios (real code, virtual clock, recording listeners on writer and reader) with offered and requested deadlines over "
        "1-3 instances, periods 20 ms .. 1 s (incl. the 50 ms poke period +-1 ns), samples inside / exactly at / just after the period, "
        "silent windows of 0 .. 3.5 periods, time-based filters, the late-timer directive (at most one period late), plus the C24 family "
        "(exclusive reader, two writers, several instances expiring in one worker pass); a case is non-trivial when at least one "
        "deadline-missed callback is recorded; distinct by op lines")
ASSUMPTIONS = ["worker wake-ups are at most one period apart (the worker sleeps at most 50 ms and wakes exactly when a deadline is due: C31); "
               "a duty more than one period overdue is caught up one period per wake-up (covered by the theorem's tick sequence, exercised "
               "in C31's lone-writer scenarios)",
               "the deadline clock of a reader instance is the reception time of its last sample, that of a writer instance the largest "
               "source timestamp written; the comparison is strict (`now - stamp > period`), so a miss is counted 1 ns after the period ends",
               "all entities are created at virtual time 0; participant_announcement_interval = 1000 s",
               "Time/Duration arithmetic is exact in the i32-second range (C14)"]


def oracle(case, out):
    if case.meta.get("fam") == "c24":
        return c24_deadline_oracle(case, out)
    return c30_oracle(case, out)


def nontrivial(case, cout):
    return c30_nontrivial(case, cout)


def run(ctx):
    r = ctx.rng
    n = 150 if ctx.tier == "quick" else 3000
    cases = c30_corpus() + [c30_case(r) for _ in range(n)] + c24_deadline_cases(r, ctx.tier)
    run_differential(ctx, ENGINE, cases, oracle, nontrivial, count=c30_count)


LEVEL_TEXT = ("Kernel-checked Lean theorems about the deadline checks as coded (reader side with fixes/D35.patch): for an instance whose last "
              "sample arrived at s and ANY sequence of worker wake-ups at most one period apart ending at T, the total count n satisfies "
              "s + n*p < T <= s + (n+1)*p, i.e. it is exactly the number of whole periods elapsed (C30_count); a check adds at most one "
              "(C30_step_at_most_one); for ALL interleavings of samples and checks nothing is counted while every check comes within one period "
              "of the latest sample (C30_no_miss_while_fresh); the coded reader and writer checks step every instance of every list by this "
              "automaton and emit exactly one notification per increment (C30_reader_instances_tick, C30_one_notification_per_increment_*, "
              "C30_notified_iff_expired). The pinned reader check never re-arms and counts again on every wake-up "
              "(C30_reader_asis_counterexample, D35, replayed: 31 misses in 2.5 s with a 1 s period). The model is tied to the real code by "
              "comparing every deadline callback (time, total count, instance) and the writer's status over simulated scenarios, and an "
              "independent Python count of elapsed periods checks the implementation output. Also here: the C24 deadline clause "
              "(C24_handover_on_deadline_miss: every expired instance loses its ownership entry, all others keep theirs).")
LEVEL_NOTE = ("Trusted: Lean kernel; Model/Deadline.lean (integer-nanosecond transcription of the two checks, the stamps a received sample "
              "refreshes, the ownership filter) and the worker world of Model/Worker.lean; the dsim simulator; Python canonicaliser and oracle. "
              "Assumes fixes D35 and D36 applied; on the pinned tree the oracle reports D35 (reader-deadline-recounted-every-wakeup). "
              "The reader's status getter is todo!() at the pinned commit, so reader counts are observed through the listener only; "
              "status-condition triggering belongs to C32.")
TECHNIQUE = "Lean 4 theorems (invariant over all wake-up sequences; all sample/check interleavings; all instance lists) + differential correspondence through the deterministic simulator"
DESIGN_REF = "DESIGN.md section 5 C30"
