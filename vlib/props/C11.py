"""C11: two samples of a keyed type get the same instance handle exactly when their key members are equal; the handle
the writer assigns equals the handle the reader derives (with and without the inline key hash)."""
import os
import sys
from vlib.core import Case
from vlib import xcdr_common as X

ENGINE = "xcdr"
BINS = ["xcdr", "dsim", "handle"]
LEAN_MODULES = ["DustVerif.Props.C11", "DustVerif.Props.C11E2E"]
RULE = ("three op lines per case on the real `get_instance_handle_from_dynamic_data` (hook re-export): `kh <type> <v1>`, "
        "`kh <type> <v2>`, `khrt <ver> <endianness> <type> <v1>`; random keyed structure types (1-4 key members: primitives, "
        "strings, enums, arrays, sequences, whole structures; key members inside nested non-key structures; "
        "final / appendable / mutable) and value pairs where v2 = v1, or v1 with one non-key member changed, or v1 with one "
        "key member changed; FOLLOW-UP 3: one case in five has an OPTIONAL member of structure type whose structure carries key "
        "members of its own (top level or inside a non-optional nested structure; present and absent values), and in two "
        "thirds of those v2 = v1 with that optional structure removed / added / changed - it is not part of the key, the "
        "handle must not change and an absent one must not prevent the handle; FOLLOW-UP 5: one case in five has a KEY member of "
        "structure type whose structure carries key flags of its own, the first with the member id (and mostly the type) of "
        "an EARLIER outer key member, and in two thirds of those v2 differs from v1 only in that earlier outer key member - "
        "the handles must differ (a key member is copied whole, not flattened); a case is non-trivial when the type has a key member inside a nested structure or more than "
        "one key member; distinct by canonical op lines")
ASSUMPTIONS = [
    "MD5 collisions are not expected among the generated values (a collision would be reported as a violation)",
    "the inline-key-hash path of the reader copies the writer's handle (communication_methods.rs:218): checked in the "
    "model (C11_writer_reader_agree), not exercised over the wire by this check",
    "model = tree configuration detected from the sources (see C09)",
]
D73 = "key-holder-flattened-member-ids-collide"
WFK = {}


def lean_wf(kind, ver, ty, val):
    key = f"wfk {ty} {val}" if kind == "k" else f"wf {ver} {ty} {val}"
    if key not in WFK:
        WFK[key] = X.model_outputs([key])[0]
    return WFK[key].endswith(" 1")


def nontrivial(case, out):
    try:
        t = X.parse_ty(case.lines[0].split()[1])
    except ValueError:
        return False
    ks = X.flat_key_members(t)
    return len(ks) > 1 or any(len(p) > 1 for p, _ in ks)


def oracle(case, out):
    if len(case.lines) != 3 or len(out) != 3:
        return [{"what": "case crashed", "ops": case.lines, "got": out}]
    l1, l2, l3 = case.lines
    ty = l1.split()[1]
    v1s, v2s = l1.split()[2], l2.split()[2]
    ver = int(l3.split()[1])
    try:
        t, v1, v2 = X.parse_ty(ty), X.parse_val(v1s), X.parse_val(v2s)
    except ValueError:
        return [{"what": "unparsable case", "ops": case.lines}]
    viol = []
    collide = X.flat_ids_collide(t)

    def bad(what, cause):
        if cause is None and os.environ.get("XCDR_DEBUG"):
            print("UNATTRIBUTED", what, case.lines, out, file=sys.stderr)
        viol.append({"what": what, "ops": case.lines, "got": out, "cause": cause})

    def key_cause(vs):
        # D73 only when the Lean hypothesis wfKey rejects the case and the flattened ids really collide
        if collide and not lean_wf("k", 0, ty, vs):
            return D73
        return None

    h1, h2 = out[0], out[1]
    k1, k2 = X.key_view(t, v1), X.key_view(t, v2)
    for h, vs, kv in ((h1, v1s, k1), (h2, v2s, k2)):
        if h == "PANIC":
            bad("the handle computation panicked",
                key_cause(vs) or ("xcdr1-parameter-id-overflows-u16" if not lean_wf("k", 0, ty, vs) else None))
        elif h.startswith("err"):
            if h == "err InvalidId" and ("_" in kv or not X.legal_sample(t, X.parse_val(vs))):
                continue                       # a non-optional member without value: not a legal sample, no handle
            bad(f"no handle for a sample with all key members present: {h}", key_cause(vs))
    if h1.startswith("ok ") and h2.startswith("ok "):
        if (k1 == k2) != (h1 == h2):
            bad(f"key members {'equal' if k1 == k2 else 'differ'} but handles {'equal' if h1 == h2 else 'differ'}: {k1} / {k2}",
                key_cause(v1s) or key_cause(v2s))
    # writer / reader agreement
    parts = out[2].split(" | ")
    if out[2] == "PANIC" and h1 == "PANIC":
        return viol
    if len(parts) != 3:
        bad("malformed khrt answer", None)
        return viol
    if parts[0] != h1:
        bad("khrt writer handle differs from kh", None)
    if parts[0].startswith("ok "):
        for name, p in (("decoded sample", parts[1]), ("decoded key-only payload", parts[2])):
            if p == "dup-ids":
                continue
            if p != parts[0]:
                cause = None
                if not lean_wf("v", ver, ty, v1s):
                    cause = X.attribute(X.strip_keys(t), v1, ver)
                if cause is None and name.startswith("decoded key"):
                    kt, kv = X.key_holder(t, v1)
                    if not lean_wf("v", ver, X.ty_text(kt), X.val_text(kv)):
                        cause = X.attribute(kt, kv, ver)
                if cause is None:
                    cause = key_cause(v1s)
                bad(f"the reader derives {p} from the {name}, the writer assigned {parts[0]}", cause)
    return viol


def gen_cases(ctx):
    r = ctx.rng
    n = 700 if ctx.tier == "quick" else 12000
    cases = [Case(list(c)) for c in CORPUS]
    for k in range(n):
        ver = r.choice([1, 2])
        collide = k % 10 == 0
        exotic = k % 13 == 0
        optkey = k % 5 == 1      # follow-up 3: an optional member whose structure type has key members of its own
        keystruct = k % 5 == 2   # follow-up 5: a KEY member of structure type with key members of its own (overlapping ids)
        t = X.gen_keyed_type(r, ver=ver, collide=collide, exotic=exotic, optkey=optkey, keystruct=keystruct)
        kn = X.Knobs(ver=ver)
        v1 = X.gen_value(r, t, kn, ver=ver)
        c = r.below(3)
        if optkey and r.chance(2, 3):
            # the optional structure removed / given (another) value: not a key member, the handle must not change
            v2 = X.toggle_opt_struct(r, t, v1, ver)
            if v2 is not None:
                ctx.count("pair: optional keyed structure " + ("removed" if X.val_text(v2).count("_") > X.val_text(v1).count("_")
                                                               else "added / changed"))
        elif keystruct and X.key_struct_paths(t) and r.chance(2, 3):
            # only the EARLIER outer key member changes (the one whose id an inner key member of the key structure has):
            # another instance, the handles must differ
            v2 = X.change_at(r, t, v1, r.choice(X.key_struct_paths(t))[0], ver)
            if v2 is not None:
                ctx.count("pair: only the outer key member changed whose id an inner key of a key structure has")
        else:
            v2 = v1 if c == 0 else X.mutate_value(r, t, v1, key=(c == 2))
        if v2 is None:
            v2 = v1
        tt = X.ty_text(t)
        cases.append(Case([f"kh {tt} {X.val_text(v1)}", f"kh {tt} {X.val_text(v2)}",
                           f"khrt {ver} {r.choice(['le', 'be'])} {tt} {X.val_text(v1)}"]))
    return cases


CORPUS = [
    # follow-up 5 (seed C12_c): a KEY member of structure type is copied whole, its own key flags are irrelevant:
    # Sensor{@key id (0); @key location (1): Location{@key zone (0); floor (2)}} - (7,{3,1}) and (8,{3,1}) are two instances
    ["kh SF{0k:u32,1k:SF{0k:u32,2:u8},3:u16} {7,{3,1},5}", "kh SF{0k:u32,1k:SF{0k:u32,2:u8},3:u16} {8,{3,1},5}",
     "khrt 1 le SF{0k:u32,1k:SF{0k:u32,2:u8},3:u16} {7,{3,1},5}"],
    ["kh SA{0k:u8,1k:SF{0k:u16,2k:u8}} {7,{3,1}}", "kh SA{0k:u8,1k:SF{0k:u16,2k:u8}} {7,{3,1}}",
     "khrt 2 be SA{0k:u8,1k:SF{0k:u16,2k:u8}} {7,{3,1}}"],
    # follow-up 3: an OPTIONAL nested structure with key members of its own contributes nothing to the key:
    # present / absent / other content -> same handle; absent -> still a handle
    ["kh SF{0k:u8,5o:SF{6k:u8,7k:u16},2:u32} {5,{1,2},7}", "kh SF{0k:u8,5o:SF{6k:u8,7k:u16},2:u32} {5,_,7}",
     "khrt 1 le SF{0k:u8,5o:SF{6k:u8,7k:u16},2:u32} {5,{1,2},7}"],
    ["kh SF{0k:u8,5o:SF{6k:u8,7k:u16},2:u32} {5,{1,2},7}", "kh SF{0k:u8,5o:SF{6k:u8,7k:u16},2:u32} {5,{3,4},7}",
     "khrt 2 be SF{0k:u8,5o:SF{6k:u8,7k:u16},2:u32} {5,_,7}"],
    ["kh SA{0k:u16,3:SF{4:u8,8o:SA{9k:s}}} {7,{1,{x6162}}}", "kh SA{0k:u16,3:SF{4:u8,8o:SA{9k:s}}} {7,{1,_}}",
     "khrt 2 le SA{0k:u16,3:SF{4:u8,8o:SA{9k:s}}} {7,{1,_}}"],
    ["kh SM{3o:SF{4k:u64,5k:u64,6k:u8},2k:u32} {{1,2,3},9}", "kh SM{3o:SF{4k:u64,5k:u64,6k:u8},2k:u32} {_,9}",
     "khrt 1 be SM{3o:SF{4k:u64,5k:u64,6k:u8},2k:u32} {{1,2,3},9}"],
    # D73: flattened key member ids collide
    ["kh SF{0k:u8,1:SF{0k:u8}} {1,{2}}", "kh SF{0k:u8,1:SF{0k:u8}} {5,{2}}", "khrt 1 le SF{0k:u8,1:SF{0k:u8}} {1,{2}}"],
    ["kh SF{0k:u8,1:SF{0k:u16}} {5,{2}}", "kh SF{0k:u8,1:SF{0k:u16}} {5,{2}}", "khrt 2 le SF{0k:u8,1:SF{0k:u16}} {5,{2}}"],
    # the two unit tests of the repository
    ["kh SF{0:SF{0:SF{0k:u8},1k:u16}} {{{1},3}}", "kh SF{0:SF{0:SF{0k:u8},1k:u16}} {{{1},4}}",
     "khrt 1 le SF{0:SF{0:SF{0k:u8},1k:u16}} {{{1},3}}"],
    ["kh SF{0k:SF{0:u8,1:u16}} {{1,3}}", "kh SF{0k:SF{0:u8,1:u16}} {{1,3}}", "khrt 2 be SF{0k:SF{0:u8,1:u16}} {{1,3}}"],
    # string key (D16 exemplar), long key (MD5)
    ["kh SF{0k:s,1:u32} {x6162,7}", "kh SF{0k:s,1:u32} {x6162,8}", "khrt 2 be SA{0k:s,1:u32} {x6162,7}"],
    ["kh SF{0k:u64,1k:u64,2k:u8} {1,2,3}", "kh SF{0k:u64,1k:u64,2k:u8} {1,2,4}", "khrt 1 le SF{0k:u64,1k:u64,2k:u8} {1,2,3}"],
    # mutable top-level type, key-only payload through the mutable key-holder type
    ["kh SM{0k:u8,3k:u32,2:s} {1,2,x61}", "kh SM{0k:u8,3k:u32,2:s} {1,2,x62}", "khrt 1 le SM{0k:u8,3k:u32,2:s} {1,2,x61}"],
    ["kh SM{0k:u8,3k:u32,2:s} {1,2,x61}", "kh SM{0k:u8,3k:u32,2:s} {1,3,x61}", "khrt 2 le SM{0k:u8,3k:u32,2:s} {1,2,x61}"],
]


def run(ctx):
    cases = gen_cases(ctx)
    eng = X.model_engine()
    ctx.count("model-engine " + eng)
    keys = []
    for c in cases:
        ty = c.lines[0].split()[1]
        for l in c.lines[:2]:
            keys.append(f"wfk {ty} {l.split()[2]}")
        tk = c.lines[2].split()
        keys.append(f"wf {tk[1]} {tk[3]} {tk[4]}")
        try:
            t = X.parse_ty(ty)
            ctx.count("flattened ids collide" if X.flat_ids_collide(t) else "flattened ids distinct")
            ctx.count(f"key members: {min(len(X.flat_key_members(t)), 4)}{'+' if len(X.flat_key_members(t)) > 4 else ''}")
        except ValueError:
            pass
        ctx.count("pair: same value" if c.lines[0] == c.lines[1] else "pair: different value")
        try:
            if X.key_struct_paths(X.parse_ty(ty)):
                ctx.count("type has a key member of structure type whose inner key id meets an earlier outer key id")
        except ValueError:
            pass
        try:
            if X.opt_keyed_struct_paths(X.parse_ty(ty)):
                ctx.count("type has an optional structure member with key members of its own")
                ctx.count("... its value is " + ("absent" if any(X.value_at(X.parse_val(c.lines[0].split()[2]), p) is None
                                                                  for p in X.opt_keyed_struct_paths(X.parse_ty(ty))) else "present"))
        except ValueError:
            pass
    keys = sorted(set(keys))
    for k, o in zip(keys, X.model_outputs(keys, eng)):
        WFK[k] = o
    ctx.count("inside wfKey", sum(1 for k in keys if k.startswith("wfk") and WFK[k].endswith(" 1")))
    ctx.count("outside wfKey", sum(1 for k in keys if k.startswith("wfk") and not WFK[k].endswith(" 1")))
    for i in range(0, len(cases), 4000):
        ctx.differential(ENGINE, cases[i:i + 4000], nontrivial=nontrivial, oracle=oracle, model_engine=eng, shrink=False)
    run_e2e(ctx)


def run_e2e(ctx):
    """end-to-end part (engine `handle` = the simulator): the handle the reader presents for a sample received over the wire
    (DATA and DATA_FRAG, with the inline key hash and without) equals the handle the writer assigned to that key"""
    from vlib.handle_e2e_common import c11_e2e_cases, c11_e2e_oracle, c11_e2e_nontrivial, c11_e2e_crosscheck
    from vlib.core import run_cases, harness_bin, model_bin
    def run_model_lines(lines):
        outs, _ = run_cases([model_bin(), "handle"], [Case(list(lines))])
        return outs[0]
    bad = c11_e2e_crosscheck(run_model_lines)
    if bad:
        ctx.disagreements.append({"engine": "handle", "ops": [], "impl": [], "model": [], "what": f"python expectation differs from the Lean definition: {bad}"})
    cases = c11_e2e_cases(ctx.rng, ctx.tier)
    outs, _ = run_cases([harness_bin("handle")], cases)
    for c, o in zip(cases, outs):
        ctx.stats["evaluations"] += 1
        ctx.count("e2e cases")
        if c11_e2e_nontrivial(c, o):
            ctx.stats["distinct_nontrivial"] += 1
        for v in c11_e2e_oracle(c, o):
            v.setdefault("ops", c.lines); v["engine"] = "handle"; ctx.violations.append(v)


TECHNIQUE = ("Lean 4 theorems over the key-holder model on top of the XCDR model (injectivity of the key serialization from the "
             "C09 round trip with remainder) + differential correspondence with get_instance_handle_from_dynamic_data and the "
             "reader-side derivations")
LEVEL_TEXT = ("Kernel-checked Lean theorems: C11_same_key_same_handle and C11_nonkey_irrelevant (every type and value: equal key "
              "members give equal handles, members outside the key are irrelevant), C11_optional_member_irrelevant (every type, "
              "value, optional non-key member, replacement value incl. none: key projection, handle and the outcome of the real "
              "function unchanged - optional nested structures with key members of their own contribute nothing), "
              "C11_optional_struct_not_in_key_holder_type, C11_key_struct_member_not_flattened (every type and value: the key flags inside "
              "the type of a key member change neither key-holder type, key projection, handle nor outcome), C11_iff_partial (for all keyed structures and "
              "value pairs inside the decidable predicate wfKey: handles equal iff key members equal or the two key serializations "
              "collide in pad16/MD5 - the collision is spelled out, MD5 stays opaque; injectivity of the big-endian key "
              "serialization follows from the C09 round trip with remainder), C11_writer_reader_agree (writer handle = handle the "
              "reader files the change under: inline key hash, decoded sample, decoded key-only payload with the key-holder type). "
              "Partial: wfKey demands distinct flattened key member ids; without that the code merges different keys "
              "(C11_flattened_ids_collide_counterexample, finding D73, replayed). The model is tied to the code by handles of "
              "hundreds of random keyed types / value pairs computed by the real function and by the model (bytes compared), and by "
              "the three derivation paths on the real serializer / deserializer.")
LEVEL_NOTE = ("Trusted: Lean kernel; Model/Key.lean (transcription of key_and_instance_handle.rs on top of Model/Xcdr.lean), "
              "Model/Md5.lean (executable MD5, validated against the md5 crate by the differential run: every hashed handle is "
              "compared); the model of the reader-side choice (readerHandle) is a transcription of communication_methods.rs:218-272 "
              "and is not driven over the wire here; harness and oracle.")
DESIGN_REF = "DESIGN.md section 5 C11"
