"""C07: decoders are total (malformed bytes give errors, not panics or huge allocations).

The property has several decoder families; each is a *part* = (engine, generator, oracle, non-triviality rule)
with its own Lean module.  Parts are run one after the other through the same differential pipeline.
Present parts:
  rtps  - RtpsMessageRead::try_from and the submessage parsers (engine `wire`, theorems C07_rtps_* in Props/C07.lean)
To add the parameter-list / XCDR parts: append a dict to PARTS, the engine binary to BINS and the Props module to
LEAN_MODULES (theorem names C07_plist_*, C07_xcdr_*).
"""
from vlib.core import Case
from vlib import wire_common as W

ENGINE = "wire"                       # engine of the first part (used by core.py for replays)
BINS = ["wire", "plist", "xcdr"]
LEAN_MODULES = ["DustVerif.Props.C07", "DustVerif.Props.C07Plist", "DustVerif.Props.C07Xcdr"]
RULE = ("part rtps: one datagram per case, `dec <hex>`: (a) valid encodings of generated messages in both byte orders, "
        "(b) one to three structure-aware mutations of them (truncation, bit flips, length-field / flag / id / "
        "numBits / 16- and 32-bit field edits with boundary values, deletions, insertions, duplicated headers), "
        "(c) random octets behind a valid RTPS header with known submessage ids. A case is non-trivial when the "
        "input reaches the submessage loop (>= 24 octets and the RTPS magic); distinct by canonical op line")
ASSUMPTIONS = [
    "part rtps: inputs up to 4 KiB in the differential run (the Lean driver decodes them too); the allocation guard of "
    "the harness (counting global allocator, 64 MiB + 64 x input per op) and catch_unwind observe the real decoder",
    "memory is measured as the octets held by the decoded value (payloads, parameter values, 24 per locator); the bound "
    "content + 4 x submessages + 20 <= input length is proved for the decoder with fixes/D-wire-3.patch "
    "(C07_rtps_size); measured heap of the real decoder stays below 23 x input (16 000 PAD submessages: 88-octet enum "
    "entries in a doubling Vec)",
    "the model variant compared with (op suffix @5eam) is selected by probing the implementation with the exemplars "
    "of D5/D-wire-1, D-wire-3, D-wire-4 and D-wire-2 (wire_common.model_suffix)",
]
D5 = "fragment-set-numbits-over-256"
DW1 = "fragment-number-overflow"
DW3 = "info-reply-reads-past-submessage-end"
DW4 = "sequence-number-set-accessor-overflow"


# ----------------------------------------------------------------------------- part rtps

def rtps_oracle(case, out):
    line = out[0] if out else ""
    toks = line.split()
    b = case.meta["bytes"]
    viol = []

    def bad(what, cause=None):
        viol.append({"what": what, "op": case.lines[0][:600], "got": line[:300], "cause": cause})

    if not toks or toks[0] == "bad-op":
        bad("harness did not answer the op")
        return viol
    if toks[0] == "PANIC" or toks[0].startswith("CRASH"):
        causes = W.nackfrag_panic_cause(b)
        cause = D5 if D5 in causes else (DW1 if DW1 in causes else None)
        bad(f"RtpsMessageRead::try_from panicked on a {len(b)}-octet input", cause)
        return viol
    if toks[0] == "ALLOC-LIMIT":
        bad(f"decoding a {len(b)}-octet input exceeded the allocation limit", DW3 if b"\x0f" in b else None)
        return viol
    if toks[0].startswith("err:"):
        if toks[0] not in ("err:NotEnoughData", "err:InvalidData"):
            bad("message-level error outside {NotEnoughData, InvalidData}")
        return viol
    if toks[0] != "ok":
        bad("unexpected output")
        return viol
    try:
        m = W.parse_rendering(toks[1:])
    except Exception as ex:
        bad(f"unparsable rendering: {ex}")
        return viol
    if len(m["subs"]) > max(0, (len(b) - 20) // 4) or len(m["subs"]) > 65536:
        bad(f"{len(m['subs'])} submessages decoded from {len(b)} octets")
    size = W.content_size(m)
    if size + 4 * len(m["subs"]) + 20 > len(b):       # C07_rtps_size: content + 4 per submessage + header <= input
        has_reply = any(s["k"] == "IREPLY" and (s["uni"] or s["multi"]) for s in m["subs"])
        bad(f"decoded value holds {size} octets in {len(m['subs'])} submessages, the input has {len(b)}", DW3 if has_reply else None)
    for s in m["subs"]:
        if "set" in s and s["set"]["members"] is None:
            overflow = s["k"] in ("GAP", "ACK") and s["set"]["nb"] <= 256 and s["set"]["base"] + s["set"]["nb"] - 1 > W.I64MAX
            bad(f"{s['k']}: the accessor set() of the decoded set panics (base {s['set']['base']}, numBits {s['set']['nb']})",
                DW4 if overflow else None)
            break
    return viol


def rtps_nontrivial(case, out):
    b = case.meta["bytes"]
    return len(b) >= 24 and b[:4] == b"RTPS"


def overlap_reply(n_headers, stride_len=4):
    """INFO_REPLY headers of length 4 every 8 octets; each one's locator list re-reads the whole rest of the
    datagram (D-wire-3 exemplar)"""
    import struct
    total = 20 + 8 * n_headers
    out = bytearray(b"RTPS" + bytes([2, 3, 1, 20]) + bytes(12))
    for i in range(n_headers):
        rest_after_count = total - (len(out) + 8)
        out += bytes([0x0f, 0x01]) + struct.pack("<H", 4) + struct.pack("<I", rest_after_count // 24)
    return bytes(out)


def rtps_corpus():
    import struct
    hdr = b"RTPS" + bytes([2, 3, 9, 8]) + bytes([3] * 12)
    eids = bytes([1, 2, 3, 4, 6, 7, 8, 9])
    nf = lambda base, nb, words, e="<": (hdr + bytes([0x12, 1 if e == "<" else 0]) + struct.pack(e + "H", 28 + 4 * len(words)) + eids
                                         + struct.pack(e + "iI", 0, 4) + struct.pack(e + "II", base, nb)
                                         + b"".join(struct.pack(e + "I", w) for w in words) + struct.pack(e + "i", 3))
    ack = lambda base, nb, words: (hdr + bytes([0x06, 1]) + struct.pack("<H", 24 + 4 * len(words)) + eids
                                   + struct.pack("<iI", base >> 32, base & 0xFFFFFFFF) + struct.pack("<I", nb)
                                   + b"".join(struct.pack("<I", w) for w in words) + struct.pack("<i", 1))
    return [
        (nf(2, 300, [0x80000000, 0, 0, 0, 0, 0, 0, 0]), "D5"),                 # numBits 300 -> bitmap[8]
        (nf(2, 300, [0x80000000, 0, 0, 0, 0, 0, 0, 0], ">"), "D5-be"),
        (nf(2, 257, [0] * 8), "D5-257"),
        (nf(2, 256, [0xFFFFFFFF] * 8), "nb256"),
        (nf(0xFFFFFFFF, 2, [0xC0000000]), "D-wire-1"),                         # base + 1 overflows u32
        (nf(0xFFFFFFFF, 1, [0x80000000]), "fn-max"),
        (nf(0xFFFFFF00, 256, [0xFFFFFFFF] * 8), "fn-top"),
        (nf(0xFFFFFF01, 256, [0] * 7 + [1]), "D-wire-1b"),
        (ack(2**63 - 1, 2, [0xC0000000]), "D-wire-4"),                         # set() accessor: base + 1 overflows i64
        (ack(2**63 - 1, 1, [0x80000000]), "sn-max"),
        (ack(5, 257, [0] * 8), "sn-257"),
        (overlap_reply(64), "D-wire-3"),
        (overlap_reply(250), "D-wire-3"),
        (hdr + bytes([0x15, 0x05, 0, 0]) + bytes([0, 0, 16, 0]) + eids + bytes(8) + b"abc", "data-len0"),
        (hdr + bytes([0x15, 0x03, 24, 0]) + bytes([0, 0, 0xff, 0xff]) + eids + bytes(8) + bytes(4), "data-oti-max"),
        (hdr + bytes([0x16, 0x01, 0, 0]) + bytes(31), "dfrag-short"),
        (hdr[:19], "short-header"), (b"RTPX" + hdr[4:], "magic"), (b"", "empty"),
        (hdr + bytes([0x0f, 0x03, 0, 0]) + struct.pack("<I", 0xFFFFFFFF) + bytes(48), "reply-huge-count"),
    ]


def rtps_cases(ctx):
    r = ctx.rng
    quick = ctx.tier == "quick"
    n_valid, n_mut, n_rand = (600, 9000, 2500) if quick else (10000, 250000, 60000)
    cases = []

    op = "dec" + W.model_suffix(ctx)

    def add(b, tag):
        cases.append(Case([op + " " + W.hx(b)], {"bytes": b, "tag": tag}))
        ctx.count("rtps-" + tag)

    for b, tag in rtps_corpus():
        add(b, "corpus")
    pool = []
    for _ in range(n_valid):
        m = W.gen_msg(r, wf=True)
        for s in m["subs"]:                       # keep the differential inputs small
            if "p" in s and len(s["p"]) > 300:
                s["p"] = s["p"][:300]
        les = [r.chance(2, 3) for _ in m["subs"]]
        b = W.msg_bytes(m, les=les)
        pool.append(b)
        add(b, "valid")
    for _ in range(n_mut):
        b = r.choice(pool)
        tags = []
        for _ in range(r.choice([1, 1, 1, 2, 3])):
            b, t = W.mutate(r, b)
            tags.append(t)
        add(b[:4096], "mut-" + tags[0])
    for _ in range(n_rand):
        if r.chance(1, 10):
            add(r.bytes(r.range(0, 64)), "random-raw")
        else:
            add(W.random_message_bytes(r), "random-structured")
    return cases


from vlib import plist_common as PL


def plist_cases(ctx):
    cases = PL.set_fix_token(PL.c07_cases(ctx.rng, ctx.tier), PL.probe_fixes())
    return [c for c in cases if not PL.has_foreign_type_information(c.lines[0])]


from vlib import xcdr_common as XC


def xcdr_cases(ctx):
    return XC.c07_cases(ctx.rng, ctx.tier)


PARTS = [
    {"name": "rtps", "engine": "wire", "cases": rtps_cases, "oracle": rtps_oracle, "nontrivial": rtps_nontrivial},
    {"name": "plist", "engine": PL.C07_ENGINE, "cases": plist_cases, "oracle": PL.c07_oracle, "nontrivial": PL.c07_nontrivial},
    {"name": "xcdr", "engine": "xcdr", "cases": xcdr_cases, "oracle": XC.c07_oracle, "nontrivial": None, "model_engine": XC.model_engine},
]


CLAIMED = True   # all three decoder families are present: RTPS messages, discovery parameter lists, XCDR sample payloads


def oracle(case, out):
    """replay entry point of core.py: dispatch on the part recorded in the case (default: first part)"""
    part = next((p for p in PARTS if p["name"] == (case.meta or {}).get("part")), PARTS[0])
    if part["name"] == "rtps" and "bytes" not in (case.meta or {}):
        case.meta = {"bytes": W.unhx(case.lines[0].split()[1]), "part": part["name"]}
    return part["oracle"](case, out)


def run(ctx):
    for part in PARTS:
        cases = part["cases"](ctx)
        for c in cases:
            if c.meta is None:
                c.meta = {}
            c.meta["part"] = part["name"]
            ctx.count("part:" + part["name"])
        me = part.get("model_engine")
        ctx.differential(part["engine"], cases, nontrivial=part["nontrivial"], oracle=part["oracle"], shrink=False,
                         model_engine=(me() if me else None))


LEVEL_TEXT = ("RTPS part: kernel-checked Lean theorems over ALL octet strings for the model of RtpsMessageRead::try_from "
              "and every submessage parser (Model/Wire.lean, panic-aware: every slice index, subtraction, addition and "
              "cast on input-controlled values is an explicit outcome). For the repository main with fixes/D-wire-3.patch "
              "and fixes/D-wire-4.patch: C07_rtps_total (never panics), C07_rtps_size (octets held + 4 per submessage + 20 "
              "<= input length, INFO_REPLY included), C07_rtps_submessage_count, C07_rtps_accessors_total (set() of every "
              "decoded SequenceNumberSet / FragmentNumberSet is total). The repaired defects D5, D-wire-1, D-wire-3, "
              "D-wire-4 are kept as kernel-checked regression witnesses on the earlier decoders (decodeOrig / decodeMain) "
              "together with the exact panic condition of the old fragment-set reader. The model is tied to the code by "
              "decoding ~10^4 (quick) valid, mutated and random datagrams on both and comparing every decoded field; the "
              "model variant follows the tree under test (probe of the exemplars); the oracle checks no panic, "
              "allocation guard, accessor totality and the size bound.")
LEVEL_NOTE = ("Trusted: Lean kernel; hand-written model Model/Wire.lean; differential harness with catch_unwind and a counting "
              "allocator. Parameter-list and XCDR decoder parts are separate modules of this property. The full theorems "
              "speak about main + fixes/D-wire-3.patch + fixes/D-wire-4.patch; on a tree without them the check reports the "
              "corresponding findings (D-wire-3, D-wire-4) again.")
TECHNIQUE = "Lean 4 theorems (case analysis over a panic-aware decoder model, induction over the submessage loop) + differential correspondence under catch_unwind and an allocation guard"
DESIGN_REF = "DESIGN.md section 5 C07"
