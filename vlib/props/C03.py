"""C03: wait_for_acknowledgments is sound and eventually completes."""
from vlib.core import Case
from vlib import rtps_common as RC
from vlib import dcps_wait_common as D

ENGINE = "rtps"                      # engine of the first part (replays); the second part runs on `dsim` + `dustmodel ackw`
BINS = ["rtps", "dsim"]
LEAN_MODULES = ["DustVerif.Props.C03"]
RULE = ("part protocol (engine rtps): reliable and best-effort writer/reader pairs under up to 40 adversary directives and a healing suffix, "
        "`acked <sn>` (is_change_acknowledged) probed after the steps; part api (dsim): a reliable KEEP_ALL writer with 1-2 reliable "
        "readers and sometimes a best-effort one, each in its own participant, some joining late; 4-9 steps of writes, faults on user "
        "ACKNACK / DATA / HEARTBEAT (drop, hold, duplicate, release), `advance`, `wait-ack` with bounds 1 us .. 1.05 s followed by `take` "
        "of every reader at the same instant, reader deletion (also arranged to reach the writer DURING a pending wait-ack), graceful "
        "participant deletion, then healing and a final `wait-ack`. Non-trivial = a wait-ack issued under an active fault with a sample "
        "written (api) / >= 2 writes, a fault and a delivery (protocol)")
ASSUMPTIONS = ["the network does not forge (C06); one writer; in the api part every reader of the writer lives in its own participant "
               "(a second reader in the same participant sees the first one's submessages: finding D-rtps-2 of C04)",
               "api part: the network, the worker schedule and discovery are observed, not modelled: the events of the wait-list "
               "automaton (matches, accepted writes, ACKNACKs that reached the writer, reader removals) are taken from the simulator's trace",
               "a `wait_for_acknowledgments` that is pending when a reader's PARTICIPANT falls silent is not exercised: the lease expiry "
               "path never completes on the real stack because of the open finding D23 (C16: the dead participant's reader is matched again); "
               "the model witness C03_participant_gone_leaves_waiter_counterexample shows that remove_discovered_participant would not "
               "answer the waiters either",
               "liveness (C03_eventual_statement) is NOT proved: checked by the oracle on every scenario after healing"]

CORPUS_RTPS = [
    # D2 exemplar: false acknowledgement after a GAP skip (repaired on main)
    ["init rel tl 8", "write x01", "write x02", "write x03", "remove 2", "match", "tick 10", "drop 0", "flush", "acked 3"],
    ["init rel vol 8", "match", "write x01", "write p20.3", "acked 2", "drop 1", "flush", "acked 1", "acked 2"],
]

T2 = ["participant P1", "participant P2", "topic t1 P1 T ki", "topic t2 P2 T ki", "publisher pub P1", "subscriber sub2 P2",
      "writer w pub t1 reliability=reliable history=keep_all", "trace on",
      "reader r2 sub2 t2 reliability=reliable history=keep_all", "trace show"]
CORPUS_DSIM = [
    # ACKNACKs withheld: pending; released: answered at once
    T2 + ["hold ACKNACK user", "write w 1 10", "trace show", "now", "wait-ack w 450000000", "trace show", "now", "take r2",
          "now", "release", "trace show", "now", "wait-ack w 1000", "trace show", "now", "take r2"],
    # DATA lost, repaired by the heartbeat: the wait ends when the repaired sample is acknowledged (one heartbeat period)
    T2 + ["drop-next 1 DATA user", "write w 1 10", "trace show", "now", "wait-ack w 450000000", "trace show", "now", "take r2"],
    # D3 (repaired): the last unacknowledging reader is deleted while the call is parked; the deletion reaches the writer with its next heartbeat
    T2 + ["drop-if ACKNACK user from=P2", "write w 1 10", "trace show", "hold builtin from=P2 to=P2", "reorder-next 1 DATA builtin from=P2 to=P1",
          "delete r2", "trace show", "now", "wait-ack w 1050000000", "trace show", "now"],
    # D-rtps-3 (open): the only sample expires (lifespan 100 ms) before the reader acknowledged it: the wait never completes
    T2[:6] + ["writer w pub t1 reliability=reliable history=keep_all lifespan=100000000", "trace on",
              "reader r2 sub2 t2 reliability=reliable history=keep_all", "trace show", "drop-if DATA user", "write w 1 10", "trace show",
              "advance 300000000", "trace show", "clear-faults", "now", "release", "trace show", "now", "wait-ack w 2000000000", "trace show", "now", "take r2"],
    # no reliable reader left: answered at once
    T2 + ["drop-if ACKNACK user", "write w 1 10", "trace show", "delete r2", "trace show", "now", "wait-ack w 1000", "trace show", "now"],
]


def oracle_rtps(case, out):
    return RC.attribute(case, D.protocol_oracle(case, out, "ack"))


def oracle(case, out):
    """replay entry point: protocol cases start with `cfg`"""
    if case.lines and case.lines[0].startswith("cfg"):
        return oracle_rtps(case, out)
    return D.c03_oracle(case, out)


def run(ctx):
    r = ctx.rng
    quick = ctx.tier == "quick"
    # ---- part 1: protocol
    cfg = RC.preflight(ctx)
    cases = D.protocol_cases(r, cfg, 300 if quick else 2000, CORPUS_RTPS)
    RC.count_ops(ctx, cases)
    ctx.differential("rtps", cases, nontrivial=RC.nontrivial_system, oracle=oracle_rtps)
    # ---- part 2: api on the simulator
    dcases = [Case(list(c), {"kind": "corpus"}) for c in CORPUS_DSIM]
    for k in range(400 if quick else 1500):
        dcases.append(D.gen_c03(r, long=(not quick and k % 6 == 0)))
    for c in dcases:
        for l in c.lines:
            t = l.split()
            if t[0] not in ("trace", "now"):
                ctx.count("dsim:" + t[0])
    D.differential(ctx, dcases, D.c03_nontrivial, D.c03_oracle)
    for v in ctx.violations:
        ctx.count("oracle:" + str(v.get("cause")))


TECHNIQUE = ("Lean 4 invariants over all step lists of the RTPS protocol model and over all event lists of the DCPS wait-list automaton + "
             "differential correspondence (rtps engine; trace-driven on the deterministic full-stack simulator dsim)")
LEVEL_TEXT = ("Kernel-checked Lean theorems. Protocol (Model/Rtps.lean): for EVERY step list is_change_acknowledged(sn) implies that every "
              "number up to sn was delivered to the reliable reader or is gone (C03_sound), a held relevant change reported acknowledged IS in "
              "the reader's cache (C03_acknowledged_is_delivered, C03_all_acknowledged_all_delivered). API (Model/AckWait.lean: the wait list "
              "of notify_acknowledgments with any number of matched readers, drained in the ACKNACK arm and in remove_discovered_reader): for "
              "every state and event a waiter is answered Ok only while every reliable matched reader has acknowledged every sample written "
              "so far (C03_api_sound), no step loses a waiter (C03_waiter_kept), removing the last unacknowledging reader answers all waiters at "
              "that step (C03_complete_on_unmatch), and along every event list without participant removal nobody is left waiting while "
              "everything is acknowledged (C03_no_stuck_waiter_partial; witness C03_participant_gone_leaves_waiter_counterexample). "
              "PARTIAL: the liveness clause C03_eventual_statement is stated, not proved; the oracle checks it after healing. Tied to the code "
              "by the rtps engine (is_change_acknowledged probed after every step) and by full-stack scenarios on dsim whose every wait-ack "
              "answer and completion time, take and reader ACKNACK is predicted by the compiled automaton from the observed event order.")
LEVEL_NOTE = ("Trusted: Lean kernel; Model/Rtps.lean, Model/AckWait.lean (hand transcription); harness/src/bin/rtps.rs; the dsim simulator "
              "and interpreter; the event extraction and oracles of vlib/dcps_wait_common.py. The dsim tie is trace-driven: network, worker "
              "schedule and discovery are observed, not predicted. The participant-removal path is not exercised (D23).")
DESIGN_REF = "DESIGN.md section 5 C03"
