"""C04: durability - late TRANSIENT_LOCAL readers get the retained history, VOLATILE readers get nothing written before the match."""
from vlib.core import Case
from vlib import rtps_common as RC
from vlib import dcps_wait_common as D

ENGINE = "rtps"
BINS = ["rtps", "dsim"]
LEAN_MODULES = ["DustVerif.Props.C04"]
RULE = ("part protocol (engine rtps): reliable and best-effort pairs, VOLATILE and TRANSIENT_LOCAL, late joiners, removals, up to 40 "
        "adversary directives, healing suffix, `histrecv` (is_historical_data_received) probed after the steps; part api (dsim): a reliable "
        "writer KEEP_ALL / KEEP_LAST(1..3) over 1-3 instances, TRANSIENT_LOCAL or VOLATILE, 0-6 writes before the readers exist, lossy "
        "catch-up (drop / hold / duplicate of DATA, GAP, HEARTBEAT, ACKNACK), 1-2 readers (reliable or best-effort, TRANSIENT_LOCAL or "
        "VOLATILE, in their own participants; in 1 of 6 cases two readers share a participant), later writes to new instances, "
        "`wait-hist`, healing, final `wait-hist` and `take`; plus two-writer cases: ONE reliable TRANSIENT_LOCAL reader and TWO TRANSIENT_LOCAL "
        "writers in their own participants (in 1 of 4 the reader exists first, with no matched writer), the catch-up from one writer "
        "dropped / held, `wait-hist` with bounds 1 us .. 650 ms each followed by `take` at the same instant. Non-trivial = writes before a reader was created and (a fault or a VOLATILE reader)")
ASSUMPTIONS = ["the network does not forge; one writer",
               "theorems and model prediction cover ONE reader of the writer per participant; two readers of one writer in one participant "
               "are exercised by the oracle only (open finding D-rtps-2)",
               "writes after the match go to new instances (a KEEP_LAST replacement of an unacknowledged sample blocks: C27)",
               "wait_for_historical_data of a BEST_EFFORT TRANSIENT_LOCAL reader never completes (a best-effort proxy gets no heartbeat); the "
               "property speaks about reliable readers, this is recorded as an observation only",
               "liveness (C04_tl_gets_history_statement) is NOT proved: checked by the oracle after healing"]
CORPUS_RTPS = [
    ["init rel tl 8", "write x01", "write x02", "write x03", "remove 2", "match", "histrecv", "tick 10", "drop 0", "flush", "histrecv"],
    ["init rel vol 8", "write x01", "write x02", "match", "write x03", "flush", "histrecv"],
    ["init be vol 8", "write x01", "write x02", "match", "write x03", "flush"],
]
H = ["participant P1", "participant P2", "topic t1 P1 T ki", "topic t2 P2 T ki", "publisher pub P1", "subscriber sub2 P2"]
CORPUS_DSIM = [
    # KEEP_LAST(1) over two instances, one catch-up DATA lost for good until the next heartbeat
    H + ["writer w pub t1 reliability=reliable history=keep_last:1 durability=transient_local", "trace on", "write w 1 1", "trace show",
         "write w 2 2", "trace show", "write w 1 3", "trace show", "drop-if DATA user sn=3 times=2",
         "reader r2 sub2 t2 reliability=reliable history=keep_all durability=transient_local", "trace show", "now",
         "wait-hist r2 1000", "trace show", "now", "take r2", "clear-faults", "now", "release", "trace show", "advance 1000000000", "trace show",
         "now", "wait-hist r2 1050000000", "trace show", "now", "take r2"],
    # VOLATILE late joiner and wait-hist on it
    H + ["writer w pub t1 reliability=reliable history=keep_all durability=transient_local", "trace on", "write w 1 1", "trace show",
         "reader r2 sub2 t2 reliability=reliable history=keep_all", "trace show", "now", "wait-hist r2 1000", "trace show", "now",
         "write w 2 2", "trace show", "take r2"],
    # two TRANSIENT_LOCAL writers, the catch-up from the second one held: wait_for_historical_data must wait for BOTH
    ["participant P1", "participant P2", "participant P3", "topic t1 P1 T ki", "topic t2 P2 T ki", "topic t3 P3 T ki", "publisher pub P1",
     "subscriber sub2 P2", "publisher pub3 P3", "trace on",
     "writer w pub t1 reliability=reliable history=keep_all durability=transient_local", "trace show", "write w 1 1", "trace show",
     "writer w2 pub3 t3 reliability=reliable history=keep_all durability=transient_local", "trace show", "write w2 21 2", "trace show",
     "hold DATA user from=P3", "reader r2 sub2 t2 reliability=reliable history=keep_all durability=transient_local", "trace show",
     "now", "wait-hist r2 450000000", "trace show", "now", "take r2", "clear-faults", "now", "release", "trace show", "advance 1000000000",
     "trace show", "now", "wait-hist r2 1050000000", "trace show", "now", "take r2"],
    # a TRANSIENT_LOCAL reader without any matched writer: answered at once
    H + ["trace on", "reader r2 sub2 t2 reliability=reliable history=keep_all durability=transient_local", "trace show", "now",
         "wait-hist r2 250000000", "trace show", "now", "take r2"],
    # D-rtps-4 (open): empty history: no heartbeat, wait_for_historical_data never completes
    H + ["writer w pub t1 reliability=reliable history=keep_all durability=transient_local", "trace on",
         "reader r2 sub2 t2 reliability=reliable history=keep_all durability=transient_local", "trace show", "clear-faults", "now",
         "wait-hist r2 2000000000", "trace show", "now", "take r2"],
    # D-rtps-2 (open): DATA addressed to the TRANSIENT_LOCAL reader is accepted by its VOLATILE sibling
    H + ["writer w pub t1 reliability=reliable history=keep_all durability=transient_local", "trace on", "write w 1 10", "trace show",
         "write w 2 20", "trace show", "hold DATA user", "hold GAP user",
         "reader r2 sub2 t2 reliability=reliable history=keep_all durability=transient_local", "trace show",
         "reader v2 sub2 t2 reliability=reliable history=keep_all", "trace show", "release #23 #24", "trace show", "clear-faults", "now", "release",
         "trace show", "advance 1000000000", "trace show", "take v2", "take r2"],
    # D-rtps-2 (open): the GAP for the VOLATILE sibling makes the TRANSIENT_LOCAL reader skip its history
    H + ["writer w pub t1 reliability=reliable history=keep_all durability=transient_local", "trace on", "write w 1 10", "trace show",
         "write w 2 20", "trace show", "hold DATA user",
         "reader r2 sub2 t2 reliability=reliable history=keep_all durability=transient_local", "trace show",
         "reader v2 sub2 t2 reliability=reliable history=keep_all", "trace show", "clear-faults", "now", "release", "trace show",
         "advance 1000000000", "trace show", "now", "wait-hist r2 1050000000", "trace show", "now", "take v2", "take r2"],
]


def oracle_rtps(case, out):
    v = [x for x in RC.safety_oracle(case, out, check_skip=False)
         if x["cause"] in ("old-sample-to-volatile", "best-effort-ignores-first-relevant", "panic")]
    return RC.attribute(case, v + D.protocol_oracle(case, out, "hist"))


def oracle(case, out):
    if case.lines and case.lines[0].startswith("cfg"):
        return oracle_rtps(case, out)
    return D.c04_oracle(case, out)


def run(ctx):
    r = ctx.rng
    quick = ctx.tier == "quick"
    cfg = RC.preflight(ctx)
    cases = D.protocol_cases(r, cfg, 300 if quick else 2000, CORPUS_RTPS)
    RC.count_ops(ctx, cases)
    ctx.differential("rtps", cases, nontrivial=RC.nontrivial_system, oracle=oracle_rtps)
    dcases = [Case(list(c), {"kind": "corpus"}) for c in CORPUS_DSIM]
    for k in range(400 if quick else 1500):
        dcases.append(D.gen_c04(r, long=(not quick and k % 6 == 0)))
    for k in range(200 if quick else 800):
        dcases.append(D.gen_c04_two_writers(r))
    for c in dcases:
        for l in c.lines:
            t = l.split()
            if t[0] not in ("trace", "now"):
                ctx.count("dsim:" + t[0])
    D.differential(ctx, dcases, D.c04_nontrivial, D.c04_oracle)
    for v in ctx.violations:
        ctx.count("oracle:" + str(v.get("cause")))


TECHNIQUE = ("Lean 4 invariants over all step lists of the RTPS protocol model + the reader-side wait-list automaton + differential "
             "correspondence (rtps engine; trace-driven on the deterministic full-stack simulator dsim)")
LEVEL_TEXT = ("Kernel-checked Lean theorems. For EVERY step list of the protocol model: every delivered change has a sequence number above "
              "first_relevant_sample_seq_num (C04_volatile_never_old; first_relevant = highest held number at the first match for a VOLATILE "
              "reader, C04_first_relevant_at_match), no such change is ever in flight, requested or buffered (C04_never_sent_old); "
              "is_historical_data_received implies that everything the newest heartbeat announced was delivered or is gone "
              "(C04_hist_received_sound). Reader-side wait list (Model/AckWait.lean): a wait_for_historical_data caller is answered Ok only "
              "when is_historical_data_received holds, never for a VOLATILE reader, and is never lost (C04_wait_hist_sound, C04_wait_hist_kept). "
              "PARTIAL: the liveness clause (C04_tl_gets_history_statement: a late reliable TRANSIENT_LOCAL reader ends with the retained "
              "history) is stated, not proved; the oracle checks it on the full stack after lossy catch-up (KEEP_ALL / KEEP_LAST 1-3 over 1-3 "
              "instances). Open finding D-rtps-2: with two readers of one writer in ONE participant a VOLATILE reader accepts DATA meant for its "
              "TRANSIENT_LOCAL sibling, and the sibling skips its history through the GAP meant for the VOLATILE one; the theorems are about "
              "one reader per participant. Tied to the code by the rtps engine and by dsim scenarios whose wait-hist answers and times, "
              "takes and reader ACKNACKs are predicted by the compiled model from the observed datagram order.")
LEVEL_NOTE = ("Trusted: Lean kernel; Model/Rtps.lean, Model/AckWait.lean; harness/src/bin/rtps.rs; the dsim simulator and interpreter; event "
              "extraction and oracles of vlib/dcps_wait_common.py (trace-driven: network, worker schedule, discovery and the writer's history "
              "are observed, not predicted). KEEP_LAST retention itself is C27's subject; here the oracle recomputes the retained history.")
DESIGN_REF = "DESIGN.md section 5 C04"
