"""C38: set_fragment_size accepts exactly 8..=65000; a rejection keeps the previous setting."""
from vlib.core import Case

ENGINE = "time"
RULE = ("call sequences of 1..6 set_fragment_size calls from the default setting, values from boundary classes "
        "(0,1,7,8,9,64999,65000,65001,2^16,2^32,usize::MAX, random in/out of range); every case counts as non-trivial; "
        "distinct by canonical op line")
ASSUMPTIONS = ["previous settings are those reachable through the public API (default 1344 and accepted values)"]
LO, HI, DEFAULT = 8, 65000, 1344


def gen_val(r):
    c = r.below(10)
    if c < 5:
        return r.choice([0, 1, 7, 8, 9, 64999, 65000, 65001, 65535, 65536, 2**32 - 1, 2**32, 2**64 - 1, 1344])
    if c < 8:
        return r.range(8, 65000)
    return r.range(65001, 2**64 - 1)


def oracle(case, out):
    vals = [int(x) for x in case.lines[0].split()[1:]]
    o = out[0].split() if out else []
    viol = []
    cur = DEFAULT
    if len(o) != len(vals) + 1:
        return [{"what": "call sequence crashed", "op": case.lines[0], "got": out[:1]}]
    for i, v in enumerate(vals):
        ok = LO <= v <= HI
        if ok:
            cur = v
        exp = f"{'ok' if ok else 'bad'}:{cur}"
        if o[i] != exp:
            viol.append({"what": f"call {i} set_fragment_size({v}): expected {exp}, got {o[i]}", "op": case.lines[0]})
            break
    return viol


def run(ctx):
    r = ctx.rng
    n = 3000 if ctx.tier == "quick" else 100000
    cases = [Case(["fragseq 7"]), Case(["fragseq 7 100"]), Case(["fragseq 65001 8 65000 0"])]
    for _ in range(n):
        k = r.range(1, 6)
        cases.append(Case(["fragseq " + " ".join(str(gen_val(r)) for _ in range(k))]))
    for c in cases:
        ctx.count(f"len{len(c.lines[0].split()) - 1}")
    ctx.differential(ENGINE, cases, oracle=oracle, shrink=False)

LEVEL_TEXT = ("Kernel-checked Lean theorem C38_range for every previous setting and every requested size (accepted iff "
              "8<=n<=65000; rejection keeps the old value) plus the call-sequence invariant C38_setting_in_range by "
              "induction over arbitrary call lists and the exact characterisation C38_last_accepted (after any call list from any previous setting the setting is the argument of the last in-range call, the previous setting if there was none); the model is tied to RtpsUdpTransportParticipantFactory by running "
              "thousands of boundary-biased call sequences on both and comparing every intermediate result.")
LEVEL_NOTE = "Trusted: Lean kernel; 3-line model setFragmentSize in Model/Time.lean; differential harness over the public API (usize = u64)."
TECHNIQUE = "Lean 4 theorem + differential correspondence over call sequences"
DESIGN_REF = "DESIGN.md section 5 C38"
