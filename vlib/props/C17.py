"""C17: participant discovery, domain isolation and lease expiry (full stack on the deterministic simulator `dsim`)."""
import os
from vlib.core import Case
from vlib.dsim_common import dsim_env
from vlib.spdp_common import *

BINS = ["dsim", "spdp"]
RULE = ("three scenario families on the simulator, hand-written corpus first (incl. ignore - dispose - late copy of the announcement). A: one observed participant and a stream of FORGED SPDP "
        "announcements (real announcement bytes with patched GUID, domain id - other/absent/equal -, lease 0 ns...100 s; tag via "
        "configuration), ignore_participant and advances biased to the exact expiry instant of a listed participant (-1 ns, 0, +1 ns, "
        "+2 ns, + one worker period). B: 2-4 real participants with mixed domain ids and tags, announcement period 5 s / 2 s / 1000 s, "
        "the next 1-3 announcements of a participant lost, silent death, deletion, ignoring, late joiners, advances around the 100 s lease. "
        "C: a real participant whose first announcement is held, so that genuine copies with its GUID can be delivered late: random order of "
        "ignore / delete (dispose) / silence / time with late copies in between and afterwards, a third participant ignoring or not. "
        "After every event every live participant's discovered-participant list is read. Non-trivial: some participant listed somebody "
        "besides itself and some list changed later; distinct by op lines")
ASSUMPTIONS = ["the simulator delivers with zero latency and fires timers exactly (a zero delay becomes 1 ns), so a silent participant leaves "
               "the list exactly at lastSeen + lease + 1 ns; on a real clock the bound is lease + one worker period (50 ms), which is what the "
               "oracle allows (C31 covers the timer)",
               "no topics or endpoints exist in these scenarios: SPDP announcements and disposes are the only DATA on the wire, so "
               "`drop-next n DATA from=P` loses exactly the next n announcements of P",
               "forged announcements are real announcement bytes with patched parameter values, delivered to one participant's metatraffic "
               "unicast port (ext op spdp-forge of harness/src/bin/dsim.rs)",
               "the lease every dust-dds participant announces is the constant 100 s (discovery_methods.rs:138); other leases are forged"]


def run(ctx):
    n = 220 if ctx.tier == "quick" else 4000
    cases = [Case(c) for c in CORPUS]
    cases += [gen_case(ctx.rng, ctx.tier) for _ in range(n)]
    for c in cases:
        for l in c.lines:
            ctx.count("op:" + l.split()[0])
    env = dict(os.environ)
    env.update(dsim_env(16, 60000))
    ctx.differential(ENGINE, cases, nontrivial=nontrivial, oracle=oracle, env=env)
    for v in ctx.violations:
        ctx.count("oracle:" + str(v.get("cause")))


LEVEL_TEXT = ("Kernel-checked Lean theorems about the discovered-participant bookkeeping of one participant (Model/Spdp.lean: "
              "add_discovered_participant, the stamp refresh on every received change, remove_stale_participants with its one-at-a-time "
              "loop, remove_discovered_participant, ignore_participant), for ALL states, announcements, times and step sequences: an "
              "announcement with another domain id or tag changes nothing and triggers no answer (C17_isolation, C17_isolation_keys); one with "
              "matching id/tag (or without id) from a non-ignored participant leaves it listed with the announced lease and the reception time (C17_discover); a lease check keeps every "
              "participant heard within its lease and nothing but a stale lease check, ignore or dispose ever removes anybody "
              "(C17_lease_lower, C17_removed_only_by, on states without duplicate keys, which are all reachable states: C17_keys_unique); "
              "after a lease check nobody older than its lease is listed (C17_lease_upper, C17_lease_upper_key: with checks at most p apart "
              "a silent participant is gone by lastSeen + lease + p); an ignored participant is never listed again along any continuation "
              "(C17_ignored_forever); an acceptable re-announcement refreshes the stored entry, so the lease in force is the one announced last (C17_lease_refresh; this was defect D-spdp-1, repaired by fixes/D-spdp-1.patch, regression witness C17_lease_update_old_counterexample). The world around it (Model/SpdpWorld.lean: who announces when - creation, answer to every "
              "new discovery, period -, multicast delivery per domain id, loss, silence, deletion, timers) is tied to the real stack by a "
              "differential run on the simulator in which every discovered-participant list is predicted exactly, including the nanosecond "
              "at which a lease runs out; an independent oracle states isolation, discovery, both lease bounds and ignoring directly on the "
              "implementation's answers.")
LEVEL_NOTE = ("Trusted: Lean kernel; Model/Spdp.lean + Model/SpdpWorld.lean (hand transcription; zero-latency network and exact timers are the "
              "simulator's); the dsim simulator and interpreter (snapshot of another builder) with the ext ops `ignore` and `spdp-forge`; the "
              "pass-through wrapper harness/src/bin/spdp.rs; the Python oracle. The upper bound on a real clock is conditional on the worker's "
              "timer (C31).")
TECHNIQUE = "Lean 4 theorems over all states and step sequences of the participant-list automaton + differential correspondence of full-stack scenarios on the deterministic simulator"
DESIGN_REF = "DESIGN.md section 5 C17"
