"""C22: instance state, view state and generation counts follow the DDS instance life cycle."""
from vlib.hist_common import *

RULE = ("interleavings of write/dispose/unregister/dispose+unregister from 1-3 writers over 1-3 instances with reads/takes in "
        "between; the reference DDS instance automaton (instance_state x view_state x two generation counters) is run in the "
        "oracle and compared with the instance states after every op and with every returned SampleInfo; non-trivial as for hist")
ASSUMPTIONS = ["shared ownership, no time filter (those interactions are C24/C25)",
               "a rejected sample (resource limits) is not counted as received by the reference automaton"]
PROFILE = Profile(own=["shared"], minsep=[0], limits=False, kinds=["A"] * 5 + ["D", "D", "U", "U", "DU"], ninst=(1, 3), p_read=35,
                  full_masks=80)


def oracle(case, out):
    q = parse_qos(case.lines[0]) if case.lines and case.lines[0].startswith("qos") else None
    if q is None:
        return []
    viol = []
    ref = {}   # inst -> dict(st, view, dgc, nwgc, writers:set)
    born, flagged = {}, set()   # data id -> (dgc, nwgc) of the generation it was received in
    for i, t, o, before, after in walk(case, out):
        if o in ("PANIC", "POISONED") or o.startswith("CRASH"):
            viol.append({"what": f"op {i} {' '.join(t)} panicked", "at": i}); break
        if t[0] == "add":
            w, inst, kind = int(t[1]), int(t[2]), t[3]
            if o == "error":
                if inst in ref:
                    viol.append({"what": f"op {i}: state change for known instance {inst} answered error", "at": i})
                continue
            if o != "added":
                continue
            multi = False
            if inst not in ref:
                if kind in ("A", "F"):
                    ref[inst] = {"st": "A", "view": "new", "dgc": 0, "nwgc": 0, "writers": {w}}
                else:
                    viol.append({"what": f"op {i}: not-alive change created instance {inst}", "at": i}); continue
            else:
                x = ref[inst]
                if kind == "A":
                    x["writers"].add(w)
                    if x["st"] == "D":
                        x["st"] = "A"; x["dgc"] += 1; x["view"] = "new"
                    elif x["st"] == "W":
                        x["st"] = "A"; x["nwgc"] += 1; x["view"] = "new"
                elif kind == "F":
                    x["writers"].add(w)
                elif kind in ("D", "DU"):
                    if kind == "DU":
                        x["writers"].discard(w)
                    if x["st"] == "A":
                        x["st"] = "D"
                elif kind == "U":
                    x["writers"].discard(w)
                    if x["st"] == "A":
                        if not x["writers"]:
                            x["st"] = "W"
                        else:
                            multi = True
            if inst in ref and kind in ("A", "F"):
                born[t[6]] = (ref[inst]["dgc"], ref[inst]["nwgc"])   # generation the sample belongs to
            if after is not None:
                for s_ in after[0]:
                    if s_["data"] in born and s_["kind"] in ("A", "F") and (s_["dgc"], s_["nwgc"]) != born[s_["data"]] and s_["data"] not in flagged:
                        flagged.add(s_["data"])
                        viol.append({"what": f"op {i}: sample {s_['data']} is stored with generation counts ({s_['dgc']},{s_['nwgc']}), the life cycle says {born[s_['data']]} at the time it was received", "at": i})
                got = after[1].get(inst)
                x = ref[inst]
                if got is None:
                    viol.append({"what": f"op {i}: instance {inst} unknown after an accepted change", "at": i}); continue
                if multi and got["st"] == "W":
                    viol.append({"what": f"op {i}: instance {inst} became NOT_ALIVE_NO_WRITERS although writers {sorted(x['writers'])} are still registered",
                                 "at": i, "cause": "unregister-by-one-of-several-writers"})
                    x["st"] = "W"
                for f in ("st", "dgc", "nwgc"):
                    if got[f] != x[f]:
                        viol.append({"what": f"op {i}: instance {inst} {f} = {got[f]}, life cycle says {x[f]}", "at": i})
                        x[f] = got[f]
                if got["view"] != x["view"]:
                    viol.append({"what": f"op {i}: instance {inst} view_state = {got['view']}, life cycle says {x['view']} (after {kind})", "at": i,
                                 "cause": "view-new-on-dispose-not-on-rebirth"})
                    x["view"] = got["view"]
        if t[0] in ("read", "take", "readni", "takeni"):
            kind_, infos = parse_infos(o)
            if kind_ == "ok":
                for inf in infos:
                    x = ref.get(inf["inst"])
                    if x is None:
                        continue
                    if inf["valid"] and inf["data"] in born and (inf["dgc"], inf["nwgc"]) != born[inf["data"]] and inf["data"] not in flagged:
                        flagged.add(inf["data"])
                        viol.append({"what": f"op {i}: SampleInfo of {inf['data']} carries generation counts ({inf['dgc']},{inf['nwgc']}), the life cycle says {born[inf['data']]}", "at": i})
                    if inf["st"] != x["st"] or inf["view"] != x["view"]:
                        viol.append({"what": f"op {i}: SampleInfo of {inf['data']} says ({inf['st']},{inf['view']}), life cycle says ({x['st']},{x['view']})", "at": i})
                for h in set(inf["inst"] for inf in infos):
                    if h in ref:
                        ref[h]["view"] = "old"
    return viol


def run(ctx):
    run_hist(ctx, PROFILE, oracle, 1500, 30000)

TECHNIQUE = "Lean 4 refinement to the DDS instance automaton + differential correspondence with DataReaderEntity"
LEVEL_TEXT = "Kernel-checked Lean refinement: for every received change and every outcome (stored, filtered, rejected) the reader's instance_state and both generation counters make exactly one step of the DDS instance automaton (C22_instance_state_refines), the double update_state of the code is idempotent (C22_update_twice), unknown not-alive changes are ignored. The view_state clause fails on the code as it is (finding D28, Lean witnesses C22_view_*_counterexample) as does multi-writer unregistration (D51); both are reproduced on the real reader by the oracle, which runs the reference automaton against every dump and SampleInfo."
LEVEL_NOTE = 'Trusted: Lean kernel (axioms audited: propext, Classical.choice, Quot.sound at most); the hand-written model Model/ReaderHist.lean of data_reader_entity.rs / user_defined_data_reader.rs (handles as Nat, times as total ns, Vec as List); the hist harness that drives the real DataReaderEntity<()> / UserDefinedDataReader through the cfg(dust_dds_verif) re-export and prints canonical lines; the Python oracle. The differential run validates the model on sampled op sequences only; the theorems are about the model.'
DESIGN_REF = 'DESIGN.md section 5 C22'
