"""C36: entity deletion follows the DDS preconditions."""
from vlib.core import Case
from vlib.tree_common import *

RULE = ("random create/delete/delete-from(wrong parent)/delete_contained_entities/enable/get_qos histories over 1-3 participants "
        "with publishers, subscribers, topics, content-filtered topics, writers and readers; deletes hit live, non-empty, "
        "already deleted and never-created entities; a failed delete is followed by get_qos probes (state unchanged); "
        "non-trivial = at least 3 entities created and at least one delete; distinct by canonical op lines")
ASSUMPTIONS = ["the tree under check contains fixes/D-tree-1.patch and fixes/D-tree-2.patch (and fixes/D40.patch for the uniqueness invariant in both profiles); the behaviour before is kept as Model/TreeOld.lean + the C36_*_counterexample theorems",
               "PublisherAsync/SubscriberAsync::delete_contained_entities are todo!() at the pinned commit and are never called",
               "a Topic object is identified by (participant, name): re-creating a topic of the same name revives old Topic objects (API design, not counted)",
               "deleting a writer/reader through a publisher/subscriber that is not its parent: the DDS rule is PreconditionNotMet, the code answers AlreadyDeleted; both accepted (not part of the property statement)"]
PROFILE = Profile(loops=3, nops=(10, 40), cft=5,
                  weights={"delete": 26, "delete_from": 7, "delete_contained": 4, "probe": 14, "inst": 3, "handle": 1})
CORPUS = [
    # a filter expression that create_contentfilteredtopic does not support is refused (BadParameter) and creates nothing
    ["participant P", "topic t P A ki", "cft c0 P t F - value > 5", "cft c1 P t F x value <= %0", "cft c2 P t F 10 nosuch <= %0",
     "cft c3 P t F 10 value <= %0", "delete t", "delete c3", "delete t", "delete P"],
    # regression D-tree-1 (fixed): a content-filtered topic can be deleted / is cleared, the participant is deletable
    ["participant P", "topic t P A ki", "cft c P t F 10 value <= %0", "delete c", "delete c", "delete-contained P", "delete P"],
    ["participant P", "topic t P A ki", "cft c P t F 10 value <= %0", "delete P", "delete-contained P", "delete c", "delete P"],
    # regression D-tree-2 (fixed): a topic used through / referred to by a content-filtered topic is protected
    ["participant P", "topic t P A ki", "cft c P t F 10 value <= %0", "subscriber sb P", "reader r sb c", "delete t", "probe r",
     "delete c", "delete r", "delete t", "delete c", "delete t", "delete c", "delete sb", "delete P"],
    ["participant P", "topic t P A ki", "topic u P B kb", "cft c1 P t F 10 value <= %0", "cft bad P u F 10 value <= %0", "cft c2 P u F 7 id = %0", "subscriber sb P",
     "reader r sb c2", "delete u", "delete t", "delete c1", "delete r", "delete c2", "delete t", "delete u", "delete sb", "delete P"],
    ["participant P", "publisher pb P", "subscriber sb P", "topic t P A ki", "writer w pb t", "reader r sb t",
     "delete pb", "delete sb", "delete t", "delete P", "probe pb", "probe w", "delete w", "delete w", "probe w", "write w 1 00",
     "delete pb", "probe pb", "writer w2 pb t", "delete r", "delete sb", "delete t", "probe t", "delete P", "probe P", "publisher x P"],
    # a topic used by a writer (reader) of ANY publisher (subscriber) is protected: the user sits in the first / middle one, the
    # last one is empty or uses another topic (seeded change C36_b: a flag overwritten per publisher)
    ["participant P", "topic t P A ki", "topic u P B ki", "publisher pb1 P", "publisher pb2 P", "writer w pb1 t", "writer w2 pb2 u",
     "delete t", "probe t", "probe w", "delete u", "publisher pb3 P", "delete t", "delete w2", "delete u", "delete t", "delete w", "delete t", "probe t"],
    ["participant P", "topic t P A ki", "topic u P B ki", "subscriber sb1 P", "subscriber sb2 P", "subscriber sb3 P", "reader r sb2 t", "reader r2 sb3 u",
     "delete t", "probe t", "probe r", "delete r2", "delete t", "delete u", "delete r", "delete t", "probe t"],
    ["participant P", "topic t P A ki", "publisher pb1 P", "publisher pb2 P", "subscriber sb1 P", "subscriber sb2 P", "writer w pb1 t",
     "delete t", "probe w", "reader r sb1 t", "delete w", "delete t", "probe r", "delete r", "delete t"],
    ["participant P", "participant Q", "publisher pb P", "delete-from Q pb", "topic t P A ki", "delete-from Q t",
     "delete-contained P", "probe pb", "probe t", "delete P", "delete Q", "delete-contained Q"],
]

oracle = oracle_for("C36")


def run(ctx):
    r = ctx.rng
    n = 140 if ctx.tier == "quick" else 3000
    cases = [Case(list(c)) for c in CORPUS]
    for _ in range(n):
        cases.append(gen_case(r, PROFILE))
    count_ops(ctx, cases)
    outs = ctx.differential(ENGINE, cases, nontrivial=nontrivial, oracle=oracle)
    count_answers(ctx, outs)


TECHNIQUE = "Lean 4 theorems per clause over arbitrary states of the entity-tree model + differential correspondence through the deterministic simulator"
LEVEL_TEXT = ("Kernel-checked Lean theorems, each about one step from an ARBITRARY state of the entity-tree model (hence every step of every "
              "history): C36_publisher_with_writers, C36_subscriber_with_readers, C36_participant_with_entities, C36_topic_used_by_writer, "
              "C36_topic_used_by_reader, C36_topic_referred_by_cft, C36_topic_used_through_cft, C36_cft_used_by_reader, C36_wrong_parent "
              "(PreconditionNotMet and the state is returned unchanged); C36_absent_* (every call on an entity that no longer resolves answers "
              "AlreadyDeleted and changes nothing) together with C36_deleted_*_is_gone (after a successful delete the handle resolves to nothing; "
              "uses the handle-uniqueness invariant, which every reachable state satisfies: C36_reachable_good); "
              "C36_delete_contained_then_delete (delete_contained_entities leaves ANY participant empty and deletable). The two pre-patch "
              "failures are kept as regression witnesses on Model/TreeOld.lean (C36_delete_contained_counterexample, "
              "C36_topic_in_use_counterexample). The model predicts the return code of every op of random histories run on the real code.")
LEVEL_NOTE = ("Trusted: Lean kernel; the hand-written model of participant_methods.rs / publisher_methods.rs / subscriber_methods.rs / "
              "dcps_participant_factory.rs / dcps_mail_handler.rs; the dsim harness and the Python shadow oracle (an independent statement of "
              "the DDS rules that follows only the implementation's answers).")
DESIGN_REF = "DESIGN.md section 5 C36"
LEAN_MODULES = ["DustVerif.Props.C36"]
