"""C25: TIME_BASED_FILTER - accepted samples of an instance are at least minimum_separation apart; no over-filtering."""
from vlib.hist_common import *

RULE = ("readers with minimum_separation in {5,10,25,inf} ns-scale units, source stamps increasing, out-of-order and equal, "
        "reads/takes in between; non-trivial as for hist")
ASSUMPTIONS = ["'presented' = accepted into the reader cache (everything accepted can be presented by a later read)",
               "separation is measured on source timestamps, samples without a source timestamp are exempt (as coded)"]
PROFILE = Profile(own=["shared"], minsep=[5, 10, 25, "inf", 0], kinds=["A"] * 12 + ["D"], limits=False, depths=["all", "all", 3, 4], ninst=(1, 2))
CORPUS = [["qos depth=all ms=- mi=- mspi=- order=rcv own=shared minsep=3 enabled=1", "add 1 5 A 10 100 01", "dump", "add 1 5 A 8 110 02", "dump"],
          ["qos depth=all ms=- mi=- mspi=- order=rcv own=shared minsep=3 enabled=1", "add 1 5 A 10 100 01", "dump", "take -1 3 3 7 -", "dump",
           "add 1 5 A 11 110 02", "dump"]]


def oracle(case, out):
    q = parse_qos(case.lines[0]) if case.lines and case.lines[0].startswith("qos") else None
    if q is None or q["minsep"] == 0:
        return []
    sep = q["minsep"]
    viol = []
    accepted = {}    # inst -> list of (sts, data)
    for i, t, o, before, after in walk(case, out):
        if o in ("PANIC", "POISONED") or o.startswith("CRASH"):
            viol.append({"what": f"op {i} {' '.join(t)} panicked", "at": i}); break
        if t[0] != "add":
            continue
        inst = int(t[2]); sts = None if t[4] == "-" else int(t[4])
        acc = accepted.setdefault(inst, [])
        stored = [s for s in before[0] if s["inst"] == inst]
        if o == "added":
            if sts is not None:
                for (a, d) in acc:
                    if a is not None and (sep is None or abs(sts - a) < sep):
                        if a > sts:
                            cause = "out-of-order-arrival-not-compared"
                        elif not any(s["data"] == d for s in stored):
                            cause = "compared-sample-no-longer-stored"
                        else:
                            cause = None
                        viol.append({"what": f"op {i}: sample with stamp {sts} accepted for instance {inst} although {d} with stamp {a} was accepted before (minimum_separation {sep})",
                                     "at": i, "cause": cause})
                        break
            acc.append((sts, t[6]))
        elif o == "notadded":
            far = sts is None or all(a is None or (sep is not None and abs(sts - a) >= sep) for (a, _) in acc)
            if far and acc is not None:
                viol.append({"what": f"op {i}: sample with stamp {sts} filtered although it is >= {sep} from every accepted sample of instance {inst}", "at": i})
    return viol


def run(ctx):
    run_hist(ctx, PROFILE, oracle, 1500, 30000, CORPUS)

TECHNIQUE = "Lean 4 theorems on the time filter of add_reader_change + differential correspondence"
LEVEL_TEXT = 'Kernel-checked Lean theorems: an accepted sample is at least minimum_separation after every stored sample of its instance with a stamp not after it (C25_separation_partial) and a sample that far from all of them is never filtered (C25_no_overfilter). The full property fails on the code for out-of-order arrival and after take/replacement (findings D31a/D31b, Lean witness C25_out_of_order_counterexample), reproduced on the real reader by the oracle.'
LEVEL_NOTE = 'Trusted: Lean kernel (axioms audited: propext, Classical.choice, Quot.sound at most); the hand-written model Model/ReaderHist.lean of data_reader_entity.rs / user_defined_data_reader.rs (handles as Nat, times as total ns, Vec as List); the hist harness that drives the real DataReaderEntity<()> / UserDefinedDataReader through the cfg(dust_dds_verif) re-export and prints canonical lines; the Python oracle. The differential run validates the model on sampled op sequences only; the theorems are about the model.'
DESIGN_REF = 'DESIGN.md section 5 C25'
