"""C02: best-effort delivery never duplicates, reorders or corrupts samples (safety only)."""
from vlib.rtps_common import *

RULE = ("a real RtpsStatefulWriter and a best-effort RtpsStatefulReader; 1-7 writes with payload sizes 0,1,f-1,f,f+1,2f,3f+1,... for "
        "f in {8,9,12,16,33,100,1000}, removals, late joiners, re-announcements of the match, and up to 40 adversary directives "
        "(deliver any in-flight datagram, drop, duplicate) incl. fragments of one sample interleaved with later DATA; plus forged-HEARTBEAT / forged-GAP cases (the same system cases with 1-3 HEARTBEATs of arbitrary first / last / flags and rising or stale counts, or GAPs of arbitrary start / base / bits, injected at the reader under the writer GUID: directives forgehb / forgegap, model side Reader.onHb / Reader.onGap) and GAP-replay cases "
        "(late joiner on a history with holes, a subset or all of the DATA and GAP datagrams duplicated, copies delivered last or first); "
        "non-trivial = >= 2 writes or a fragmented sample, >= 1 fault directive, >= 1 delivery")
ASSUMPTIONS = ["the network does not forge datagrams (forgery is C06)",
               "one writer and one reader; sequence numbers assigned consecutively by the DCPS layer",
               "the delivered model is the tree with fixes/D43.patch (re-announcement keeps the proxies) and fixes/D4_D42.patch; "
               "on a tree without them the model variant is selected from the source text and the oracle reports D43"]

CORPUS = [
    # D43 exemplar: re-announcement, no fault at all
    ["init be tl 8", "match", "write x01", "write x02", "flush", "match", "write x03", "flush"],
    # a late duplicate of an old datagram after the re-announcement
    ["init be vol 8", "match", "write x01", "write x02", "dup 0", "deliver 0", "deliver 0", "match", "deliver 0", "write x03", "flush"],
    # fragments of sn 1 buffered while DATA 2 arrives: sn 1 must not be resurrected
    ["init be vol 8", "match", "write p20.3", "write x0102", "deliver 0", "deliver 2", "flush"],
    # D4 exemplar (belongs to C04; here it is a correspondence case): a late best-effort VOLATILE reader gets old samples
    ["init be vol 8", "write x01", "write x02", "match", "write x03", "flush"],
    # a late copy of an old GAP must not rewind the writer proxy: history {1,2,4,5} (3 removed), late best-effort TRANSIENT_LOCAL
    # reader, every datagram duplicated, originals first: the copies of DATA 4 and 5 behind the second GAP(3) must be refused
    ["init be tl 8", "write x01", "write x02", "write x03", "write x04", "write x05", "remove 3", "match", "tick 1",
     "dup 0", "dup 1", "dup 2", "dup 3", "dup 4", "flush"],
    # the same for a VOLATILE late joiner: GAP(1..3) duplicated after 4, 5 were delivered
    ["init be vol 8", "write x01", "write x02", "write x03", "match", "write x04", "write x05", "dup 0", "flush", "dup 1", "dup 2"],
    # forged HEARTBEATs reaching a best-effort reader (the writer never sends one): first below / above what was seen, copies of
    # delivered DATA afterwards must be refused (C02_forged_hb_no_duplicate)
    ["init be tl 8", "match", "write x01", "write x02", "dup 0", "dup 1", "deliver 0", "deliver 0", "forgehb 1 50 1000 f l", "flush",
     "forgehb 0 0 1001 F l", "write x03", "dup 0", "flush"],
    ["init be vol 8", "match", "write p20.3", "write x0102", "deliver 1", "forgehb 5 9 7 f l", "flush", "forgehb 1 2 8 F L", "write x03", "flush"],
    # a forged HEARTBEAT whose first lies below a first_available_seq_num the reader had raised itself (jump to sn 2), with an old
    # DATA and a copy of a delivered DATA still in flight: neither may be delivered afterwards
    ["init be vol 8", "match", "write x01", "write x02", "write x03", "deliver 1", "dup 1", "deliver 1", "forgehb 1 3 9 F l", "flush"],
    # forged GAPs: an old range below what was delivered, a range that jumps ahead, bits far out in the window; copies of delivered
    # DATA stay refused (C02_gap_never_rewinds), DATA behind the forged range is lost, which best-effort delivery permits
    ["init be tl 8", "match", "write x01", "write x02", "write x03", "dup 0", "dup 1", "deliver 0", "deliver 0", "forgegap 0 1 -",
     "forgegap 1 2 0,1", "flush", "forgegap 2 9 3,200", "write x04", "flush", "forgehb 1 4 3 f l", "flush"],
    # D42 exemplar (loss, not a C02 violation): the sample after a gap is never sent to a best-effort reader
    ["init be tl 8", "write x01", "write x02", "write x03", "remove 2", "match", "tick 1", "flush"],
]


def oracle(case, out):
    # first-relevant (VOLATILE) belongs to C04
    return attribute(case, [v for v in safety_oracle(case, out, check_skip=False)
                            if v["cause"] != "best-effort-ignores-first-relevant"])


def run(ctx):
    r = ctx.rng
    cfg = preflight(ctx)
    cases = [Case([cfg_line(cfg)] + ops, {"rel": False}) for ops in CORPUS]
    n = 400 if ctx.tier == "quick" else 8000
    for k in range(n):
        cases.append(gen_system_case(r, cfg, rel=False, rematch=(k % 4 == 0)))
    for k in range(n // 3):
        cases.append(gen_gap_replay_case(r, cfg, rel=False))
    # the same system cases with forged HEARTBEATs spliced in (any first / last / flags, counts rising or stale)
    for k in range(n // 2):
        c = gen_system_case(r, cfg, rel=False, rematch=(k % 4 == 0))
        lines = list(c.lines)
        cnt = 0
        for _ in range(r.range(1, 4)):
            pos = r.range(2, len(lines))
            cnt = cnt + r.range(1, 500) if r.range(0, 4) else r.range(0, 3)
            if r.range(0, 2) == 0:
                # a GAP the writer never sent: any start / base, up to 6 set bits anywhere in the 256-bit window
                offs = sorted(set(r.range(0, 9) if r.range(0, 3) else r.range(0, 255) for _ in range(r.range(0, 6))))
                lines.insert(pos, f"forgegap {r.range(0, 12)} {r.range(0, 14)} {','.join(map(str, offs)) or '-'}")
            else:
                lines.insert(pos, f"forgehb {r.range(0, 12)} {r.range(0, 40)} {cnt} {r.choice(['F', 'f'])} {r.choice(['L', 'l'])}")
            if r.range(0, 1):
                # keep copies of earlier datagrams in flight and deliver everything right after the forged HEARTBEAT
                lines.insert(pos + 1, "flush")
                for _ in range(r.range(1, 3)):
                    lines.insert(r.range(2, pos), f"dup {r.range(0, 7)}")
        cases.append(Case(lines, {"rel": False}))
    count_ops(ctx, cases)
    ctx.differential(ENGINE, cases, nontrivial=nontrivial_system, oracle=oracle)


TECHNIQUE = "Lean 4 invariant over arbitrary step lists (writer, reader, adversary) + differential correspondence with the real RTPS endpoints"
LEVEL_TEXT = ("Kernel-checked Lean theorem C02_subsequence: for EVERY step list of the system model (writes of any payload, removals, ticks, "
              "match and re-match, and an adversary that delivers any in-flight datagram, drops and duplicates) the best-effort reader's "
              "delivered list is a sub-list of the publication log - strictly increasing sequence numbers, each entry equal to the published "
              "change, payload included, fragmented or not (C02_frag_no_resurrect for stale fragments; C02_gap_never_rewinds and C02_hb_never_reopens: C02_forged_gap_no_duplicate / C02_forged_hb_no_duplicate (in every reachable state a GAP / HEARTBEAT of any content followed by a copy of the DATA of any delivered sample leaves the delivered list as it was); no GAP and no HEARTBEAT, whatever its first/last/count/flags - also one whose first lies below what the reader has seen - changes the delivered list, lowers highest_received_change_sn or makes a DATA of an already received number acceptable again; the HEARTBEAT branch of the model is validated against the code on reliable readers (C01/C03 runs), by forged HEARTBEATs in the C06 runs and, for the best-effort reader, by the forgehb directive of this check). Proved for the tree with "
              "fixes/D43.patch; the as-is re-announcement witness is C02_rematch_duplicates_asis_counterexample. Tied to the code by "
              "differential runs of every emitted datagram (all fields) and the delivered list after every step.")
LEVEL_NOTE = ("Trusted: Lean kernel; Model/Rtps.lean (one writer, one reader, Nat sequence numbers and counts); harness/src/bin/rtps.rs with its "
              "transcription of the GAP/HEARTBEAT glue (source-hash guarded); Python oracle. No liveness is claimed (none is stated).")
DESIGN_REF = "DESIGN.md section 5 C02"
LEAN_MODULES = ["DustVerif.Props.C02"]
