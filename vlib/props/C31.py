"""C31: the DDS worker never oversleeps its periodic duties: every delay it requests from the runtime timer is at most the
poke period (50 ms), whatever is overdue when the sleep is computed; a write blocked with a finite max_blocking_time
returns Timeout no later than max_blocking_time plus one poke period."""
from vlib.worker_common import *

ENGINE = "worker"
BINS = ["dsim", "worker"]
RULE = ("dsim scenarios (real code, virtual clock, every Timer::delay request recorded) from six families that bring each time_until_* "
        "value to and past zero: offered deadlines (1-3 instances, periods 20 ms .. 1 s incl. 50 ms +-1 ns, source timestamps in the past), "
        "requested deadlines (incl. samples dropped by the time-based filter: the D36 exemplar), lifespans, writes blocked by missing "
        "acknowledgements (max_blocking_time 0 .. 260 ms; half of them with a source timestamp before or up to a day after the clock), lease expiry of idle participants (100 s), and the late-timer directive `jump` "
        "on all of them; a case is non-trivial when the worker requested at least one delay other than the poke period; distinct by op lines")
ASSUMPTIONS = ["participant_announcement_interval is set to 1000 s in every scenario, so the announcement timer never comes below the poke period "
               "(its time_until function is clamped at zero in the code itself)",
               "all entities are created at virtual time 0; lease expiry is exercised on idle worlds only",
               "the simulator's timer is exact except for the explicit `jump` directive; a zero delay advances virtual time by 1 ns",
               "Time/Duration arithmetic is exact in the i32-second range (C14)"]

CORPUS = [
    # D36 exemplar: a sample dropped by the time-based filter refreshes the instance stamp but not the ownership stamp
    world(True, "reliability=reliable history=keep_all deadline=1000000000",
          "reliability=reliable history=keep_all deadline=1000000000 tbf=500000000 listener=requested_deadline_missed") +
    ["write w 1 1 ts=0", "advance 400000000", "write w 1 2 ts=400000000", "timers", "advance 2000000000", "timers", "log", "now"],
    # late timer: writer deadline 100 ms, the clock jumps 350 ms
    world(False, "reliability=reliable history=keep_all deadline=100000000 listener=offered_deadline_missed", reader=False) +
    ["write w 1 1", "timers", "jump 350000000", "timers", "advance 300000000", "timers", "log", "status w offered_deadline_missed"],
    # source timestamp three periods in the past
    world(False, "reliability=reliable history=keep_all deadline=100000000 listener=offered_deadline_missed", reader=False) +
    ["advance 1000000000", "timers", "write w 1 1 ts=650000000", "timers", "advance 200000000", "timers", "log"],
    # blocked write
    world(True, "reliability=reliable history=keep_last:1 max_blocking=130000000", "reliability=reliable history=keep_all") +
    ["drop-if ACKNACK user", "write w 1 1", "timers", "now", "write w 1 2", "now", "timers", "write w 1 3", "now", "timers"],
    # blocked writes whose source timestamp is far ahead of / behind the clock: the timeout still counts from the call
    world(True, "reliability=reliable history=keep_last:1 max_blocking=130000000", "reliability=reliable history=keep_all") +
    ["drop-if ACKNACK user", "write w 1 1", "timers", "now", "write w 1 2 ts=10000000000", "now", "timers", "now", "write w 1 3 ts=0", "now", "timers"],
    # lease expiry of idle participants
    [CONFIG, "participant P1", "participant P2", "timers", "advance 99900000000", "timers", "advance 300000000", "timers", "now"],
]


def gen_case(r):
    fam = r.choice(["wdl", "wdl", "rdl", "rdl", "life", "block", "mix", "lease"])
    two = r.chance(2, 3)
    if fam == "lease":
        n = r.range(1, 2)
        l = [CONFIG] + [f"participant P{i + 1}" for i in range(n)] + ["timers"]
        l += [f"advance {r.choice([99900, 99949, 99950, 99999]) * MS}", "timers"]
        l += [f"advance {r.choice([1, 51, 100, 300]) * MS + r.choice([0, 1])}", "timers", "now"]
        return Case(l, {"fam": fam})
    periods = [20 * MS, POKE - 1, POKE, POKE + 1, 60 * MS, 120 * MS, 250 * MS, 1000 * MS]
    d = r.choice(periods)
    keys = r.range(1, 3)
    wq = "reliability=reliable history=keep_all"
    rq = f"reliability={r.choice(['reliable', 'best_effort'])} history=keep_all"
    if fam in ("wdl", "mix"):
        wq += f" deadline={d} listener=offered_deadline_missed"
    if fam == "rdl":
        wq += f" deadline={d}"
        rq += f" deadline={d if r.chance(2, 3) else 2 * d} listener=requested_deadline_missed"
        if r.chance(1, 2):
            rq += f" tbf={r.choice([d // 2, d])}"   # minimum_separation must not exceed the deadline period
    if fam in ("life", "mix"):
        wq += f" lifespan={r.choice([30, 49, 50, 51, 120, 300]) * MS}"
    if fam == "block":
        mb = r.choice([0, 1, 30 * MS, POKE, 130 * MS, 260 * MS])
        wq = f"reliability=reliable history=keep_last:1 max_blocking={mb}"
        rq = "reliability=reliable history=keep_all"
        two = True
    reader = fam in ("rdl", "block") or r.chance(1, 2)
    l = world(two, wq, rq, reader=reader)
    if fam == "block":
        l.append("drop-if ACKNACK user")
    l.append("timers")
    # Catch-up discipline. A duty that is overdue by MORE than one period is caught up one period per worker iteration; how
    # many iterations run at one virtual instant depends on the traffic of that instant (every datagram and every API call
    # wakes the worker), which the model does not predict. So: worlds with traffic (two participants or a reader) are only
    # made late by at most one period (`shallow`), and in a lone-writer world a deep lateness is followed by `advance` before
    # any op that sends a mail. Within these rules every sleep is predicted exactly.
    traffic = two or reader
    t = 0   # virtual time the generator believes in (blocked writes make it a lower bound only; used for `ts=` choices)
    deep = False
    for _ in range(r.range(2, 7)):
        c = r.below(10)
        if deep:
            c = 5
        if c < 4:
            k = r.range(1, keys)
            if fam == "block":
                # the blocking interval counts from the call, whatever source timestamp the sample carries (seeded change C31_b)
                ts = "" if r.chance(1, 2) else f" ts={r.choice([0, 1, 10 ** 10, 3 * 10 ** 9, 86400 * 10 ** 9])}"
                l += ["now", f"write w {k} {r.below(100)}{ts}", "now"]
            else:
                ts = ""
                if r.chance(1, 4):
                    back = r.choice([1, d // 2, d, d + 1] if traffic else [1, d // 2, d, 2 * d + 1, 3 * d + 7])
                    back = min(back, t)
                    ts = f" ts={t - back}"
                    deep = back > d
                l.append(f"write w {k} {r.below(100)}{ts}")
        elif c < 8:
            dt = r.choice([1, d // 2, d - 1, d, d + 1, d + POKE, 2 * d + 1, 3 * d, POKE, 2 * POKE + 1])
            if deep:
                dt = max(dt, 1000)
            l.append(f"advance {dt}")
            t += dt
            deep = False
        else:
            dt = r.choice([1, d // 2, d - 1, d] if traffic else [d + 1, 2 * d + 1, 3 * d + 5, 7 * d, POKE * 3])
            if fam == "block":
                dt = r.choice([1, 10 * MS, POKE])
            l.append(f"jump {dt}")
            t += dt
            deep = dt > d
        if r.chance(1, 2):
            l.append("timers")
    if deep:
        l.append("advance 1000")
    l += ["timers", "log", "now"]
    if fam in ("wdl", "mix"):
        l.append("status w offered_deadline_missed")
    return Case(l, {"fam": fam})


def nontrivial(case, cout):
    for l, o in zip(case.lines, cout):
        if l == "timers" and o.startswith("ok"):
            for t in o.split()[2:]:
                if t.split(":")[1].split("*")[0] != str(POKE):
                    return True
    return False


def oracle(case, out):
    """on the implementation output alone: (1) no requested delay exceeds the poke period; (2) the worker does not spin: no run
    of more than 16 zero sleeps at consecutive nanoseconds; (3) a write that answers Timeout took at least max_blocking_time and at most
    max_blocking_time + poke period of virtual time (measured by the surrounding `now` ops); (4) nothing panics or hangs"""
    viol = []
    mb = None
    for l in case.lines:
        if l.startswith("writer ") and "max_blocking=" in l:
            mb = int(l.split("max_blocking=")[1].split()[0])
    for i, (l, o) in enumerate(zip(case.lines, out)):
        if o in ("PANIC", "HANG", "CRASH", "POISONED") or o.startswith("CRASH"):
            viol.append({"what": f"`{l}` answered {o}", "op": l, "cause": "worker-hang-or-panic" if o in ("HANG", "PANIC") else None})
            break
        if l == "timers" and o.startswith("ok"):
            reqs = parse_timers(o)
            for a, d in reqs:
                if d > POKE:
                    viol.append({"what": f"at +{a} ns the worker asked the timer for {d} ns (poke period {POKE} ns)", "op": l,
                                 "cause": "negative-time-until-cast-to-u64" if d >= 10 ** 18 else "delay-above-poke-period"})
                    break
            zeros, sl = 0, sleeps_of(reqs)
            for (a, d), (a2, d2) in zip(sl, sl[1:]):
                # zero SLEEPS at consecutive nanoseconds (several zero requests at ONE instant are API-call iterations, not a spin;
                # a duty n periods late is legitimately caught up in n zero sleeps, n <= 7 in the generated scenarios)
                zeros = zeros + 1 if (d == 0 and d2 == 0 and a2 == a + 1) else 0
                if zeros > 16:
                    viol.append({"what": f"worker spins: more than 16 zero sleeps at consecutive nanoseconds around +{a} ns", "op": l, "cause": "zero-delay-busy-loop"})
                    break
        if l.startswith("write ") and o == "err:Timeout" and mb is not None and i > 0 and i + 1 < len(out) \
                and case.lines[i - 1] == "now" and case.lines[i + 1] == "now" and out[i - 1].startswith("ok ") and out[i + 1].startswith("ok "):
            took = int(out[i + 1].split()[1]) - int(out[i - 1].split()[1])
            if took > mb + POKE:
                viol.append({"what": f"blocked write returned Timeout after {took} ns, max_blocking_time {mb} ns", "op": l, "cause": "timeout-late"})
            if took < mb:
                viol.append({"what": f"blocked write returned Timeout after {took} ns, before max_blocking_time {mb} ns", "op": l, "cause": "timeout-early"})
    return viol


def count(ctx, c, co):
    ctx.count("fam:" + str(c.meta.get("fam", "corpus")))
    for l, o in zip(c.lines, co):
        if l == "timers" and o.startswith("ok"):
            for t in o.split()[2:]:
                d = int(t.split(":")[1].split("*")[0])
                ctx.count("delay:" + ("0" if d == 0 else "poke" if d == POKE else "<poke" if d < POKE else ">poke"))
        if l.startswith("write ") and o == "err:Timeout":
            ctx.count("write:Timeout")
        if l.startswith("jump "):
            ctx.count("op:jump")


def run(ctx):
    r = ctx.rng
    n = 240 if ctx.tier == "quick" else 3000
    cases = [Case(c, {"fam": "corpus"}) for c in CORPUS] + [gen_case(r) for _ in range(n)]
    run_differential(ctx, ENGINE, cases, oracle, nontrivial, count=count)


LEVEL_TEXT = ("Kernel-checked Lean theorems about the worker's sleep computation as coded with fixes/D36.patch: for ALL values of the six "
              "time_until_* inputs (present or absent, positive, zero or negative) the delay handed to the runtime timer, after the conversion "
              "`sec as u64`, is at most the 50 ms poke period (C31_bound), and it never exceeds the time left to a pending write's expiry "
              "(C31_timeout_wakeup), so a blocked write is answered at the first wake-up at or after max_blocking_time; a zero delay is always "
              "followed by progress of the duty that caused it because timer and check read the same stamps (C31_progress). The pinned code "
              "violates the bound: one overdue duty gives about 1.8e19 s (C31_asis_counterexample, replayed), and the clamp alone spins "
              "(C31_clamp_alone_counterexample). The model of the worker loop (periodic duties + next sleep) is tied to the real code by "
              "comparing, over hundreds of simulated scenarios, every sleep the worker requests (time and length) with the model's prediction.")
LEVEL_NOTE = ("Trusted: Lean kernel; Model/Worker.lean + Model/Deadline.lean (integer-nanosecond transcription of the time_until_* functions, the "
              "periodic duties and the loop), the dsim simulator (virtual clock, timer recording), Python canonicaliser (last request per "
              "instant, run-length encoding) and oracle. Assumes fixes D35 and D36 applied; on the pinned tree the check reports D36 "
              "(negative-time-until-cast-to-u64) through the oracle. Not modelled: the announcement timer (kept above the poke period by "
              "configuration), lease refresh by traffic, real-time jitter between a check and the next sleep computation.")
TECHNIQUE = "Lean 4 theorems over all timer inputs (bound, wake-up before expiry, progress) + differential correspondence of every requested sleep through the deterministic simulator"
DESIGN_REF = "DESIGN.md section 5 C31"
