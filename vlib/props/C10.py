"""C10: the XCDR encoding of dust-dds matches the DDS-XTypes standard as implemented independently
(the independent implementation is the Lean specification Spec/Xcdr.lean, run through the model driver)."""
import re
from vlib.core import Case
from vlib import xcdr_common as X

ENGINE = "xcdr"
RULE = ("one `cmp <ver> <endianness> <type> <value> <hex1> <hex2>` line per case: random dynamic types / values as for C09 "
        "(common subset: primitives, strings, enums, sequences, arrays, nested final / appendable / mutable structures, "
        "optional members); hex1 = bytes of the specification in the dust-dds dialect, hex2 = bytes of the specification in "
        "the book dialect (both computed by `dustmodel xcdr specser|specstd` before the differential run); the "
        "implementation serializes the value and decodes hex1 and hex2; non-trivial when the value contains a collection, "
        "string or nested structure; distinct by canonical op line. "
        "FOLLOW-UP 2: one case in eight draws wide strings and enumerations declared appendable / mutable (inside the model "
        "and the specification); one case in eight draws UNIONS: FINAL and (follow-up 4) APPENDABLE unions are inside the Lean model and the Lean "
        "specification; MUTABLE unions are the ORACLE-ONLY PART: they are in neither the Lean model "
        "nor the Lean specification, the model answers `unmodelled`; the specification bytes of such a case are those of the "
        "structure the standard reduces a union value to (rules (26)-(28): discriminator as must-understand member 0, "
        "selected branch as member <branch id>, same extensibility), computed by the Lean specification on the reduced type; "
        "the case runs on the implementation only and the oracle demands byte equality with the dust-dds dialect")
ASSUMPTIONS = [
    "the independent implementation is Spec/Xcdr.lean (written from XTypes 1.3 rules (1)-(30)); a misreading of the standard "
    "shared with the dust-dds authors is not detected",
    "where the standard leaves a choice (member order of mutable structures, EMHEADER length code) or its reading is "
    "disputed (XCDR1 list terminator) the specification has two dialects; byte equality is demanded against the dust-dds "
    "dialect, differences to the book dialect are reported as findings",
    "model = tree with fixes/D12 D13 D45 D46 D47 D61 D66 .patch (see C09)",
]

CORPUS = [
    (1, "le", "SF{0:u8,1:u64,2:s}", "{1,2,x6162}"),
    (2, "be", "SF{0:u8,1:u64,2:s}", "{1,2,x6162}"),
    (2, "le", "SA{0:Q(s),1:A2(SF{0:u8}),2:Ei16[]}", "{[x61,x],[{1},{2}],3}"),
    (1, "le", "SF{0:u64,1o:u8,2:u64}", "{1,2,3}"),            # D61
    (1, "le", "SM{0:u8}", "{5}"),                              # sentinel
    (2, "le", "SM{0:Q(u16),1:u32}", "{[1,2,3],7}"),            # D62
    (2, "le", "SM{3:u8,1:u16}", "{1,2}"),                      # member order
    (1, "le", "SF{0:c8}", "{200}"),                            # D63
    (1, "be", "SA{16383o:u8}", "{5}"),                         # id above 0x3F00: extended header in the specification
    (2, "le", "SM{0:A2(SF{0:u32})}", "{[{1},{2}]}"),           # array of structs: LC 4 (dust) / 5 (book)
    # follow-up 2: an appendable / mutable ENUM member of a mutable structure has LC by size (no DHEADER)
    (2, "le", "SM{0:Ei32a[0,1],1:u8}", "{1,7}"),
    (2, "be", "SM{0:Ei16m[0,1],1:Ei8a[3]}", "{1,3}"),
    (2, "le", "SM{0:Ei32[0,1],1:u8}", "{1,7}"),
    # wide strings: length = UTF-16 units + 1 (a surrogate pair counts twice)
    (1, "le", "SF{0:w,1:u8}", "{[97,55357,56832,98],7}"),
    (2, "be", "SM{0:w,1:Q(w)}", "{[],[[8364],[55296,56320]]}"),
    # unions (oracle-only part)
    (2, "le", "SM{0:UAi32{2d:i16,1[5]:Ei32a[0,1]},1:u32}", "{<5,1:1>,9}"),
    (1, "be", "SF{0:UFu8{1[5]:i64,2d:w},1:u32}", "{<5,1:7>,9}"),
    (2, "le", "SF{0:UMi16{1[5]:Ei32a[0,1],2d:s}}", "{<5,1:1>}"),
]


def has_mutable(t):
    if t[0] in ("seq", "arr"):
        return has_mutable(t[1])
    if t[0] == "struct":
        return t[1] == "M" or any(has_mutable(m[4]) for m in t[2])
    if t[0] == "union":
        return any(has_mutable(b[3]) for b in t[3])
    return False


def long_ids(t, ver):
    """XCDR1 header members whose id needs the extended parameter header of rule (25) (> 0x3F00)"""
    if t[0] in ("seq", "arr"):
        return long_ids(t[1], ver)
    if t[0] == "struct":
        return any((ver == 1 and (t[1] == "M" or m[1]) and m[0] > 0x3F00) or long_ids(m[4], ver) for m in t[2])
    if t[0] == "union":
        return any(long_ids(b[3], ver) for b in t[3])
    return False


def nontrivial(case, out):
    t = case.lines[0].split()
    return t[0] == "cmp" and t[4].count("{") + t[4].count("[") + t[4].count("x") > 1


def oracle_union(case, out):
    """oracle-only part: the implementation's bytes against the specification bytes of the reduced structure"""
    line = case.lines[0]
    tk = line.split()
    o = out[0] if out else "CRASH"
    ver, ty, val, h1 = int(tk[1]), tk[3], tk[4], tk[5]
    t, v = X.parse_ty(ty), X.parse_val(val)
    parts = o.split(" | ")
    cause = X.attribute(t, v, ver)
    if cause is None and long_ids(X.union_as_struct(t, v)[0], ver):
        cause = "xcdr1-member-id-needs-extended-pid"
    viol = []
    if len(parts) != 3:
        return [{"what": "malformed harness answer / crash", "op": line[:600], "got": o[:400], "cause": cause}]
    if parts[0] != "ok " + h1:
        viol.append({"what": f"serialized bytes of a value with a union differ from the specification (reduced structure): "
                             f"{parts[0][:120]} vs {h1[:120]}", "op": line[:600], "got": o[:400], "cause": cause})
    if parts[1] != "ok " + val:
        viol.append({"what": f"specification bytes decode to {parts[1][:160]}", "op": line[:600], "got": o[:400],
                     "cause": X.attribute_ext(t, v, ver) or cause})
    return viol


def oracle(case, out):
    line = case.lines[0]
    tk = line.split()
    if tk[0] != "cmp":
        return []
    o = out[0] if out else "CRASH"
    ver, ty, val, h1, h2 = int(tk[1]), tk[3], tk[4], tk[5], tk[6]
    try:
        t, v = X.parse_ty(ty), X.parse_val(val)
    except ValueError:
        return [{"what": "unparsable case", "op": line}]
    parts = o.split(" | ")
    viol = []

    def bad(what, cause):
        viol.append({"what": what, "op": line[:600], "got": o[:400], "cause": cause})

    cause = X.attribute(t, v, ver) or X.attribute_ext(t, v, ver)
    if cause is None and long_ids(t, ver):
        cause = "xcdr1-member-id-needs-extended-pid"
    if len(parts) != 3:
        bad("malformed harness answer / crash", cause)
        return viol
    want = "ok " + val
    # (1) implementation bytes = specification bytes (dust-dds dialect)
    if parts[0] != "ok " + h1:
        bad(f"serialized bytes differ from the specification (dust-dds dialect): {parts[0][:120]} vs {h1[:120]}", cause)
    # (2) the implementation decodes the specification's bytes to the value
    if parts[1] != want:
        bad(f"specification bytes (dust-dds dialect) decode to {parts[1][:160]}", cause)
    # (3) book dialect
    if h2 != h1:
        if not has_mutable(t):
            bad("the two dialects of the specification differ on a type without mutable structures", cause)
        else:
            bad("encoding differs from the book dialect of the specification (mutable structure)",
                cause or ("xcdr1-list-terminator-is-pid-1-not-0x3f02" if ver == 1 else "xcdr2-mutable-member-order-or-length-code-choice"))
    if parts[2] != want:
        if not has_mutable(t):
            bad(f"book-dialect bytes decode to {parts[2][:160]}", cause)
        else:
            bad(f"a sample in the book dialect is not decoded to the value: {parts[2][:160]}",
                cause or ("xcdr1-list-terminator-is-pid-1-not-0x3f02" if ver == 1 else None))
    return viol


def run(ctx):
    r = ctx.rng
    n = 1200 if ctx.tier == "quick" else 20000
    protos = list(CORPUS)
    for k in range(n):
        ver = r.choice([1, 2])
        if k % 15 == 0:
            kn = X.Knobs(ver=ver, big_id=25, c8_high=10, mut_absent_v2=30, lc5_seq=50, sentinel_id=50)
        elif k % 8 == 1:      # follow-up 2: wide strings, enumerations with a declared extensibility
            kn = X.Knobs(ver=ver, wstr=15, enum_ext=70, ext="FAMMM")
        elif k % 8 == 2:      # follow-up 2: unions (oracle-only part)
            kn = X.Knobs(ver=ver, wstr=8, union=25, enum_ext=60, nesting=3, union_ext="FFFAAMM", long=1, maxlong=150,
                         maxseq=60, ext="FAMM")
        elif k % 8 == 3:      # follow-up 2: final unions only (inside the model and the specification)
            kn = X.Knobs(ver=ver, wstr=8, union=30, enum_ext=60, nesting=3, union_ext="F", long=1, maxlong=150, maxseq=60,
                         ext="FAMM")
        else:
            kn = X.Knobs(ver=ver)
        t = X.gen_type(r, kn)
        v = X.gen_value(r, t, kn, ver=ver)
        protos.append((ver, r.choice(["le", "be"]), X.ty_text(t), X.val_text(v)))
    eng = X.model_engine()
    # the oracle-only part: specification bytes of the structure a union value reduces to
    uprotos = [p for p in protos if "UM" in p[2]]
    protos = [p for p in protos if "UM" not in p[2]]
    ucases = []
    reduced = []
    for (a, b, c, d) in uprotos:
        red = X.union_as_struct(X.parse_ty(c), X.parse_val(d))
        if red is None:
            ctx.count("oracle-only: union inside a collection (no reduction to a structure, skipped)")
            continue
        reduced.append(((a, b, c, d), f"specser {a} {b} {X.ty_text(red[0])} {X.val_text(red[1])}"))
    for ((a, b, c, d), _), s1 in zip(reduced, X.model_outputs([q for _, q in reduced], eng)):
        if not s1.startswith("ok "):
            ctx.count("oracle-only: skipped (specification refused the reduced value)")
            continue
        ucases.append(Case([f"cmp {a} {b} {c} {d} {s1[3:]} {s1[3:]}"]))
        ctx.count("oracle-only part (type has a mutable union)")
        if re.search(r"SM\{[^{}]*E(i8|i16|i32)[am]\[", c) or re.search(r"UM[a-z0-9]+\{[^{}]*E(i8|i16|i32)[am]\[", c):
            ctx.count("oracle-only: appendable / mutable enum member of a mutable structure / union")
    for i in range(0, len(ucases), 5000):
        X.oracle_only(ctx, ENGINE, ucases[i:i + 5000], nontrivial=lambda c, o: True, oracle=oracle_union)
    spec = X.model_outputs([f"specser {a} {b} {c} {d}" for a, b, c, d in protos], eng)
    std = X.model_outputs([f"specstd {a} {b} {c} {d}" for a, b, c, d in protos], eng)
    cases = []
    for (a, b, c, d), s1, s2 in zip(protos, spec, std):
        if not (s1.startswith("ok ") and s2.startswith("ok ")):
            ctx.count("skipped (specification refused the value)")
            continue
        cases.append(Case([f"cmp {a} {b} {c} {d} {s1[3:]} {s2[3:]}"]))
        ctx.count(f"xcdr{a}-{b}")
        if "SM{" in c:
            ctx.count("type has mutable")
        if re.search(r"SM\{[^{}]*E(i8|i16|i32)[am]\[", c) and a == 2:
            ctx.count("XCDR2 mutable structure with an appendable / mutable enum member")
        if "w" in c:
            ctx.count("type has wide string")
        if "UF" in c:
            ctx.count("type has a final union (inside model and specification)")
        if "UA" in c:
            ctx.count("type has an appendable union (inside model and specification)")
        if s1 != s2:
            ctx.count("dialects differ")
    ctx.count("model-engine " + eng)
    for i in range(0, len(cases), 5000):
        ctx.differential(ENGINE, cases[i:i + 5000], nontrivial=nontrivial, oracle=oracle, model_engine=eng, shrink=False)


TECHNIQUE = ("independent Lean specification of the XTypes 1.3 serialization rules + kernel-checked equality with the "
             "transcription model + differential run: dust-dds bytes vs specification bytes, specification bytes through the "
             "dust-dds decoder")
LEVEL_TEXT = ("Kernel-checked Lean theorems: C10_model_eq_spec / C10_model_eq_spec_top - for ALL types and values accepted by the "
              "decidable predicate wfVal (primitives, strings, enumerations, sequences, arrays, nested final / appendable / mutable "
              "structures, optional and absent members) in XCDR1 and XCDR2, both byte orders: the bytes of the transcription model of "
              "serializer.rs equal the bytes of the specification written from the standard's rules, in every dialect for types "
              "without mutable structures and in the dust-dds dialect otherwise; C10_dialect_irrelevant_without_mutable, "
              "C10_dialect_differences and C10_lc_differences give the complete list of choices in which dust-dds differs from the "
              "book reading (list terminator and its alignment, member order, length code), with kernel-checked witnesses for the "
              "two deviations that are not mere choices (LC = 5 for primitive sequences, PID 1 as list terminator). The "
              "differential run compares the real bytes with the specification's (dust-dds dialect) and feeds specification bytes "
              "of both dialects to the real decoder. FOLLOW-UP 2: the model, the specification and C10_model_eq_spec now also "
              "cover wide strings, enumerations with a declared extensibility (C10_enum_length_code: an enum member never gets "
              "LC = 5, whatever its extensibility; C10_appendable_enum_member_bytes), final and (follow-up 4) appendable unions; CHAR8 "
              "0..255 is one byte in model and specification (D63 repaired). ORACLE-ONLY PART: "
              "mutable unions are in neither the model nor the specification; their bytes are compared with the "
              "specification bytes of the structure the standard reduces a union value to, on the implementation only; nothing "
              "is proved about them.")
LEVEL_NOTE = ("Trusted: Lean kernel; the specification Spec/Xcdr.lean as a faithful reading of XTypes 1.3 clause 7.4.3.5 (each "
              "clause cites its rule number; a misreading shared with dust-dds is not caught); the transcription Model/Xcdr.lean, "
              "tied to the code by the differential run of C09/C10; harness and oracle. No external DDS implementation is "
              "available offline.")
DESIGN_REF = "DESIGN.md section 5 C10"
