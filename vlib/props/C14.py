"""C14: time/duration wire conversions exact; arithmetic normalised and monotone."""
from vlib.core import Case

ENGINE = "time"
RULE = ("single-operation cases over (sec, nanosec) operands: boundary values on both sides of every rounding "
        "boundary (k*2^32/10^9 neighbourhood), i32 rails, random; non-trivial when a nanosecond operand is not a "
        "multiple of 10^6; distinct by canonical op line")
ASSUMPTIONS = ["valid DDS time/duration = nanosec < 10^9 after Duration::new/Time::new normalisation",
               "the tree under check contains fixes/D50.patch (operators on the clamped total of nanoseconds); the operators before it are kept "
               "as Dur.addOld / Dur.subOld with the regression witness C14_add_monotone_saturation_counterexample",
               "monotonicity is stated for normalised operands (what Duration::new / Time::new and the wire conversions produce)"]
NS = 10**9
I32MAX, I32MIN = 2**31 - 1, -2**31


def sat(x):
    return max(I32MIN, min(I32MAX, x))


def norm(s, n):
    return sat(s + n // NS), n % NS


def gen_sec(r):
    c = r.below(10)
    if c < 3:
        return r.choice([0, 1, -1, I32MAX, I32MIN, I32MAX - 1, I32MIN + 1, 2, 100])
    if c < 5:
        return r.range(-5, 5)
    if c < 6:
        return r.choice([I32MAX, I32MIN]) - r.range(0, 3) * (1 if r.chance(1, 2) else -1) if False else r.choice([I32MAX - r.range(0, 3), I32MIN + r.range(0, 3)])
    return r.range(I32MIN, I32MAX)


def gen_ns(r):
    c = r.below(10)
    if c < 2:
        return r.choice([0, 1, 2, NS - 1, NS - 2, 500000000, 499999999, 500000001, 250000000, 999999])
    if c < 3:
        return r.range(NS, 2**32 - 1)     # unnormalised input to `new`
    if c < 5:
        # neighbourhood of a fraction rounding boundary
        f = r.range(0, 2**32 - 1)
        return min(NS - 1, max(0, f * NS // 2**32 + r.range(-1, 1)))
    return r.range(0, NS - 1)


def le(a, b):
    return a[0] < b[0] or (a[0] == b[0] and a[1] <= b[1])


def generate(ctx):
    r = ctx.rng
    n = 30000 if ctx.tier == "quick" else 400000
    cases = []
    # corpus first: D18 witness, D50 witness
    cases.append(Case(["dur_rt_beh 0 1"]))
    cases.append(Case(["mono_add 2147483646 900000000 2147483647 500000000 0 600000000"]))
    for _ in range(n):
        k = r.below(12)
        if k < 2:
            cases.append(Case([f"dur_rt_beh {gen_sec(r)} {gen_ns(r)}"]))
        elif k < 4:
            cases.append(Case([f"dur_rt_msg {gen_sec(r)} {gen_ns(r)}"]))
        elif k < 6:
            s = gen_sec(r); nn = gen_ns(r)
            cases.append(Case([f"time_rt {s} {nn}"]))
        elif k < 7:
            cases.append(Case([f"dur_new {gen_sec(r)} {gen_ns(r)}"]))
        elif k < 9:
            op = r.choice(["dur_add", "dur_sub", "time_add", "time_sub"])
            cases.append(Case([f"{op} {gen_sec(r)} {gen_ns(r)} {gen_sec(r)} {gen_ns(r)}"]))
        else:
            op = r.choice(["mono_add", "mono_sub", "mono_addr"])
            a = (gen_sec(r), gen_ns(r)); b = (gen_sec(r), gen_ns(r)); d = (gen_sec(r), gen_ns(r))
            if r.chance(1, 2):
                b = (a[0], gen_ns(r))  # same second: exercises the nanosecond order
            if r.chance(1, 4):
                # small seconds: no saturation
                a = (r.range(-1000, 1000), a[1]); b = (r.range(-1000, 1000), b[1]); d = (r.range(-1000, 1000), d[1])
            cases.append(Case([f"{op} {a[0]} {a[1]} {b[0]} {b[1]} {d[0]} {d[1]}"]))
    return cases


def oracle(case, out):
    t = case.lines[0].split()
    o = out[0].split() if out else []
    op = t[0]
    viol = []
    def bad(what, cause=None):
        viol.append({"what": what, "op": case.lines[0], "got": out[0] if out else None, "cause": cause})
    if o[:1] == ["PANIC"] or not o:
        # time_rt may legitimately panic? transport Time::new uses '+': only for unnormalised inputs, which
        # Time::new never produces -> any panic is a violation
        bad("operation panicked")
        return viol
    if op in ("dur_rt_beh", "dur_rt_msg", "time_rt"):
        exp = norm(int(t[1]), int(t[2]))
        got = (int(o[0]), int(o[1]))
        if got != exp:
            bad(f"wire round trip changed the value: expected {exp}, got {got}")
    elif op == "dur_new":
        if not (0 <= int(o[1]) < NS):
            bad("Duration::new result not normalised")
    elif op in ("dur_add", "dur_sub", "time_add", "time_sub"):
        if not (0 <= int(o[1]) < NS):
            bad("arithmetic result not normalised")
        # exactness (C14_add_exact / C14_sub_exact): the result is the sum / difference of the totals, clamped as a whole
        a = norm(int(t[1]), int(t[2])); b = norm(int(t[3]), int(t[4]))
        ta, tb = a[0] * NS + a[1], b[0] * NS + b[1]
        tot = ta + tb if op.endswith("add") else ta - tb
        tot = max(I32MIN * NS, min(I32MAX * NS + NS - 1, tot))
        exp = (tot // NS, tot % NS)
        if (int(o[0]), int(o[1])) != exp:
            bad(f"arithmetic result is not the exact (clamped) total: expected {exp}")
    elif op in ("mono_add", "mono_sub", "mono_addr"):
        a = norm(int(t[1]), int(t[2])); b = norm(int(t[3]), int(t[4])); d = norm(int(t[5]), int(t[6]))
        x = (int(o[0]), int(o[1])); y = (int(o[2]), int(o[3]))
        for v in (x, y):
            if not (0 <= v[1] < NS):
                bad("arithmetic result not normalised")
        if op == "mono_addr":
            # t=a, d=b, e=d: b<=d -> a+b <= a+d
            lo, hi = (x, y) if le(b, d) else (y, x)
            sat_involved = any(not (I32MIN <= a[0] + z[0] and a[0] + z[0] + 1 <= I32MAX) for z in (b, d))
        else:
            lo, hi = (x, y) if le(a, b) else (y, x)
            if op == "mono_add":
                sat_involved = any(not (I32MIN <= z[0] + d[0] and z[0] + d[0] + 1 <= I32MAX) for z in (a, b))
            else:
                sat_involved = any(not (I32MIN <= z[0] - d[0] - 1 and z[0] - d[0] <= I32MAX) for z in (a, b))
        if not le(lo, hi):
            # cause kept for the (fixed) finding D50: a fixed entry suppresses nothing
            bad(f"not monotone: {lo} > {hi}", cause="seconds-saturate-nanoseconds-wrap" if sat_involved else None)
    return viol


def nontrivial(case, out):
    t = case.lines[0].split()
    return any(int(x) % 1000000 != 0 for x in t[2::2])


def run(ctx):
    cases = generate(ctx)
    for c in cases:
        ctx.count(c.lines[0].split()[0])
    ctx.differential(ENGINE, cases, nontrivial=nontrivial, oracle=oracle, shrink=False)
    if ctx.tier == "thorough":
        # complete enumeration of the nanosecond domain on the implementation (oracle only)
        import subprocess
        from vlib.core import harness_bin
        p = subprocess.run([harness_bin("time"), "sweep"], stdout=subprocess.PIPE, timeout=3000)
        line = p.stdout.decode().strip()
        ctx.stats["dist"]["full_ns_sweep"] = line
        if "bad=0 " not in line + " ":
            ctx.violations.append({"what": "full nanosecond sweep found round-trip failures: " + line, "ops": ["sweep"]})

LEVEL_TEXT = ("Kernel-checked Lean theorems over ALL nanosecond values < 10^9 and all i32 seconds: the fraction round trip "
              "(C14_fraction_roundtrip), the three conversion chains (behavior Duration, message Time, transport/message "
              "time chain), normalisation of new/add/sub for ALL operands (C14_new/add/sub_normalized), exactness (the result is the "
              "sum / difference of the nanosecond totals clamped to the representable range: C14_add_exact, C14_sub_exact; the schoolbook "
              "carry / borrow away from the rails: C14_add_nosat, C14_sub_nosat; add and sub are mutually inverse away from the rails, to the nanosecond: C14_add_sub_cancel, C14_sub_add_cancel, with the witness that the hypothesis is needed at the rail; the exact clamped total is also an oracle clause on every add / sub case) and FULL monotonicity of add / sub / Time-Time in each operand "
              "for all normalised operands, saturation included (C14_add_monotone, C14_add_monotone_right, C14_sub_monotone, "
              "C14_sub_antitone_right, C14_timeSub_monotone). The pinned operators were not monotone at the i32 rail (defect D50, found by "
              "this check, repaired by a fix: commit; kernel-checked regression witness on the old operators). "
              "The model is tied to the code by a differential run of the public From/Add/Sub impls on ~3*10^4 (quick) "
              "boundary-biased operands, and thorough additionally enumerates all 10^9 nanosecond values on the implementation.")
LEVEL_NOTE = ("Trusted: Lean kernel + propext/Classical.choice/Quot.sound; the hand-written model Model/Time.lean "
              "(u32/i32 casts and saturation modelled explicitly over Nat/Int); the differential harness. "
              "The i64 arithmetic of the repaired operators is modelled over Int (it cannot overflow: |sec| <= 2^31, nanosec < 2^32).")
TECHNIQUE = "Lean 4 theorems (omega over explicit-width arithmetic) + differential correspondence with the public conversion/arithmetic impls"
DESIGN_REF = "DESIGN.md section 5 C14"
