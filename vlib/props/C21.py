"""C21: BY_SOURCE_TIMESTAMP readers present samples of an instance in non-decreasing source-timestamp order."""
from vlib.hist_common import *

RULE = ("BY_SOURCE_TIMESTAMP readers, source stamps from a 4-value alphabet (forces ties), absent stamps, and out-of-order "
        "arrival from 1-3 writers; every read/take output and every stored list is checked; non-trivial as for the hist engine")
ASSUMPTIONS = ["a missing source timestamp orders before every present one (Option<Time> order of the code)"]
PROFILE = Profile(order=["src"], own=["shared"], minsep=[0], stamps="mixed", kinds=["A"] * 10 + ["D", "U"])
PROFILE2 = Profile(order=["src"], own=["shared"], minsep=[0], stamps="alphabet", kinds=["A"] * 10 + ["D"])
CORPUS = [["qos depth=all ms=- mi=- mspi=- order=src own=shared minsep=0 enabled=1", "add 1 5 A 10 100 01", "dump",
           "add 1 5 A 20 110 02", "dump", "add 1 5 A 30 120 03", "dump", "read -1 3 3 7 -", "dump"]]


def oracle(case, out):
    q = parse_qos(case.lines[0]) if case.lines and case.lines[0].startswith("qos") else None
    if q is None or q["order"] != "src":
        return []
    viol = []
    for i, t, o, before, after in walk(case, out):
        if o in ("PANIC", "POISONED") or o.startswith("CRASH"):
            viol.append({"what": f"op {i} {' '.join(t)} panicked", "at": i}); break
        if t[0] in ("read", "take", "readni", "takeni"):
            kind, infos = parse_infos(o)
            if kind == "ok":
                last = {}
                for x in infos:
                    k = sts_key(x["sts"])
                    if x["inst"] in last and k < last[x["inst"]]:
                        viol.append({"what": f"op {i}: instance {x['inst']} presented with source timestamps out of order ({last[x['inst']]} then {k})", "at": i})
                        break
                    last[x["inst"]] = k
        if t[0] == "add" and after is not None:
            last = {}
            for s in after[0]:
                k = sts_key(s["sts"])
                if s["inst"] in last and k < last[s["inst"]]:
                    viol.append({"what": f"op {i}: stored samples of instance {s['inst']} not in source-timestamp order", "at": i})
                    break
                last[s["inst"]] = k
    return viol


def run(ctx):
    r = ctx.rng
    n = 800 if ctx.tier == "quick" else 15000
    cases = [Case(list(c)) for c in CORPUS]
    for k in range(n):
        cases.append(gen_case(r, PROFILE if k % 2 else PROFILE2, long=(ctx.tier == "thorough" and k % 10 == 0)))
    for c in cases:
        for l in c.lines:
            ctx.count(l.split()[0])
    ctx.differential(ENGINE, cases, nontrivial=nontrivial, oracle=oracle)

TECHNIQUE = "Lean 4 sortedness invariant over op lists + differential correspondence with DataReaderEntity"
LEVEL_TEXT = "Kernel-checked Lean invariant: with BY_SOURCE_TIMESTAMP the whole store is sorted by source timestamp after ANY operation list (C21_sorted, by induction; ties and missing stamps included), hence each instance's samples and every read/take result are sorted (C21_sorted_per_instance, readOrTake_sorted); C21_insert_at_zero_counterexample keeps the pre-fix behaviour (D27) as a regression witness. Tied to DataReaderEntity by differential runs with out-of-order and tied stamps from several writers."
LEVEL_NOTE = 'Trusted: Lean kernel (axioms audited: propext, Classical.choice, Quot.sound at most); the hand-written model Model/ReaderHist.lean of data_reader_entity.rs / user_defined_data_reader.rs (handles as Nat, times as total ns, Vec as List); the hist harness that drives the real DataReaderEntity<()> / UserDefinedDataReader through the cfg(dust_dds_verif) re-export and prints canonical lines; the Python oracle. The differential run validates the model on sampled op sequences only; the theorems are about the model.'
DESIGN_REF = 'DESIGN.md section 5 C21'
