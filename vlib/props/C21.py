"""C21: BY_SOURCE_TIMESTAMP readers present samples of an instance in non-decreasing source-timestamp order."""
from vlib.hist_common import *

RULE = ("BY_SOURCE_TIMESTAMP readers, source stamps from a 4-value alphabet (forces ties), absent stamps, and out-of-order "
        "arrival from 1-3 writers; every read/take output and every stored list is checked; non-trivial as for the hist engine")
ASSUMPTIONS = ["a missing source timestamp orders before every present one (Option<Time> order of the code)"]
PROFILE = Profile(order=["src"], own=["shared"], minsep=[0], stamps="mixed", kinds=["A"] * 10 + ["D", "U"])
PROFILE2 = Profile(order=["src"], own=["shared"], minsep=[0], stamps="alphabet", kinds=["A"] * 10 + ["D"])
CORPUS = [["qos depth=all ms=- mi=- mspi=- order=src own=shared minsep=0 enabled=1", "add 1 5 A 10 100 01", "dump",
           "add 1 5 A 20 110 02", "dump", "add 1 5 A 30 120 03", "dump", "read -1 3 3 7 -", "dump"]]


def oracle(case, out):
    q = parse_qos(case.lines[0]) if case.lines and case.lines[0].startswith("qos") else None
    if q is None or q["order"] != "src":
        return []
    viol = []
    for i, t, o, before, after in walk(case, out):
        if o in ("PANIC", "POISONED") or o.startswith("CRASH"):
            viol.append({"what": f"op {i} {' '.join(t)} panicked", "at": i}); break
        if t[0] in ("read", "take", "readni", "takeni"):
            kind, infos = parse_infos(o)
            if kind == "ok":
                last = {}
                for x in infos:
                    k = sts_key(x["sts"])
                    if x["inst"] in last and k < last[x["inst"]]:
                        viol.append({"what": f"op {i}: instance {x['inst']} presented with source timestamps out of order ({last[x['inst']]} then {k})", "at": i})
                        break
                    last[x["inst"]] = k
        if t[0] == "add" and after is not None:
            last = {}
            for s in after[0]:
                k = sts_key(s["sts"])
                if s["inst"] in last and k < last[s["inst"]]:
                    viol.append({"what": f"op {i}: stored samples of instance {s['inst']} not in source-timestamp order", "at": i})
                    break
                last[s["inst"]] = k
    return viol


def run(ctx):
    r = ctx.rng
    n = 800 if ctx.tier == "quick" else 15000
    cases = [Case(list(c)) for c in CORPUS]
    for k in range(n):
        cases.append(gen_case(r, PROFILE if k % 2 else PROFILE2, long=(ctx.tier == "thorough" and k % 10 == 0)))
    for c in cases:
        for l in c.lines:
            ctx.count(l.split()[0])
    ctx.differential(ENGINE, cases, nontrivial=nontrivial, oracle=oracle)

LEVEL_TEXT = "placeholder"; LEVEL_NOTE = "placeholder"
TECHNIQUE = "Lean 4 sortedness invariant over op lists + differential correspondence with DataReaderEntity"
CLAIMED = False
