"""C18: KEEP_LAST keeps the newest samples and never rejects for depth; KEEP_ALL keeps everything until taken."""
from vlib.hist_common import *

RULE = ("random op lists (4..30 ops; thorough: up to 120) over 1-4 instances, 1-3 writers, depth in {all,1..4}, resource "
        "limits consistent with the history incl. depth == max_samples_per_instance; a `dump` of the reader state follows "
        "every op; non-trivial = >=2 instances or >=1 non-alive change, and >=1 read/take between additions; "
        "distinct by hash of the op list")
ASSUMPTIONS = ["depth bounds DATA (alive) samples per instance: dispose/unregister markers are stored separately by the code",
               "'most recent' oracle is evaluated for BY_RECEPTION order"]
PROFILE = Profile(own=["shared"], minsep=[0], order=["rcv", "rcv", "src"], kinds=["A"] * 10 + ["D", "U", "F"])
CORPUS = [["qos depth=1 ms=- mi=- mspi=1 order=rcv own=shared minsep=0 enabled=1", "add 1 5 A 10 100 aa", "dump",
           "add 1 5 A 20 200 bb", "dump", "take -1 3 3 7 -", "dump"]]


def oracle(case, out):
    q = parse_qos(case.lines[0]) if case.lines and case.lines[0].startswith("qos") else None
    if q is None:
        return []
    viol = []
    expected = {}      # inst -> list of data ids (alive samples that must be stored), reference KEEP_LAST/KEEP_ALL queue
    tainted = set()    # instances that received non-alive kinds or filtered samples (reference not applied)
    for i, t, o, before, after in walk(case, out):
        if o in ("PANIC", "POISONED") or o.startswith("CRASH"):
            viol.append({"what": f"op {i} {' '.join(t)} panicked", "at": i})
            break
        if t[0] == "add" and after is not None:
            inst, kind = int(t[2]), t[3]
            samples_b = before[0]
            if kind != "A":
                tainted.add(inst)
            if o.startswith("rejected") and o.endswith("spi") and q["depth"] is not None:
                mspi = q["mspi"]
                if mspi is None or q["depth"] <= mspi:
                    markers = any(s["inst"] == inst and s["kind"] != "A" for s in samples_b)
                    viol.append({"what": f"op {i}: KEEP_LAST({q['depth']}) reader with max_samples_per_instance={mspi} rejected a sample for samples-per-instance",
                                 "at": i, "cause": "marker-samples-occupy-slots" if markers else None})
            if o.startswith("rejected") and o.endswith("samples") and q["depth"] is not None:
                if sum(1 for s in samples_b if s["inst"] == inst and s["kind"] == "A") >= q["depth"]:
                    viol.append({"what": f"op {i}: KEEP_LAST({q['depth']}) reader rejected a sample for max_samples={q['ms']} although the sample only replaces the oldest one of its instance",
                                 "at": i})
            if o == "added" and kind == "A":
                lst = expected.setdefault(inst, [])
                if q["depth"] is not None and len(lst) >= q["depth"]:
                    lst.pop(0)
                lst.append(t[6])
            # invariants on the state after the op
            samples_a = after[0]
            if q["depth"] is not None:
                per = {}
                for s in samples_a:
                    if s["kind"] == "A":
                        per[s["inst"]] = per.get(s["inst"], 0) + 1
                for h, c in per.items():
                    if c > q["depth"]:
                        viol.append({"what": f"op {i}: instance {h} holds {c} data samples with KEEP_LAST({q['depth']})", "at": i})
        if t[0] in ("take", "takeni"):
            kind_, infos = parse_infos(o)
            if kind_ == "ok":
                for inf in infos:
                    if inf["data"] in expected.get(inf["inst"], []):
                        expected[inf["inst"]].remove(inf["data"])
        if after is not None and q["order"] == "rcv":
            for h, lst in expected.items():
                if h in tainted:
                    continue
                stored = [s["data"] for s in after[0] if s["inst"] == h and s["kind"] == "A"]
                if stored != lst:
                    viol.append({"what": f"op {i}: instance {h} stores {stored}, the {('last %d' % q['depth']) if q['depth'] else 'KEEP_ALL'} accepted and not yet taken are {lst}", "at": i})
                    return viol
    return viol


def run(ctx):
    run_hist(ctx, PROFILE, oracle, 1500, 30000, CORPUS)


TECHNIQUE = "Lean 4 invariant proofs over op lists + differential correspondence with DataReaderEntity"
LEVEL_TEXT = 'Kernel-checked Lean theorems about the reader-history model for ALL operation lists: C18_bound (a KEEP_LAST(d) reader never stores more than d data samples per instance, by induction over arbitrary add/read/take/next-instance/pub ops), C18_replaces_oldest (an accepted sample removes exactly the oldest data sample of its instance and is appended), C18_keep_all, and C18_not_rejected_for_depth_partial (never rejected for depth when the instance holds only data samples; the remaining case is the recorded finding D52). The model is tied to the real DataReaderEntity by a per-op differential run (every add result, every stored list, every read/take output) and an independent oracle re-checks the property on the implementation output.'
LEVEL_NOTE = 'Trusted: Lean kernel (axioms audited: propext, Classical.choice, Quot.sound at most); the hand-written model Model/ReaderHist.lean of data_reader_entity.rs / user_defined_data_reader.rs (handles as Nat, times as total ns, Vec as List); the hist harness that drives the real DataReaderEntity<()> / UserDefinedDataReader through the cfg(dust_dds_verif) re-export and prints canonical lines; the Python oracle. The differential run validates the model on sampled op sequences only; the theorems are about the model.'
DESIGN_REF = 'DESIGN.md section 5 C18'
