"""C35: entity handles stay unique and entity creation never panics."""
from vlib.core import Case
from vlib.tree_common import *

RULE = ("random create/delete/enable/probe histories over 1-3 participants (publishers, subscribers, topics, "
        "content-filtered topics, writers, readers; deleted and never-created names are reused on purpose), about one "
        "case in three with a counter loop `repeat n <create> [; delete]` with n in {3,10,253..256,300} (corpus: 258 writers / readers / topics alive at once); non-trivial = "
        "at least 3 entities created and at least one delete/loop; distinct by canonical op lines")
ASSUMPTIONS = ["the tree under check contains fixes/D40.patch (checked counter increments); the behaviour before the patch is kept as "
               "Model/TreeOld.lean + the C35_*_counterexample theorems + the `#model old` switch of the Lean driver (notes/tree.md, Follow-up)",
               "the factory's 32-bit participant counter (also made checked by the patch) cannot be driven to its rail by a test: that line is covered by reading and by the model only"]
PROFILE = Profile(loops=35, nops=(6, 28), weights={"inst": 2, "probe": 6, "handle": 5})
CORPUS = [
    # exemplar of the seeded change seed_C35_c (find_topic takes the counter value AFTER its increment): a topic created
    # right after a found one must not get the found topic's handle
    ["participant P", "participant Q", "topic q1 Q T1 ki", "advance 100000000", "topic a P A ki", "find-topic f P T1 ki",
     "topic b P B kb", "handle a", "handle f", "handle b", "find-topic f2 P T1 ki", "delete f", "find-topic f3 P T1 ki",
     "topic c P C ni", "handle f3", "handle c"],
    # regression for D40 (fixed): the 256th publisher of a participant is refused with OutOfResources, nothing dies
    ["participant P", "repeat 258 publisher b%i P", "probe P", "probe b254", "delete b0", "publisher again P", "subscriber s P", "handle s"],
    ["participant P", "repeat 255 subscriber s%i P ; delete s%i", "subscriber last P", "probe P"],
    ["participant P", "participant Q", "publisher keep P", "repeat 254 publisher b%i P ; delete b%i", "publisher q Q",
     "handle keep", "handle q", "publisher one_too_many P"],
    # more than 256 LIVE writers / readers / topics at once: every byte of the 16-bit counters must reach the entity key
    # (seeded change C35_b: the high byte of writer_counter dropped, writer 256 gets the handle of writer 0)
    ["participant P", "publisher pb P autoenable=0", "topic t P A ki", "repeat 258 writer w%i pb t", "handle w0", "handle w1", "handle w256",
     "handle w257", "delete w0", "writer again pb t", "handle again"],
    ["participant P", "subscriber sb P autoenable=0", "topic t P A ki", "repeat 258 reader r%i sb t", "handle r0", "handle r256", "handle r257"],
    ["participant P autoenable=0", "repeat 258 topic t%i P N%i ki", "handle t0", "handle t256", "handle t257"],
    ["participant P", "topic t P A ki", "publisher pb P", "subscriber sb P", "writer w pb t history=keep_last:5 max_spi=2",
     "writer w2 pb t", "reader r sb t history=keep_last:5 max_spi=2", "reader r2 sb t", "cft c P t F 10 value <= %0", "topic t2 P B ni",
     "handle w2", "handle r2", "handle t2"],
]


oracle = oracle_for("C35")


def run(ctx):
    r = ctx.rng
    n = 90 if ctx.tier == "quick" else 800
    cases = [Case(list(c)) for c in CORPUS]
    for k in range(n):
        cases.append(find_case(r) if k % 5 == 4 else gen_case(r, PROFILE))
    if ctx.tier == "thorough":
        # the 16-bit counters: 65 536 writers / readers / topics of one participant 
        # (entities are created not-enabled: nothing is announced, a create+delete costs about 1 ms instead of 10)
        cases.append(Case(["participant P", "publisher pb P autoenable=0", "topic t P A ki",
                           "repeat 65534 writer w%i pb t ; delete w%i", "writer last pb t", "handle last",
                           "writer one_too_many pb t", "probe P", "probe last"]))
        cases.append(Case(["participant P", "subscriber sb P autoenable=0", "topic t P A ki",
                           "repeat 65535 reader r%i sb t ; delete r%i", "reader one_too_many sb t"]))
        cases.append(Case(["participant P autoenable=0", "repeat 65535 topic t%i P N%i ki ; delete t%i",
                           "topic one_too_many P Z ki"]))
    count_ops(ctx, cases)
    outs = ctx.differential(ENGINE, cases, nontrivial=nontrivial, oracle=oracle,
                            env={"DSIM_CASE_TIMEOUT_MS": "600000" if ctx.tier == "thorough" else "60000"})
    count_answers(ctx, outs)


TECHNIQUE = "Lean 4 invariant over all operation histories of the entity-tree model + differential correspondence with the real participant through the deterministic simulator (public API only)"
LEVEL_TEXT = ("Kernel-checked Lean theorems over the entity-tree model (Model/Tree.lean = the code with fixes/D40.patch: every handle counter is "
              "incremented with checked_add and an exhausted counter makes the creation return OutOfResources before anything changes): "
              "C35_unique (after ANY history, of any length, in either build profile, all live participants/publishers/subscribers/topics/"
              "writers/readers have pairwise distinct handles), C35_no_panic (from ANY state no create/delete/enable/get_qos panics or kills "
              "the worker), C35_no_panic_history (no history ever panics), C35_exhausted_refused (the refused creation leaves the state "
              "unchanged). The pre-patch behaviour (D40: 256th publisher panics the worker in a debug build, 257th gets the handle of the "
              "first in a release build) is kept as regression witnesses on Model/TreeOld.lean (C35_no_panic_counterexample, "
              "C35_unique_counterexample, C35_unique_churn_counterexample) next to C35_fixed_regression. The model is tied to the real code "
              "by random create/delete histories including counter loops past the 8-bit rails (thorough: the 16-bit rails), comparing "
              "every return code and handle.")
LEVEL_NOTE = ("Trusted: Lean kernel; the hand-written model of participant_entity.rs / participant_methods.rs / publisher_methods.rs / "
              "subscriber_methods.rs / domain_participant_factory.rs (nested Vecs flattened with ghost serial numbers, counters as ghost "
              "Nat counters whose field value is `ever % 2^width`); the dsim harness (virtual runtime + in-memory transport behind the "
              "public async API) and the Python shadow oracle. Requires fixes/D40.patch in the tree; the 32-bit factory counter's rail is "
              "not reachable by a test.")
DESIGN_REF = "DESIGN.md section 5 C35, section 3.3 (dsim)"
LEAN_MODULES = ["DustVerif.Props.C35"]
