"""C32: trigger value <=> an enabled status changed since last read; WaitSet::wait wakes whenever an attached
condition becomes true (also through set_enabled_statuses) and returns every triggered attached condition."""
import itertools
from vlib.core import Case

ENGINE = "cond"
RULE = ("step lists over 4 real status conditions and up to 6 concurrent WaitSetAsync::wait calls: ALL lists up to length 5 "
        "(quick) / 7 (thorough) over {start, wstep, add, remove, enable 0, enable DataAvailable} for one condition and one "
        "call, ALL lists up to length 4 / 5 over a 12-symbol alphabet with two conditions and two calls, plus random lists of "
        "6-60 steps (kinds, masks, attached lists incl. duplicates and empty); non-trivial = at least one wait step executed "
        "and at least one status change or mask change")
ASSUMPTIONS = [
    "every access to a status condition is executed by the single DCPS worker, one mail at a time (the harness plays the "
    "worker and executes the same calls as dcps_mail_handler.rs:1026-1051); entity lookup / deletion is not modelled",
    "the notification channel between condition and wait call behaves as proved in C34 (no lost wake-up)",
    "the model and the check assume fixes/D37.patch is applied to status_condition.rs",
]

DEFAULT_MASK = 8191
A1 = ["start 0 0", "wstep 0", "add 0 8", "remove 0 8", "enable 0 0", "enable 0 256"]
A2 = ["start 0 0,1", "start 1 1", "wstep 0", "wstep 1", "add 0 8", "add 1 8", "remove 0 8", "remove 1 8",
      "enable 0 0", "enable 0 256", "enable 1 0", "enable 1 256"]

CORPUS = [
    # D37 exemplar: all statuses disabled, DataAvailable changes, wait blocks, set_enabled_statuses([DataAvailable])
    ["enable 0 0", "add 0 8", "start 0 0", "wstep 0", "wstep 0", "enable 0 256", "wstep 0", "wstep 0"],
    # D37 while the call is still registering on a second condition
    ["enable 0 0", "add 0 8", "start 0 0,1", "wstep 0", "wstep 0", "wstep 0", "enable 0 256", "wstep 0", "wstep 0", "wstep 0", "wstep 0"],
    ["start 0 0", "wstep 0", "wstep 0", "add 0 8", "wstep 0", "wstep 0"],
    ["start 0 0,1,2", "wstep 0", "wstep 0", "wstep 0", "wstep 0", "wstep 0", "wstep 0", "add 2 5", "wstep 0", "add 1 0", "wstep 0", "wstep 0", "wstep 0"],
    ["add 1 8", "start 0 0,1,2", "wstep 0", "wstep 0", "wstep 0", "wstep 0"],
    ["start 1 -", "wstep 1"],
    ["start 0 0", "start 1 0", "wstep 0", "wstep 1", "wstep 0", "wstep 1", "add 0 8", "remove 0 8", "wstep 0", "wstep 1", "wstep 0", "wstep 1"],
    ["start 0 1,1", "wstep 0", "wstep 0", "wstep 0", "wstep 0", "add 1 3", "wstep 0", "wstep 0", "wstep 0"],
    ["start 0 0", "wstep 0", "add 0 8", "wstep 0", "wstep 0", "wstep 0"],
]


def gen_random(r):
    n = r.range(6, 60)
    lines, calls, nxt = [], [], 0
    kinds = [8, 8, 8, 5, 0, 12, 7, 11]
    masks = [0, 0, 256, 256, 8191, 32, 257, 4096, 1, 8190, 7935]
    for _ in range(n):
        c = r.below(100)
        cond = r.below(4)
        if c < 45 and calls:
            lines.append(f"wstep {r.choice(calls)}")
        elif c < 62:
            lines.append(f"add {cond} {r.choice(kinds)}")
        elif c < 72:
            lines.append(f"remove {cond} {r.choice(kinds)}")
        elif c < 84:
            lines.append(f"enable {cond} {r.choice(masks)}")
        elif c < 95:
            k = r.choice([0, 1, 1, 2, 2, 3, 4])
            cs = [r.below(4) for _ in range(k)]
            w = nxt if r.chance(9, 10) else r.below(max(nxt, 1))
            nxt = max(nxt, w + 1)
            lines.append(f"start {w} {','.join(map(str, cs)) if cs else '-'}")
            if w not in calls:
                calls.append(w)
        else:
            lines.append(f"trig {cond}")
    return lines


def oracle(case, out):
    """spec-level re-check on the implementation output: trigger value, wake-up at the step that makes a trigger true,
    never blocked while an attached trigger is true, result = triggered attached conditions"""
    viol = []
    def bad(i, cause, what):
        viol.append({"cause": cause, "what": f"op {i} `{case.lines[i]}` -> `{out[i] if i < len(out) else None}`: {what}", "at": i})
    mask = [DEFAULT_MASK] * 4
    changed = [set() for _ in range(4)]
    def trig(c):
        return any(mask[c] >> k & 1 for k in changed[c])
    calls = {}   # w -> dict(conds, phase, acc, woken)
    for i, l in enumerate(case.lines):
        if i >= len(out):
            bad(i, "crash", "no output"); break
        t, o = l.split(), out[i].split()
        if not o or o[0] in ("PANIC", "POISONED", "CRASH", "bad-op", "bad-mail", "bad-mails", "err-other"):
            bad(i, "panic", "panic / crash / unexpected mail"); break
        kv = dict(x.split("=", 1) for x in o if "=" in x)
        op = t[0]
        if op in ("add", "remove", "enable", "trig"):
            c = int(t[1])
            before = trig(c)
            if op == "add": changed[c].add(int(t[2]))
            elif op == "remove": changed[c].discard(int(t[2]))
            elif op == "enable": mask[c] = int(t[2])
            after = trig(c)
            if not after:
                for cl_ in calls.values():
                    cl_.get("steady", set()).discard(c)
            if kv.get("t") != ("1" if after else "0"):
                bad(i, "trigger-wrong", f"trigger value must be {int(after)}")
            woke = [] if kv.get("wake", "-") == "-" else [int(x) for x in kv["wake"].split(",")]
            for w in woke:
                if w in calls: calls[w]["woken"] = True
            if after and not before:
                for w, cl in calls.items():
                    if cl["phase"] == "waiting" and c in cl["conds"] and not cl["woken"]:
                        bad(i, "set-enabled-no-notify" if op == "enable" else "add-no-notify",
                            f"condition {c} became true but the blocked wait call {w} was not woken")
        elif op == "start":
            w = int(t[1])
            if w in calls:
                if o[0] != "gone": bad(i, "harness", "call id reused")
                continue
            cs = [] if t[2] == "-" else [int(x) for x in t[2].split(",")]
            calls[w] = {"conds": cs, "phase": o[0], "acc": [], "woken": False, "cur": int(o[1]) if len(o) > 1 and o[1].isdigit() else None,
                        "steady": set(c for c in cs if trig(c))}   # attached conditions true since the call started
            exp = "err-precondition" if not cs else f"checking {cs[0]}"
            if " ".join(o[:2]) != exp and o[0] != exp:
                bad(i, "wait-phase-wrong", f"expected `{exp}`")
        elif op == "wstep":
            w = int(t[1])
            cl = calls.get(w)
            if cl is None or cl["phase"] in ("done", "err-precondition"):
                if o[0] != "gone": bad(i, "harness", "no such call")
                continue
            prev, cur = cl["phase"], cl["cur"]
            if prev in ("checking", "collecting", "registering") and cur is not None:
                tv = trig(cur)
                if kv.get("t") != ("1" if tv else "0"):
                    bad(i, "trigger-wrong", f"trigger value of condition {cur} must be {int(tv)}")
                if tv and prev != "registering": cl["acc"].append(cur)
            cl["phase"] = o[0]
            cl["cur"] = int(o[1]) if len(o) > 1 and o[1].isdigit() else None
            if o[0] == "waiting":
                hot = [c for c in cl["conds"] if trig(c)]
                if hot:
                    bad(i, "waiting-while-triggered", f"wait call {w} blocks although attached condition(s) {hot} are true")
                if prev == "waiting" and cl["woken"]:
                    bad(i, "woken-but-still-waiting", f"wait call {w} was woken but its poll is still Pending")
            if o[0] == "collecting" and prev != "collecting":
                cl["acc"] = []
                cl["woken"] = False
            if o[0] == "done":
                got = [] if o[1] == "-" else [int(x) for x in o[1].split(",")]
                if got != cl["acc"]:
                    bad(i, "wait-result-wrong", f"returned {got}, but the attached conditions true when queried were {cl['acc']}")
                missing = sorted(c for c in cl["steady"] if c not in got)
                if missing:
                    # independent of which conditions the implementation chose to query (seeded change C32_d: return at the first hit)
                    bad(i, "wait-result-incomplete", f"returned {got}, but attached condition(s) {missing} have been true ever since the call started")
                if prev == "checking" and not got:
                    bad(i, "wait-result-wrong", "first loop returned an empty list")
        if len(viol) >= 3:
            break
    return viol


def nontrivial(case, out):
    stepped = any(l.startswith("wstep") and o != "gone" for l, o in zip(case.lines, out))
    changed = any(l.split()[0] in ("add", "enable") for l in case.lines)
    return stepped and changed


def exhaustive(alpha, length):
    for n in range(1, length + 1):
        for combo in itertools.product(alpha, repeat=n):
            yield Case(list(combo))


def run(ctx):
    r = ctx.rng
    quick = ctx.tier == "quick"
    cases = [Case(list(c)) for c in CORPUS]
    cases += list(exhaustive(A1, 5 if quick else 7))
    cases += list(exhaustive(A2, 4 if quick else 5))
    for _ in range(6000 if quick else 80000):
        cases.append(Case(gen_random(r)))
    for c in cases:
        for l in c.lines:
            ctx.count(l.split()[0])
    ctx.differential(ENGINE, cases, nontrivial=nontrivial, oracle=oracle)


TECHNIQUE = ("Lean 4 invariant over arbitrary step lists (status changes, reads, set_enabled_statuses, phases of concurrent wait "
             "calls) + differential correspondence with the real DcpsStatusCondition and the real WaitSetAsync::wait future "
             "polled by hand")
LEVEL = "proof"
LEVEL_TEXT = ("Kernel-checked Lean theorems over ALL step lists (any interleaving of add_communication_state, status reads, "
              "set_enabled_statuses and the suspension points of any number of concurrent wait calls): C32_trigger_iff (trigger "
              "value <=> some status enabled by the latest mask changed since it was last read; as-is and fixed code), "
              "C32_no_lost_wakeup (a blocked un-notified wait call is registered, with its waker, on every attached condition "
              "and none of them is triggered), C32_notified_at_trigger_step (the step that makes an attached trigger true - "
              "add_communication_state or set_enabled_statuses - notifies and wakes the blocked call), "
              "C32_returns_all_triggered / C32_returns_triggered_immediately (the loops of wait return exactly the triggered "
              "attached conditions). The wake-up theorems are for the code WITH fixes/D37.patch; the as-is defect D37 "
              "(set_enabled_statuses does not notify) is kept as C32_set_enabled_lost_wakeup_counterexample and was replayed on "
              "the real code. Tied to the real DcpsStatusCondition and the real WaitSetAsync::wait by exhaustive short and "
              "random long step lists; the harness plays the DCPS worker.")
LEVEL_NOTE = ("Trusted / outside the model: the DCPS worker serialises all accesses (the harness executes the four "
              "StatusConditionMail arms of dcps_mail_handler.rs itself; the entity lookup of status_condition_methods.rs and "
              "entity deletion are not modelled); the timeout of the blocking WaitSet::wait wrapper (block_timeout, C42); the "
              "notification and one-shot channels (C34); the merge of 'worker answers' and 'task resumes' into one step (the "
              "resumption only touches task-local state and the FIFO mail channel); Lean kernel, hand-written model "
              "Model/Cond.lean, harness, Python oracle. Requires fixes/D37.patch: on the tree without it the check reports "
              "VIOLATION (cause set-enabled-no-notify).")
DESIGN_REF = "DESIGN.md section 5 C32"
