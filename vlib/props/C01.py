"""C01: reliable delivery - every sample still held arrives exactly once, in order, payload intact, despite faults."""
from vlib.rtps_common import *

RULE = ("a real RtpsStatefulWriter and a reliable RtpsStatefulReader; 1-7 writes with payload sizes 0,1,f-1,f,f+1,2f,3f+1,... "
        "(fragmented and not), KEEP_ALL-style (no removal) and removals (KEEP_LAST replacement / lifespan), late joiners "
        "(TRANSIENT_LOCAL and VOLATILE), up to 40 adversary directives (deliver any in-flight datagram, drop, duplicate), then a "
        "healing suffix of (tick 250 ms, FIFO flush) rounds; plus ALL fault scripts of length <= 2 (quick) / <= 4 (thorough) over a "
        "7-directive alphabet on two 3-sample set-ups; non-trivial = >= 2 writes or a fragmented sample, >= 1 fault "
        "directive, >= 1 delivery")
ASSUMPTIONS = ["the network does not forge datagrams (forgery is C06); after the fault prefix it delivers FIFO",
               "one writer and one reader; the worker cadence (when write_message runs) is an input (`tick`), see C31",
               "heartbeat / acknack counts do not wrap (< 2^31 messages)",
               "the delivered model is the tree with fixes/D1_D44.patch, D2_D8.patch, D43.patch, D4_D42.patch; on a tree without "
               "them the model variant is selected from the source text and the oracle reports D1, D2, D43, D44",
               "liveness (C01_eventual) is NOT proved: it is checked by the oracle on every generated schedule only"]

CORPUS = [
    # D2 exemplar: TRANSIENT_LOCAL history {1,3}, late reader, DATA 1 lost -> GAP(2) skips 1
    ["init rel tl 8", "write x01", "write x02", "write x03", "remove 2", "match", "tick 10", "drop 0"],
    # D1 exemplar
    ["init rel vol 8", "match", "write p20.3", "drop 1", "flush"],
    # D43 exemplar: re-announcement after delivery, no fault
    ["init rel tl 8", "match", "write x01", "write x02", "flush", "match", "write x03", "flush"],
    # D44 exemplar
    ["init rel vol 8", "match", "write p2400.1", "deliver 0", "deliver 298"],
    # stale fragments of a removed sample block the ACKNACK set (D-rtps-1)
    ["init rel vol 8", "match", "write p20.3", "deliver 0", "drop 0", "drop 0", "remove 1", "write x02", "drop 0"],
    # reorder + duplicate + loss with a fragmented sample (non-vacuity schedule of the Lean file)
    ["init rel vol 8", "match", "write x01", "write p20.3", "write x03", "deliver 4", "dup 1", "drop 0", "deliver 2", "deliver 0"],
]


def oracle(case, out):
    v = [x for x in safety_oracle(case, out, check_skip=True)]
    return attribute(case, v + liveness_oracle(case, out))


ALPHABET = ["deliver 0", "deliver 1", "deliver 2", "drop 0", "drop 1", "drop 3", "dup 0"]


def exhaustive(cfg, depth):
    """every fault script of length <= depth over the alphabet, applied after three writes (the second one fragmented,
    the first one removed in half of the set-ups), followed by the healing suffix"""
    import itertools
    out = []
    for setup in (["init rel vol 8", "match", "write x01", "write p20.3", "write x03"],
                  ["init rel tl 8", "write x01", "write p17.1", "match", "write x03", "remove 1"]):
        for n in range(depth + 1):
            for script in itertools.product(ALPHABET, repeat=n):
                out.append(Case([cfg_line(cfg)] + setup + list(script) + heal_suffix(6), {"rel": True, "heal": True}))
    return out


def run(ctx):
    r = ctx.rng
    cfg = preflight(ctx)
    cases = exhaustive(cfg, 2 if ctx.tier == "quick" else 4)
    ctx.count("exhaustive-scripts", len(cases))
    for ops in CORPUS:
        nw = sum(1 for o in ops if o.startswith("write"))
        cases.append(Case([cfg_line(cfg)] + ops + heal_suffix(nw + 5), {"rel": True, "heal": True}))
    n = 300 if ctx.tier == "quick" else 6000
    for k in range(n):
        cases.append(gen_system_case(r, cfg, rel=True, heal=True, rematch=(k % 6 == 0), removals=(k % 3 != 0)))
    for k in range(n // 5):
        cases.append(gen_gap_replay_case(r, cfg, rel=True, heal=True))
    count_ops(ctx, cases)
    ctx.differential(ENGINE, cases, nontrivial=nontrivial_system, oracle=oracle)


TECHNIQUE = "Lean 4 invariants over arbitrary step lists (writer, reader, adversary) + differential correspondence with the real RTPS endpoints"
LEVEL_TEXT = ("Kernel-checked Lean theorems for the system model (real transcriptions of write_message_reliable, on_acknack / on_nack_frag, "
              "on_data[_frag]_submessage, GAP/HEARTBEAT glue, ACKNACK/NACK_FRAG emission; adversary = deliver any in-flight datagram, drop, "
              "duplicate): C01_in_order_once (for EVERY step list the delivered list has strictly increasing sequence numbers and every "
              "entry equals the published change, payload included, fragmented or not), C01_no_skip / C01_held_not_skipped (every number "
              "at or below available_changes_max was delivered or had been removed / was never relevant; a change still held and relevant "
              "below that mark IS in the cache) and C01_no_panic (no step list panics the endpoints, in particular the NACK_FRAG "
              "construction), C01_forged_hb_no_duplicate (in every reachable state a HEARTBEAT of any content followed by a copy of the DATA of a delivered sample changes nothing) - proved for the tree with the fix patches (each theorem names the patches it needs); as-is witnesses C01_gap_skip_asis_counterexample (D2), C01_rematch_duplicates_asis_counterexample (D43). "
              "PARTIAL: the liveness clause C01_eventual is stated but not proved; it is checked by the oracle after a healing suffix "
              "on every generated schedule.")
LEVEL_NOTE = ("Trusted: Lean kernel; Model/Rtps.lean (one writer, one reader, Nat sequence numbers and counts, clock as input); "
              "harness/src/bin/rtps.rs with its transcription of the GAP/HEARTBEAT glue (source-hash guarded); Python oracle.")
DESIGN_REF = "DESIGN.md section 5 C01"
LEAN_MODULES = ["DustVerif.Props.C01"]
