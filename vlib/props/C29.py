"""C29: expired samples (source timestamp + lifespan in the past) are never put on the wire: first transmission,
repair, history for a late joiner."""
from vlib.wrt_common import *

ENGINE = "wrt"
BINS = ["wrt", "dsim"]
RULE = ("dsim scenarios on the fixed two-participant template: RELIABLE writer with lifespan in {100, 150, 300 ms, 1 s}, KEEP_ALL or "
        "KEEP_LAST(2..3), volatile or TRANSIENT_LOCAL; in 3 of 5 cases an idle writer (infinite or 5 s lifespan) is created first in the same "
        "publisher; reliable reader from the start or late joiner; 4-10 steps of writes (a third "
        "with an explicit source timestamp: just expired, expiring now, in the future), lost DATA (`drop-next n DATA`), withheld / "
        "released ACKNACKs, `advance` / `jump` / `late-release` by lifespan-1, lifespan, lifespan+1, ... ns; a quarter of the cases "
        "start with the recipe lost DATA + withheld NACK + clock moved to the expiry; the datagram trace is recorded from the start "
        "and compared in full. Non-trivial = finite lifespan and the clock passes the expiry of at least one accepted sample "
        "(or a sample is already expired when written); distinct by hash of the op list")
ASSUMPTIONS = ["'delivered' = put on the wire by the writer at a time >= source timestamp + lifespan (the dsim network has no latency, so the reader "
               "accepts a datagram at the instant it is sent); a sample received in time and read later is not covered: the reader keeps no lifespan state",
               "one writer and at most one reader on the fixed template of notes/w2c.md; samples are small (never fragmented); writer enabled",
               "the k-th successful write has sequence number k; its source timestamp is the `ts=` argument or the clock at the call",
               "faults only on ACKNACK datagrams (held, released) and DATA datagrams (dropped)"]
CORPUS = [
    # D34 (DESIGN 7.1, repaired): lifespan 1 s, DATA lost, the NACK is handled at +1.05 s before the overdue worker iteration: was DATA(sn=1) 50 ms after expiry, now a GAP
    TEMPLATE + ["writer w pub t1 reliability=reliable history=keep_all lifespan=1000000000",
                "reader r sub t2 reliability=reliable history=keep_all", "trace on", "drop-next 1 DATA user",
                "now", "write w 1 10", "now", "advance 150000000", "now", "hold ACKNACK user", "advance 100000000", "now",
                "trace show", "late-release 800000000", "now", "trace show", "take r",
                "clear-faults", "release", "advance 1000000000", "now", "take r", "trace show"],
    # the same traffic with a punctual timer: the expired change is answered with a GAP
    TEMPLATE + ["writer w pub t1 reliability=reliable history=keep_all lifespan=1000000000",
                "reader r sub t2 reliability=reliable history=keep_all", "trace on", "drop-next 1 DATA user",
                "now", "write w 1 10", "now", "advance 150000000", "now", "hold ACKNACK user", "advance 100000000", "now",
                "advance 800000000", "now", "release", "take r",
                "clear-faults", "release", "advance 1000000000", "now", "take r", "trace show"],
    # expired at write (source timestamp 1 s in the past), then a late TRANSIENT_LOCAL joiner after the first sample expired
    TEMPLATE + ["writer w pub t1 reliability=reliable history=keep_last:2 lifespan=300000000 durability=transient_local",
                "trace on", "now", "write w 1 1", "now", "advance 200000000", "now", "now", "write w 1 2 ts=-800000000", "now",
                "now", "write w 2 3", "now", "advance 150000000", "now",
                "reader r sub t2 reliability=reliable history=keep_all durability=transient_local",
                "clear-faults", "release", "advance 1000000000", "now", "take r", "trace show"],
    # repair in time: DATA lost, lifespan 300 ms, heartbeat after 200 ms repairs it before expiry
    TEMPLATE + ["writer w pub t1 reliability=reliable history=keep_all lifespan=300000000",
                "reader r sub t2 reliability=reliable history=keep_all", "trace on", "drop-next 1 DATA user",
                "now", "write w 1 1", "now", "advance 250000000", "now", "take r",
                "clear-faults", "release", "advance 1000000000", "now", "trace show"],
    # two writers in one participant, the first with the default (infinite) lifespan: the purge must still reach the second;
    # a late TRANSIENT_LOCAL joiner after the expiry gets nothing
    TEMPLATE + ["topic t0 P1 T0 ki", "writer w0 pub t0",
                "writer w pub t1 reliability=reliable history=keep_all lifespan=300000000 durability=transient_local",
                "trace on", "now", "write w 1 1", "now", "advance 900000000", "now",
                "reader r sub t2 reliability=reliable history=keep_all durability=transient_local",
                "clear-faults", "release", "advance 1000000000", "now", "take r", "trace show"],
]

oracle = c29_oracle
nontrivial = c29_nontrivial


def run(ctx):
    r = ctx.rng
    n = 260 if ctx.tier == "quick" else 2500
    cases = [Case(list(c), {"kind": "corpus"}) for c in CORPUS]
    for k in range(n):
        cases.append(gen_c29(r, long=(ctx.tier == "thorough" and k % 8 == 0)))
    impl = differential(ctx, cases, nontrivial, oracle)
    for c, io in zip(cases, impl):
        for l, o in zip(c.lines, io):
            t = l.split()
            if t and t[0] == "write":
                ctx.count("write:" + o + (":ts" if len(t) > 4 else ""))
            elif t and t[0] in ("late-release", "jump", "advance", "release", "reader", "take", "drop-next", "hold"):
                ctx.count(t[0])


LEVEL_TEXT = ("Kernel-checked Lean theorems over ALL states and event lists of the writer model (worker of /repo main: remove_stale_writer_samples "
              "runs before every mail and in every iteration): NO event list - whatever the writes, ACKNACKs, reader matches, worker iterations and "
              "their times, late timers included - makes the writer send a change whose source timestamp + lifespan lies at or before the time of "
              "sending (C29_no_expired_send), because every single step sends only unexpired changes and leaves the history fresh, for every state and "
              "clock value (C29_step_sends_fresh, C29_tick_sends_fresh: first transmission of a parked write, repair after a NACK, history for a late "
              "joiner); a sample already expired when written is neither stored nor sent (C29_expired_at_write_not_sent). The defect D34 found by this "
              "check (an ACKNACK handled while the worker's timer is late was answered from the history before the purge: DATA re-sent 50 ms after its "
              "expiry and presented by the reader) is repaired in /repo; its pre-fix behaviour is kept as Lean regression witness "
              "(C29_no_expired_send_asis_counterexample on `stepAsIs`, with the theorem that held before, C29_no_expired_send_asis_partial). The model "
              "is tied to the real code by dsim scenarios whose every answer and complete datagram trace is predicted by the compiled model (late-timer "
              "situations are produced with the dsim op `late-release`); the oracle re-checks every DATA emission time against source timestamp + "
              "lifespan on the implementation's trace alone.")
LEVEL_NOTE = ("Trusted: Lean kernel; Model/WriterEnt.lean and Model/WrtWorld.lean (the latter only selects the event list of a scenario); the dsim simulator, "
              "its scenario interpreter and the extension op `late-release` (clock jumps, held datagrams are delivered before the overdue timers fire); "
              "canonicaliser and oracle in vlib/wrt_common.py. Not covered: a datagram delayed in the network past the expiry is accepted by the reader "
              "(dust-dds readers keep no lifespan state; outside the interpretation fixed in DESIGN.md section 5 C29); fragmented samples; wall-clock timers.")
TECHNIQUE = "Lean 4 per-step / run theorems with a freshness invariant over all event lists of the writer model + differential correspondence in the deterministic simulator dsim (late-timer directive)"
DESIGN_REF = "DESIGN.md section 5 C29"
LEAN_MODULES = ["DustVerif.Props.C29"]
