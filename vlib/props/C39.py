"""C39: compatible type evolution preserves the common members: when the reader's type is assignable from the writer's,
decoding the writer's sample with the reader's type yields the projection of the value onto the reader's type."""
import os
import sys
from vlib.core import Case
from vlib import xcdr_common as X

ENGINE = "xcdr"
RULE = ("one op line per case: `evo <ver> <endianness> <writer type> <value> <reader type>` -> the real "
        "`CompleteTypeObject::from(reader).is_assignable_from(&CompleteTypeObject::from(writer))` and the real "
        "`deserialize_top_level_type(reader type, serialize_cdr<ver>(writer value))`; reader types are derived from random "
        "writer types by edits: appendable - members dropped / added at the end; mutable - members added, removed, "
        "reordered; edits inside nested structures; and edits assignability has to reject (member type / id / "
        "extensibility changed, must-understand or key member on one side only, no common member); "
        "a case is non-trivial when the two types differ; distinct by canonical op line")
ASSUMPTIONS = [
    "member names are a function of the member id (harness: m<id>): the member-name rules of assignability are not exercised",
    "default TypeConsistencyEnforcementQosPolicy (ALLOW_TYPE_COERCION, sequence / string bounds ignored, names not ignored)",
    "the typed view (`create_sample` of a derived type) is outside the model: D49 is replayed by two fixed derived types only",
    "model = tree configuration detected from the sources (see C09)",
]
NESTED = "assignability-does-not-compare-nested-types"
LEAN = {}


def lean_evolves(ver, tw, v, tr):
    key = f"evolves {ver} {tw} {v} {tr}"
    if key not in LEAN:
        LEAN[key] = X.model_outputs([key])[0]
    return LEAN[key]


def nontrivial(case, out):
    t = case.lines[0].split()
    if t[0] == "typed":
        return t[2] != "a2-a2"
    return t[3] != t[5]


TYPED = {   # derived types of the harness: expected typed sample (reader-only members at their default value)
    "a1-a2": "dynamic ok | typed Some({7,0})", "a2-a1": "dynamic ok | typed Some({7})", "a2-a2": "dynamic ok | typed Some({7,9})",
    "m1-m2": "dynamic ok | typed Some({5,0,7})", "m2-m1": "dynamic ok | typed Some({7,5})",
}
D49 = "typed-sample-none-when-reader-only-member-has-no-value"


def oracle(case, out):
    if len(out) != 1:
        return [{"what": "case crashed", "ops": case.lines, "got": out}]
    if case.lines[0].startswith("typed "):
        pair = case.lines[0].split()[2]
        if out[0] == TYPED[pair]:
            return []
        cause = D49 if out[0] == "dynamic ok | typed None" and pair in ("a1-a2", "m1-m2") else None
        return [{"what": f"the typed sample is {out[0]}, expected {TYPED[pair]}", "ops": case.lines, "got": out, "cause": cause}]
    _, vers, end, tws, vs, trs = case.lines[0].split()
    ver = int(vers)
    tw, tr, v = X.parse_ty(tws), X.parse_ty(trs), X.parse_val(vs)
    viol = []

    def bad(what, cause):
        if cause is None and os.environ.get("XCDR_DEBUG"):
            print("UNATTRIBUTED", what, case.lines, out, file=sys.stderr)
        viol.append({"what": what, "ops": case.lines, "got": out, "cause": cause})

    parts = out[0].split(" | ")
    if len(parts) != 2 or not parts[0].startswith("asg "):
        if out[0] in ("PANIC", "ALLOC-LIMIT"):
            bad(f"the case ends in {out[0]}", X.attribute(X.strip_keys(tw), v, ver))
        else:
            bad("malformed answer", None)
        return viol
    asg = parts[0] == "asg 1"
    strict = X.strict_assignable(tr, tw)
    lean = lean_evolves(ver, X.ty_text(X.strip_keys(tw)), vs, X.ty_text(X.strip_keys(tr)))
    inside = lean.startswith("evolves 1")
    if strict and not asg:
        bad("the types are related by the evolution rules but the code says not assignable", None)
    if asg and not strict:
        bad("the code says assignable, but the types are not related by the evolution rules "
            "(a common member has another type, or nested types differ incompatibly)",
            NESTED if X.lenient_assignable(tr, tw) else None)
        return viol
    if not asg:
        return viol
    # assignable: the common members must be preserved
    try:
        want = "ok " + X.val_text(X.ideal_project(tr, tw, v))
    except X.Incompat:
        return viol
    if inside and lean.split(" ", 2)[2] != want[3:]:
        bad(f"the Lean projection {lean.split(' ', 2)[2]} differs from the Python projection {want[3:]}", None)
    if parts[1] != want:
        cause = None
        if not inside:
            diffs = X.nested_differences(tr, tw, ver)
            for c in ("xcdr2-nested-appendable-reader-extra-member-unbounded", "xcdr1-nested-appendable-not-delimited",
                      "xcdr2-nested-mutable-absent-member-search-unbounded", "reader-extra-member-reads-padding"):
                if c in diffs:
                    cause = c
                    break
            if cause is None:
                cause = X.attribute(X.strip_keys(tw), v, ver)
            if cause is None:
                try:
                    cause = X.attribute(X.strip_keys(tr), X.ideal_project(tr, tw, v), ver)
                except Exception:
                    cause = None
        bad(f"assignable, but the reader sees {parts[1]} instead of {want}", cause)
    return viol


def gen_cases(ctx):
    r = ctx.rng
    n = 800 if ctx.tier == "quick" else 14000
    cases = [Case([c]) for c in CORPUS]
    for k in range(n):
        ver = r.choice([1, 2])
        kn = X.Knobs(ver=ver, ext="AAAMMMF", nesting=3, long=0)
        tw = X.gen_type(r, kn)
        if k % 3 and tw[1] == "F":
            tw = ("struct", r.choice("AM"), tw[2])
        tw = X.strip_keys(tw) if k % 7 else tw
        tr, kind = X.evolve_type(r, tw, ver)
        v = X.gen_value(r, tw, kn, ver=ver)
        if not X.legal_sample(tw, v):
            continue
        ctx.count("edit: " + kind)
        cases.append(Case([f"evo {ver} {r.choice(['le', 'be'])} {X.ty_text(tw)} {X.val_text(v)} {X.ty_text(tr)}"]))
    return cases


CORPUS = [
    # top-level appendable: writer longer / reader longer
    "evo 1 le SA{0:u8,1:u32} {7,9} SA{0:u8}",
    "evo 2 le SA{0:u8,1:u32} {7,9} SA{0:u8}",
    "evo 1 le SA{0:u8} {7} SA{0:u8,1:u32}",
    "evo 2 be SA{0:u8} {7} SA{0:u8,1:s}",
    # reader-side extra member smaller than the encapsulation padding: read from the padding
    "evo 1 le SA{0:u8} {7} SA{0:u8,1:u8}",
    "evo 2 le SA{0:u8} {7} SA{0:u8,1:Ei8[1,2]}",
    # mutable: added / removed / reordered
    "evo 1 le SM{0:u8,3:u32,2:s} {7,9,x6162} SM{2:s,5:u16,0:u8}",
    "evo 2 le SM{0:u8,3:u32,2:s} {7,9,x6162} SM{2:s,5:u16,0:u8}",
    # D48: nested appendable, reader-side extra member, XCDR2
    "evo 2 le SM{0:SA{0:u8},2:u16} {{7},5} SM{0:SA{0:u8,1:u32},2:u16}",
    "evo 2 le SF{0:SA{0:u8,1:u32},1:u16} {{7,9},5} SF{0:SA{0:u8},1:u16}",
    "evo 1 le SF{0:SA{0:u8,1:u32},1:u16} {{7,9},5} SF{0:SA{0:u8},1:u16}",
    # nested types are not compared
    "evo 2 le SF{0:SF{0:u64,1:s},1:u16} {{1,x61},5} SF{0:SF{0:u8},1:u16}",
    "evo 2 le SA{0:SF{0:u8}} {{7}} SA{0:u8}",
    "evo 1 le SA{0:u64} {7} SA{0:Ei8[1]}",
    # rejected
    "evo 1 le SA{0:u8} {7} SM{0:u8}",
    "evo 1 le SM{0:u8} {7} SM{0:u8,1m:u8}",
    "evo 1 le SM{0:u8} {7} SM{3:u8}",
    "evo 1 le SA{0:u16} {7} SA{0:u8}",
    # D49: the typed view (derived types EvoA1 / EvoA2 / EvoM1 / EvoM2 of the harness)
    "typed 1 a1-a2", "typed 2 a1-a2", "typed 1 a2-a1", "typed 2 a2-a1", "typed 1 a2-a2", "typed 2 a2-a2",
    "typed 1 m1-m2", "typed 2 m1-m2", "typed 1 m2-m1", "typed 2 m2-m1",
]


def run(ctx):
    cases = gen_cases(ctx)
    eng = X.model_engine()
    ctx.count("model-engine " + eng)
    keys = []
    for c in cases:
        if c.lines[0].startswith("typed "):
            ctx.count("typed view (derived types)")
            continue
        _, ver, end, tws, vs, trs = c.lines[0].split()
        tw, tr = X.parse_ty(tws), X.parse_ty(trs)
        keys.append(f"evolves {ver} {X.ty_text(X.strip_keys(tw))} {vs} {X.ty_text(X.strip_keys(tr))}")
        ctx.count(f"extensibility {tw[1]}{'' if tw[1] == tr[1] else '->' + tr[1]}")
        ctx.count("python: " + ("related by the evolution rules" if X.strict_assignable(tr, tw) else "not related"))
    keys = sorted(set(keys))
    for k, o in zip(keys, X.model_outputs(keys, eng)):
        LEAN[k] = o
    ctx.count("inside the hypotheses of C39_project_partial", sum(1 for k in keys if LEAN[k].startswith("evolves 1")))
    ctx.count("outside", sum(1 for k in keys if not LEAN[k].startswith("evolves 1")))
    for i in range(0, len(cases), 4000):
        ctx.differential(ENGINE, cases[i:i + 4000], nontrivial=nontrivial, oracle=oracle, model_engine=eng, shrink=False)


TECHNIQUE = ("Lean 4 theorems over the XCDR model decoding with a reader type different from the writer type, and over a "
             "transcription of is_assignable_from + differential correspondence with the real type objects / (de)serializers")
LEVEL_TEXT = ("Kernel-checked Lean theorems: C39_refl (every type, key flags and nesting included, is assignable from itself), "
              "C39_project_partial (for ALL pairs of top-level structure types in the decidable evolution relation `evolves` - "
              "appendable: one member list is a prefix of the other; mutable: members added, removed, reordered, common members "
              "matched by id - every writer value inside the C09 round-trip subset, XCDR1 and XCDR2, both byte orders, every "
              "configuration: decoding the writer's bytes with the READER's type yields exactly the projection: common members "
              "keep their value, reader-only members have no value, writer-only members are skipped), C39_agrees (every pair of the "
              "relation is accepted by the transcription of is_assignable_from, so the theorem is about pairs the middleware "
              "matches). Partial: common members must have equal types (evolution of nested types is outside), the first reader-only "
              "member of an appendable type must be non-optional and start with >= 4 bytes; and the code's `assignable` is far weaker "
              "than `evolves`: nested types are not compared at all. Kernel-checked witnesses, each replayed on the real code: "
              "C39_nested_types_not_compared_counterexample, C39_reader_extra_member_reads_padding_counterexample, "
              "C39_xcdr2_nested_appendable_counterexample (D48), C39_xcdr1_nested_appendable_counterexample, "
              "C39_typed_sample_lost_counterexample (D49). The model (decoder driven by the reader type + assignability) is tied to "
              "the code by hundreds of random type pairs / values: real type objects, real is_assignable_from, real serializer and "
              "deserializer, compared line by line; an independent Python projection / evolution-rule checker is the oracle.")
LEVEL_NOTE = ("Trusted: Lean kernel; Model/Xcdr.lean (decoder, as for C09) and Model/Assign.lean (transcription of "
              "type_object.rs:2435-2843 for structure types, default TypeConsistencyEnforcement policy; member names are a function "
              "of the id, unions / bitmasks / maps are not modelled); the typed view (`create_sample`) is modelled by `typedView` "
              "and exercised with four fixed derived types only; harness and oracle.")
DESIGN_REF = "DESIGN.md section 5 C39"
