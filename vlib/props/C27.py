"""C27: a RELIABLE KEEP_LAST writer blocks instead of dropping unacknowledged samples; Timeout after max_blocking_time
stores nothing; never more than `depth` samples per instance."""
from vlib.wrt_common import *

ENGINE = "wrt"
BINS = ["wrt", "dsim"]
RULE = ("dsim scenarios on the fixed two-participant template: KEEP_LAST(1..3) writer (mostly RELIABLE, max_blocking_time from "
        "{0, 1 ns, 30..400 ms, 1 s, infinite}), reader reliable from the start / best-effort / late joiner (volatile or "
        "TRANSIENT_LOCAL) / absent; 4-12 steps of writes to 1-3 instances interleaved with `hold ACKNACK`, `release`, "
        "`drop-if ACKNACK [times=n]`, `drop-next n DATA`, `advance`, `unregister`; a third of the writes carry an explicit source timestamp "
        "(5 s / 1 s in the past, 0, 3 s / 20 s in the future); a fifth of the blocking cases park a write with `write-bg`, unregister its "
        "instance and `join`; `now` before and after every write; a final drain "
        "(clear-faults, release, advance 2 s, take); half of the cases also compare the complete datagram trace. "
        "Non-trivial = RELIABLE KEEP_LAST writer with a matched reliable reader and at least one write issued while "
        "acknowledgements were withheld or data was being dropped, or that had to wait, or that timed out; distinct by hash of the op list")
ASSUMPTIONS = ["one writer and at most one reader on the fixed template of notes/w2c.md; samples are small (never fragmented)",
               "faults only on ACKNACK datagrams (held, dropped, released) and on DATA datagrams (dropped); the simulated network has no latency",
               "the hold/drop rule decides which ACKNACKs the writer sees; inside dust-dds the acknowledgement state is RtpsReaderProxy::highest_acked_seq_num as coded",
               "virtual time: timers fire exactly when due (dsim `advance`); the writer is enabled; QoS is consistent (depth <= max_samples_per_instance <= max_samples, depth >= 1)"]
CORPUS = [
    # DESIGN 7.1 replay: ACKNACKs withheld, depth 2: the third write to the instance blocks and times out at exactly max_blocking_time
    TEMPLATE + ["writer w pub t1 reliability=reliable history=keep_last:2 max_blocking=130000000",
                "reader r sub t2 reliability=reliable history=keep_all", "trace on", "now", "write w 1 10", "now",
                "hold ACKNACK user", "now", "write w 1 11", "now", "now", "write w 1 12", "now", "now", "write w 1 13", "now",
                "release", "now", "write w 1 14", "now", "clear-faults", "release", "advance 2000000000", "now", "take r", "trace show"],
    # lost DATA + withheld ACKNACK: dropping the unacknowledged sample would lose it for ever
    TEMPLATE + ["writer w pub t1 reliability=reliable history=keep_last:1 max_blocking=50000000",
                "reader r sub t2 reliability=reliable history=keep_all", "drop-next 1 DATA user", "hold ACKNACK user",
                "now", "write w 1 1", "now", "now", "write w 1 2", "now", "advance 250000000", "now", "release", "now", "write w 1 3", "now",
                "clear-faults", "release", "advance 2000000000", "now", "take r"],
    # three ACKNACKs lost: the write completes when the fourth heartbeat is answered (600 ms), inside max_blocking_time
    TEMPLATE + ["writer w pub t1 reliability=reliable history=keep_last:1 max_blocking=1000000000",
                "reader r sub t2 reliability=reliable history=keep_all", "trace on", "drop-if ACKNACK user times=3",
                "now", "write w 1 1", "now", "now", "write w 1 2", "now", "clear-faults", "release", "advance 2000000000", "now", "take r", "trace show"],
    # late TRANSIENT_LOCAL joiner: at most depth samples per instance, the newest ones
    TEMPLATE + ["writer w pub t1 reliability=reliable history=keep_last:2 max_blocking=100000000 durability=transient_local",
                "now", "write w 1 1", "now", "now", "write w 1 2", "now", "now", "write w 2 3", "now", "now", "write w 1 4", "now",
                "reader r sub t2 reliability=reliable history=keep_all durability=transient_local",
                "clear-faults", "release", "advance 2000000000", "now", "take r"],
    # the blocking time is counted from the clock, not from the sample's source timestamp (old and future stamps)
    TEMPLATE + ["writer w pub t1 reliability=reliable history=keep_last:1 max_blocking=300000000",
                "reader r sub t2 reliability=reliable history=keep_all", "hold ACKNACK user", "now", "write w 1 1", "now",
                "now", "write w 1 2 ts=-5000000000", "now", "now", "write w 1 3 ts=5000000000", "now",
                "drop-if ACKNACK user times=1", "hold-off", "release", "now", "write w 1 4 ts=-5000000000", "now",
                "now", "write w 1 5 ts=-5000000000", "now", "clear-faults", "release", "advance 2000000000", "now", "take r"],
    # the instance of a blocked write is unregistered while the write is parked (two calls in flight): it keeps waiting
    TEMPLATE + ["writer w pub t1 reliability=reliable history=keep_last:1 max_blocking=200000000",
                "reader r sub t2 reliability=reliable history=keep_all", "hold ACKNACK user", "now", "write w 1 1", "now",
                "now", "write-bg w 1 2", "unregister w 1", "advance 60000000", "now", "join", "now",
                "lookup w 1", "clear-faults", "release", "advance 2000000000", "now", "take r"],
]

oracle = c27_oracle
nontrivial = c27_nontrivial


def run(ctx):
    r = ctx.rng
    n = 260 if ctx.tier == "quick" else 2500
    cases = [Case(list(c), {"kind": "corpus"}) for c in CORPUS]
    for k in range(n):
        cases.append(gen_c27(r, long=(ctx.tier == "thorough" and k % 8 == 0)))
    impl = differential(ctx, cases, nontrivial, oracle)
    for c, io in zip(cases, impl):
        for l, o in zip(c.lines, io):
            t = l.split()
            if t and t[0] == "write":
                ctx.count("write:" + o)
            elif t and t[0] in ("hold", "release", "drop-if", "drop-next", "advance", "reader", "take"):
                ctx.count(t[0])
        ctx.count("reader-mode:%s" % c.meta.get("mode", "corpus"))


LEVEL_TEXT = ("Kernel-checked Lean theorems over ALL states and ALL event lists (writes, ACKNACKs of arbitrary content and order, worker "
              "iterations at arbitrary times, reader matches) of the writer model: with KEEP_LAST(d), d >= 1, no instance ever holds more than d "
              "samples (C27_depth); every remove_change on the KEEP_LAST path concerns a sample that every matched reliable reader has acknowledged "
              "(C27_no_unacked_drop, C27_no_unacked_drop_run); a write to a full instance whose oldest sample is unacknowledged is parked with "
              "expiration now + max_blocking_time and stores / sends nothing (C27_blocks); it is answered Timeout by the first worker iteration at or "
              "after the expiration, storing nothing (C27_timeout_at_expiry), by no other step and never earlier (C27_timeout_only_at_expiry), stays "
              "parked unchanged until answered (C27_pending_kept) and is completed only once the oldest sample is acknowledged or the instance has room "
              "(C27_ok_only_after_ack). The model transcribes writer_methods.rs / data_writer_entity.rs / stateful_writer.rs / reader_proxy.rs; it is "
              "tied to the real code by hundreds (thorough: thousands) of dsim scenarios over the public async API in virtual time whose every answer "
              "(write results, completion times, reader contents, in half of the cases the full datagram trace) is predicted by the compiled model, "
              "and an oracle re-checks timing, blocking under withheld acknowledgements and the reader's final contents on the implementation's "
              "answers alone (a late TRANSIENT_LOCAL joiner must receive exactly the newest `depth` samples per instance the writer holds). The property holds.")
LEVEL_NOTE = ("Trusted: Lean kernel; Model/WriterEnt.lean (writer entity + RTPS stateful writer, unfragmented samples, keys as Nat, times as ns) and "
              "Model/WrtWorld.lean (worker schedule, reader endpoint, dsim network and fault rules - used only to pick the event list a scenario "
              "produces, no theorem depends on it); the dsim simulator and its scenario interpreter (one extension op `late-release`, not used by "
              "this property); canonicaliser and oracle in vlib/wrt_common.py. Liveness of the wait (that an acknowledgement eventually arrives) and "
              "the latency of the worker's timer are outside this property (C31). A second writer blocked on the same DataWriter ('Another writer "
              "already waiting') is modelled but cannot be produced by the sequential scenario interpreter.")
TECHNIQUE = "Lean 4 invariant / per-step theorems over all event lists of the writer model + differential correspondence with the real stack in the deterministic simulator dsim"
DESIGN_REF = "DESIGN.md section 5 C27"
LEAN_MODULES = ["DustVerif.Props.C27"]
