"""C09: XCDR serialization round-trips every value of every supported type (XCDR1/XCDR2, LE/BE) and the
encapsulation padding is recorded."""
import re
from vlib.core import Case
from vlib import xcdr_common as X

ENGINE = "xcdr"
RULE = ("one `rt <ver> <endianness> <type> <value>` line per case: random dynamic types (nesting <= 4; final / appendable / "
        "mutable structures, optional / key / must-understand members, member ids in and out of declaration order, "
        "primitives of every width, strings incl. multi-byte UTF-8 and embedded NUL, enums, sequences and arrays of "
        "primitives / strings / enums / structures) and random values biased to boundaries (0, max, sign bit, empty and "
        "long collections, absent optionals, 8-byte members after 1-byte members); the hand-written corpus (exemplar of "
        "every finding) runs first; a case is non-trivial when the value contains at least one collection, string or "
        "nested structure; distinct by canonical op line. "
        "FOLLOW-UP 2: one case in nine draws its types with wide strings (values with surrogate pairs, the empty string, "
        "long strings) and enumerations declared appendable / mutable - these are inside the model and the theorem; one "
        "case in nine additionally draws UNIONS (final / appendable / mutable; discriminator kinds u8..i32; several labels "
        "per branch; the default branch at any position or missing; unions nested in unions, in collections, optional). "
        "FINAL and (follow-up 4, after the repair of D77 / D78) APPENDABLE unions are inside the Lean model and the theorem "
        "(differential + oracle like every other case). "
        "MUTABLE unions are NOT in the Lean model: a case whose type text contains `UM` (model "
        "answer `unmodelled`) is the ORACLE-ONLY PART - it runs on the implementation only and is judged by the "
        "round-trip oracle (decode(serialize v) = v on the real code, with and without the recorded padding)")
ASSUMPTIONS = [
    "the model is the tree with fixes/D12 D13 D45 D46 D47 D61 D66 .patch applied (vlib/xcdr_common.tree_cfg detects which "
    "repairs the checkout contains and selects the matching model configuration `xcdr:<bits>`)",
    "values fit the allocation limit of the harness (2^24 bytes per allocation) and 2^32 bytes in total",
    "sequence / array element types are primitive, string, enum or structure (the dynamic-data model has no storage for "
    "collections of collections: todo!() in serializer.rs:297)",
]


def nontrivial(case, out):
    t = case.lines[0].split()
    return t[0] == "rt" and any(c in t[4] for c in "[x{") and t[4].count("{") + t[4].count("[") + t[4].count("x") > 1


WF_CACHE = {}


def in_theorem(ver, ty, val):
    """does the case satisfy the hypotheses of C09_roundtrip_partial (Lean `wfVal cfg ver t v` and `maxSize < 2^32`,
    evaluated by the model driver for the configuration of the tree)? A violation on such a case is never attributed
    to a known finding."""
    key = f"wf {ver} {ty} {val}"
    if key not in WF_CACHE:
        WF_CACHE[key] = X.model_outputs([key])[0]
    return WF_CACHE[key] == "wf 1"


def oracle(case, out):
    line = case.lines[0]
    tk = line.split()
    if tk[0] != "rt":
        return []
    o = out[0] if out else "CRASH"
    ver, ty, val = int(tk[1]), tk[3], tk[4]
    try:
        t, v = X.parse_ty(ty), X.parse_val(val)
    except ValueError:
        return [{"what": "unparsable case", "op": line}]
    viol = []

    def bad(what, cause_ok=True):
        cause = (X.attribute(t, v, ver) or X.attribute_ext(t, v, ver)) if cause_ok else None
        if cause is not None and in_theorem(ver, ty, val):
            cause = None        # inside the proved subset: never suppressed
        viol.append({"what": what, "op": line[:800], "got": o[:400], "cause": cause})

    status, hx, ds = X.parse_rt(o)
    if status != "ok":
        if status == "PANIC":
            bad("the serializer panicked")
        elif status == "ALLOC-LIMIT" or status.startswith("ABORT") or status.startswith("CRASH"):
            bad("decoding the serializer's own output exceeded the allocation limit / aborted")
        else:
            bad(f"the serializer refused a well-formed value: {status}")
        return viol
    want = "ok " + val
    b = bytes.fromhex(hx) if hx != "-" else b""
    # padding: total length multiple of 4, options byte = number of zero bytes appended
    if len(b) % 4 != 0 or len(b) < 4:
        bad(f"serialized length {len(b)} is not a multiple of 4", cause_ok=False)
    elif b[3] > 3 or any(x != 0 for x in b[len(b) - b[3]:]) or b[2] != 0:
        bad(f"options bytes {b[2]:02x}{b[3]:02x} do not describe the padding", cause_ok=False)
    if len(ds) != 3:
        bad("malformed harness answer", cause_ok=False)
        return viol
    if ds[0] != want:
        bad(f"round trip changed the value: decoded {ds[0][:200]}")
        return viol
    if ds[1] != want:
        # (attributable only if the Lean predicate rejects the case, e.g. a sequence of zero-size elements, D70)
        bad(f"the payload without the {b[3]} recorded padding bytes decodes differently: {ds[1][:200]} (pad count too large)")
    if X.strict_tail(t, v, ver) and ds[2] == want and not X.constructs(t, v, ver):
        bad(f"the payload still decodes to the value with {b[3] + 1} bytes removed (pad count too small)", cause_ok=False)
    return viol


def oracle_union(case, out):
    """oracle-only part (types with unions): round trip on the real code"""
    line = case.lines[0]
    tk = line.split()
    o = out[0] if out else "CRASH"
    ver, ty, val = int(tk[1]), tk[3], tk[4]
    try:
        t, v = X.parse_ty(ty), X.parse_val(val)
    except ValueError:
        return [{"what": "unparsable case", "op": line}]
    cause = X.attribute_ext(t, v, ver) or X.attribute(t, v, ver)
    status, hx, ds = X.parse_rt(o)
    want = "ok " + val
    if status != "ok":
        return [{"what": f"serializing a value with a union: {status}", "op": line[:800], "got": o[:400], "cause": cause}]
    if len(ds) != 3:
        return [{"what": "malformed harness answer", "op": line[:800], "got": o[:400], "cause": None}]
    if ds[0] != want:
        return [{"what": f"round trip changed the value (union): decoded {ds[0][:200]}", "op": line[:800], "got": o[:400],
                 "cause": cause}]
    if ds[1] != want:
        return [{"what": f"the payload without the recorded padding decodes differently: {ds[1][:200]}", "op": line[:800],
                 "got": o[:400], "cause": cause}]
    return []


EXT_CORPUS = [
    # wide strings (inside the model): a surrogate pair, the empty string, BMP only, in a sequence, in a mutable struct
    "rt 1 le SF{0:w,1:u8} {[97,55357,56832,98],7}",
    "rt 2 be SF{0:w,1:u8} {[97,55357,56832,98],7}",
    "rt 1 be SF{0:w,1:u8} {[],7}",
    "rt 2 le SF{0:Q(w),1:A2(w)} {[[97],[],[8364]],[[55296,56320],[65535]]}",
    "rt 1 le SM{3:w,1o:w,2:u8} {[55357,56832],_,7}",
    "rt 2 le SM{3:w,1o:w,2:u8} {[55357,56832],[],7}",
    # enumerations with a declared extensibility
    "rt 2 le SM{0:Ei32a[0,1],1:u8} {1,7}",
    "rt 2 be SM{0:Ei16m[0,1],1:Q(Ei8a[2])} {1,[2,2]}",
    # unions (oracle-only part): default branch first / last / missing, several labels, every extensibility
    "rt 1 le SF{0:UFi32{2d:i16,1[5]:i64},1:u32} {<5,1:1108152157446>,3735928559}",
    "rt 2 be SF{0:UFi32{2d:i16,1[5]:i64},1:u32} {<5,1:1108152157446>,3735928559}",
    "rt 2 le SF{0:UFi32{2d:i16,1[5]:i64},1:u32} {<9,2:65534>,3735928559}",
    "rt 1 le SF{0:UFi32{1[5,7]:i64,2d:i16},1:u32} {<7,1:3>,9}",
    "rt 2 le SF{0:UAu8{2d:s,1[5]:u8},1:u32} {<5,1:7>,9}",
    "rt 2 le SF{0:UFi8{1[-1]:u8}} {<255,1:7>}",
    "rt 2 le SF{0:Q(UFu16{3d:u8,1[2]:w})} {[<2,1:[97]>,<0,3:1>]}",
    "rt 1 le SF{0:UAi32{1[5]:u8,2d:u16},1:u32} {<5,1:7>,9}",                # U1
    "rt 2 le SF{0:Q(UAi32{1[5]:u8,2d:u16})} {[<5,1:7>,<6,2:8>]}",           # U2
    "rt 2 le SF{0:UMi32{1[5]:u8,2d:u16},1:u32} {<5,1:7>,9}",                # U3
    "rt 2 le SF{0:UFu8{1[5]:i64}} {<6>}",                                   # U4
]


def gen_cases(ctx):
    r = ctx.rng
    n = 1600 if ctx.tier == "quick" else 30000
    cases = [Case([l]) for l in X.CORPUS_RT] + [Case([l]) for l in EXT_CORPUS]
    for k in range(n):
        ver = r.choice([1, 2])
        if k % 12 == 0:      # constructs outside the proved subset (open findings)
            kn = X.Knobs(ver=ver, big_id=25, c8_high=10, mut_absent_v2=40, empty_struct=8, sentinel_id=50, lc5_seq=60)
        elif k % 97 == 5:    # long strings / sequences (a few of them above 2^16 bytes in the thorough tier)
            big = ctx.tier == "thorough" and k % 970 == 5
            kn = X.Knobs(ver=ver, long=10, maxlong=70000 if big else 3000, nesting=2, wstr=10)
        elif k % 9 == 1:     # follow-up 2: wide strings, enumerations with a declared extensibility (inside the model)
            kn = X.Knobs(ver=ver, wstr=20, enum_ext=50)
        elif k % 9 == 2:     # follow-up 2: unions (oracle-only part)
            kn = X.Knobs(ver=ver, wstr=8, union=25, enum_ext=30, nesting=3, union_ext="FFFFFFAAM", union_nobranch=4,
                         long=1, maxlong=150, maxseq=60)
        elif k % 9 == 3:     # follow-up 2: final unions only (inside the model and the theorem)
            kn = X.Knobs(ver=ver, wstr=8, union=30, enum_ext=30, nesting=3, union_ext="F", union_nobranch=4, long=1,
                         maxlong=150, maxseq=60)
        else:
            kn = X.Knobs(ver=ver)
        t = X.gen_type(r, kn)
        v = X.gen_value(r, t, kn, ver=ver)
        line = X.rt_line(ver, r.choice(["le", "be"]), t, v)
        if len(line) > 600000:          # keep a single case below ~300 kB of payload
            continue
        cases.append(Case([line]))
    return cases


def run(ctx):
    cases = gen_cases(ctx)
    eng = X.model_engine()
    ctx.count("model-engine " + eng)
    # the oracle-only part: unions are not modelled
    def is_u(c):
        tk = c.lines[0].split()
        return tk[0] == "rt" and "UM" in tk[3]
    ucases = [c for c in cases if is_u(c)]
    cases = [c for c in cases if not is_u(c)]
    ctx.count("oracle-only part (type has a mutable union)", len(ucases))
    ctx.count("type has a final union (inside the model)", sum(1 for c in cases if c.lines[0].startswith("rt ") and "UF" in c.lines[0].split()[3]))
    ctx.count("type has an appendable union (inside the model)", sum(1 for c in cases if c.lines[0].startswith("rt ") and "UA" in c.lines[0].split()[3]))
    for c in ucases:
        tk = c.lines[0].split()
        t, v = X.parse_ty(tk[3]), X.parse_val(tk[4])
        for cs in X.union_constructs(t, v, int(tk[1])):
            ctx.count("oracle-only, outside the round-trip subset: " + cs)
        for (tt, vv, _) in X.pairs(t, v):
            if tt[0] == "union" and vv[2] is not None:
                dflt = [i for i, b in enumerate(tt[3]) if b[2]]
                sel = next(i for i, b in enumerate(tt[3]) if b[0] == vv[2][0])
                if dflt and dflt[0] < sel:
                    ctx.count("union value selects a case declared after the default branch")
                if dflt and sel == dflt[0]:
                    ctx.count("union value selects the default branch")
    for i in range(0, len(ucases), 5000):
        X.oracle_only(ctx, ENGINE, ucases[i:i + 5000], nontrivial=lambda c, o: True, oracle=oracle_union)
    for c in cases:
        tk = c.lines[0].split()
        if tk[0] != "rt":
            ctx.count("op " + tk[0])
            continue
        ctx.count(f"xcdr{tk[1]}-{tk[2]}")
        ty = tk[3]
        for key, pat in (("mutable", "SM{"), ("appendable", "SA{"), ("final", "SF{"), ("sequence", "Q"), ("array", "A"),
                         ("string", "s"), ("enum", "E"), ("optional", "o:"), ("wide string", "w")):
            if pat in ty:
                ctx.count("type has " + key)
        if re.search(r"E(i8|i16|i32)[am]\[", ty):
            ctx.count("type has enum declared appendable / mutable")
        if re.search(r"5[5-6]\d\d\d,5[6-7]\d\d\d", tk[4]) and "w" in ty:
            ctx.count("value has a wide string with a surrogate pair (likely)")
        if "_" in tk[4]:
            ctx.count("value has absent member")
        try:
            for cs in X.constructs(X.parse_ty(ty), X.parse_val(tk[4]), int(tk[1])):
                ctx.count("outside subset: " + cs)
        except ValueError:
            pass
    # which cases satisfy the hypotheses of the theorem (evaluated by the Lean predicate itself)
    keys = [f"wf {c.lines[0].split()[1]} {c.lines[0].split()[3]} {c.lines[0].split()[4]}" for c in cases
            if c.lines[0].startswith("rt ")]
    for k, o in zip(keys, X.model_outputs(keys, eng)):
        WF_CACHE[k] = o
        ctx.count("inside theorem hypotheses (wfVal)" if o == "wf 1" else "outside theorem hypotheses")
    for i in range(0, len(cases), 5000):      # one harness / model process per 5000 cases
        ctx.differential(ENGINE, cases[i:i + 5000], nontrivial=nontrivial, oracle=oracle, model_engine=eng, shrink=False)


TECHNIQUE = ("Lean 4 round-trip theorems by mutual structural induction over the type universe (position-dependent form "
             "`de (ser v ++ rest) = ok v, rest, position`) + differential correspondence of the transcription model with "
             "the real serializer / deserializer on random dynamic types")
LEVEL_TEXT = ("Kernel-checked Lean theorems over ALL types and values accepted by the decidable predicate wfVal (primitives, strings, "
              "wide strings incl. characters outside the BMP, enumerations of any declared extensibility, final and appendable unions (default "
              "branch at any position, several labels per branch, nested, in collections), sequences, arrays, final / appendable / mutable structures nested arbitrarily, optional and absent "
              "members, ids in any order): C09_roundtrip_partial / C09_roundtrip_nested_partial (decode(serialize v ++ rest) = v with "
              "the exact remainder and final alignment position, for XCDR1 and XCDR2, both byte orders, every repair configuration; "
              "by mutual structural induction, the mutable cases through lemmas about the seek_to_pid walks) and "
              "C09_padding_recorded (for every type and value the payload is header ++ body ++ pad zero bytes, pad < 4, length "
              "multiple of 4, options byte = pad). Partial: what wfVal excludes is listed in the theorem's doc comment; each "
              "exclusion is an open finding with a kernel-checked witness (C09_*_counterexample) and an exemplar the corpus replays "
              "on the real code; the as-is deserializer / serializer break the round trip (D45, D46, D47, D61: witnesses, "
              "repaired by fixes/*.patch). The model is tied to serializer.rs / deserializer.rs by a differential run: the real "
              "bytes and the real decoded values of thousands of random dynamic types are compared with the model's, line by "
              "line; an oracle violation is attributed to a finding only if the Lean predicate wfVal itself rejects the case. "
              "FOLLOW-UP 4: the model is the code with fixes/D63 D77 D78 D79 D80 -xcdr.patch: CHAR8 0..255, appendable unions and "
              "unions without active member are inside wfVal and the theorems. "
              "ORACLE-ONLY PART: mutable unions are not in the Lean model; cases with them run on the implementation only and "
              "are judged by the round-trip oracle; nothing is proved about them.")
LEVEL_NOTE = ("Trusted: Lean kernel (axioms propext, Classical.choice, Quot.sound at most); the hand-written transcription "
              "Model/Xcdr.lean (+ the decidable well-formedness predicate Model/XcdrWF.lean, which states the real limits: value "
              "ranges, u16/u32 size fields, CHAR8 < 128, distinct member ids); the harness that builds DynamicType/DynamicData "
              "through the public factory API and calls serialize_cdr{1,2}_{le,be} / deserialize_top_level_type through the "
              "cfg(dust_dds_verif) re-export; the Python oracle. Constructs outside the proved subset are open findings "
              "(known_findings.json) and are attributed only when the failing case really contains the construct.")
DESIGN_REF = "DESIGN.md section 5 C09"
