"""C42 (partial): logic of the std runtime timer (TimerHeap, Sleep::poll / Drop, timer-thread message handling) and of
block_timeout; plus a real-time smoke test of the public API."""
import itertools
from vlib.core import Case

ENGINE = "timer"
RULE = ("operation lists on the real TimerHeap / Sleep through the verification hook, in virtual time: ALL lists up to length 4-5 "
        "(quick) / 6 (thorough) over {push x3, remove x2, advance x2, service} and over {sleep x2, poll x2, drop, recv, service, "
        "advance}; random lists of 5-60 operations with ids 0..5, deadlines within +-10 units of now (many ties), "
        "durations 0..3, mixed direct heap operations and Sleep traffic; plus real-time smoke ops of the public API (incl. "
        "block_timeout around futures that need 1-70 wake-ups far inside the timeout); "
        "non-trivial = at least one service that wakes something or one poll that is ready, or a smoke op")
ASSUMPTIONS = [
    "std::collections::BinaryHeap pops a maximal element w.r.t. Ord (here: an earliest deadline); std::sync::mpsc is FIFO",
    "Instant::now() is monotone; one virtual time unit is one hour of Instant, so comparisons in the code are decided by the "
    "virtual times alone (offset of half a unit)",
    "thread scheduling, recv_timeout/park latency and the wall clock are outside the model: 'completes after its deadline' "
    "means 'the next wake loop after the deadline wakes it and the following poll is Ready'",
]
START = 1000
H1 = ["push 1 1002", "push 2 1001", "push 1 1003", "remove 1", "remove 2", "advance 1", "advance 2", "service"]
H2 = ["sleep 0 1", "sleep 1 0", "poll 0", "poll 1", "drop 0", "recv", "service", "advance 1"]

CORPUS = [
    ["push 1 1005", "push 2 1003", "push 3 1009", "next", "service", "advance 3", "service", "advance 1", "service", "next",
     "advance 2", "service", "remove 3", "advance 10", "service"],
    ["push 1 1000", "service", "advance 1", "service"],                       # deadline == now is not elapsed
    ["push 1 999", "push 2 998", "push 3 999", "service", "next"],
    ["push 1 1001", "push 1 1002", "remove 1", "advance 5", "service"],
    ["sleep 7 2", "poll 7", "poll 7", "recv", "recv", "recv", "advance 2", "poll 7", "service", "advance 1", "service", "poll 7"],
    ["sleep 0 0", "poll 0", "poll 0", "advance 1", "poll 0"],
    # wake in flight at the drop: woken although dropped, before the Cancel is processed (modelled, C42_wake_before_cancel_witness)
    ["sleep 0 2", "poll 0", "recv", "drop 0", "advance 5", "service", "recv", "service"],
    ["sleep 0 2", "poll 0", "drop 0", "recv", "recv", "advance 5", "service"],
    ["sleep 0 2", "poll 0", "drop 0", "advance 5", "recv", "service", "recv", "service"],
    ["smoke.sleep 1", "smoke.sleep 7", "smoke.sleep 20", "smoke.sleeps 8 2", "smoke.drop 60", "smoke.block_on 4",
     "smoke.timeout 300 5", "smoke.timeout 2 300"],
    # block_timeout around futures that need many wake-ups far inside the timeout (k sleeps of ms under d x 10 ms):
    # ten 30 ms sleeps under 1 s; sixty 10 ms sleeps under 10 s; 1 / 5 / 20 short sleeps under 5 s; self-wakes
    ["smoke.chain 10 30 100", "smoke.chain 60 10 1000", "smoke.chain 1 10 500", "smoke.chain 5 10 500",
     "smoke.chain 20 10 500", "smoke.yields 200 200"],
]


def gen_random(r):
    n = r.range(5, 60)
    now, lines, live, used = START, [], [], set()
    mode = r.choice(["heap", "sleep", "mixed"])
    for _ in range(n):
        c = r.below(100)
        if mode == "heap" or (mode == "mixed" and c < 40):
            k = r.below(100)
            if k < 40:
                d = max(0, now + r.range(0, 14) - 6)
                lines.append(f"push {r.below(6)} {d}")
            elif k < 52:
                lines.append(f"remove {r.below(6)}")
            elif k < 72:
                a = r.choice([0, 1, 1, 2, 3, 7]); now += a
                lines.append(f"advance {a}")
            elif k < 92:
                lines.append("service")
            else:
                lines.append("next")
        else:
            k = r.below(100)
            if k < 14:
                sid = r.below(6)
                lines.append(f"sleep {sid} {r.below(4)}")
                if sid not in used:
                    used.add(sid); live.append(sid)
            elif k < 40 and live:
                lines.append(f"poll {r.choice(live)}")
            elif k < 48:
                sid = r.choice(live) if live and r.chance(4, 5) else r.below(6)
                lines.append(f"drop {sid}")
                if sid in live: live.remove(sid)
            elif k < 68:
                lines.append("recv")
            elif k < 84:
                lines.append("service")
            elif k < 97:
                a = r.choice([0, 1, 1, 2, 3]); now += a
                lines.append(f"advance {a}")
            else:
                lines.append("next")
    return lines


def oracle(case, out):
    """spec-level bookkeeping with multisets only: which entries exist, which are due"""
    viol = []
    def bad(i, cause, what):
        viol.append({"cause": cause, "what": f"op {i} `{case.lines[i]}` -> `{out[i] if i < len(out) else None}`: {what}", "at": i})
    now = START
    heap = []            # (id, deadline)
    queue = []           # ("wake", id, deadline) | ("cancel", id)
    sleeps = {}          # sid -> dict(dur, deadline)
    used = set()
    for i, l in enumerate(case.lines):
        if i >= len(out):
            bad(i, "crash", "no output"); break
        t, o = l.split(), out[i].split()
        if not o or o[0] in ("PANIC", "POISONED", "CRASH", "bad-op"):
            bad(i, "panic", "panic / crash"); break
        kv = dict(x.split("=", 1) for x in o if "=" in x)
        op = t[0]
        if op.startswith("smoke."):
            if out[i] != "ok":
                bad(i, "smoke-" + (o[1] if len(o) > 1 else "fail"), "real-time smoke test of the public API failed")
            continue
        if op == "push":
            heap.append((int(t[1]), int(t[2])))
        elif op == "remove":
            heap = [e for e in heap if e[0] != int(t[1])]
        elif op == "advance":
            now += int(t[1])
        elif op == "service":
            woke = [] if kv["woke"] == "-" else [int(x) for x in kv["woke"].split(",")]
            due = sorted(e[0] for e in heap if e[1] < now)
            pool = list(heap)
            for w in woke:
                cands = [e for e in pool if e[0] == w]
                if not cands:
                    bad(i, "woken-without-entry", f"id {w} woken but it has no entry (removed / cancelled / never armed)")
                    continue
                duec = [e for e in cands if e[1] < now]
                if not duec:
                    bad(i, "woken-early", f"id {w} woken at {now} but its deadline(s) {[e[1] for e in cands]} have not passed")
                    pool.remove(cands[0])
                else:
                    pool.remove(duec[0])
            if sorted(woke) != due and not viol:
                missing = list(due)
                for w in woke:
                    if w in missing: missing.remove(w)
                if missing:
                    bad(i, "forgotten", f"entries of ids {missing} are past their deadline at {now} but were not woken")
            if kv.get("ord") != "1":
                bad(i, "heap-order", "entries were popped out of deadline order")
            if "WAKEMISMATCH" in o:
                bad(i, "wake-not-called", "popped entries and wake() calls differ")
            # keep following the implementation
            heap = [e for e in heap if not (e[1] < now)]
        elif op == "next":
            exp = "none" if not heap else str(max(0, min(e[1] for e in heap) - now))
            if out[i] != exp:
                bad(i, "next-delay-wrong", f"duration_until_next_timer must be {exp} units")
        elif op == "sleep":
            sid = int(t[1])
            if sid in used:
                if o[0] != "gone": bad(i, "harness", "id reuse")
                continue
            used.add(sid)
            sleeps[sid] = {"dur": int(t[2]), "deadline": None}
        elif op == "poll":
            sid = int(t[1])
            s = sleeps.get(sid)
            if s is None:
                if o[0] != "gone": bad(i, "harness", "no such sleep")
                continue
            due = s["deadline"] is not None and now > s["deadline"]
            if o[0] == "ready" and not due:
                bad(i, "sleep-early", f"Sleep::poll is Ready at {now}, deadline {s['deadline']}")
            if o[0] == "pending" and due:
                bad(i, "sleep-not-ready", f"Sleep::poll is Pending at {now} although the deadline {s['deadline']} has passed")
            if o[0] == "pending":
                if s["deadline"] is None:
                    s["deadline"] = now + s["dur"]
                queue.append(("wake", sid, s["deadline"]))
        elif op == "drop":
            sid = int(t[1])
            if sid not in sleeps:
                if o[0] != "gone": bad(i, "harness", "no such sleep")
                continue
            del sleeps[sid]
            queue.append(("cancel", sid))
        elif op == "recv":
            if not queue:
                if o[0] != "empty": bad(i, "queue-order", "message from nowhere")
                continue
            m = queue.pop(0)
            if o[:2] != [m[0], str(m[1])]:
                bad(i, "queue-order", f"expected `{m[0]} {m[1]}`")
            if m[0] == "wake":
                heap.append((m[1], m[2]))
            else:
                heap = [e for e in heap if e[0] != m[1]]
        if "len" in kv and int(kv["len"]) != len(heap) and not viol:
            bad(i, "heap-size", f"heap must hold {len(heap)} entries")
        if len(viol) >= 3:
            break
    return viol


def nontrivial(case, out):
    for l, o in zip(case.lines, out):
        if l.startswith("smoke."): return True
        if l == "service" and o.startswith("woke=") and not o.startswith("woke=-"): return True
        if l.startswith("poll") and o == "ready": return True
    return False


def exhaustive(alpha, length):
    for n in range(1, length + 1):
        for combo in itertools.product(alpha, repeat=n):
            yield Case(list(combo))


def run(ctx):
    r = ctx.rng
    quick = ctx.tier == "quick"
    cases = [Case(list(c)) for c in CORPUS]
    cases += list(exhaustive(H1, 4 if quick else 6))
    cases += list(exhaustive(H2, 5 if quick else 6))
    for _ in range(4000 if quick else 100000):
        cases.append(Case(gen_random(r)))
    for k in range(2 if quick else 25):
        cases.append(Case([f"smoke.sleep {r.range(1, 20)}", f"smoke.sleeps {r.range(2, 12)} {r.range(1, 5)}",
                           f"smoke.block_on {r.below(1000)}", f"smoke.timeout {r.range(250, 400)} {r.range(1, 20)}",
                           f"smoke.timeout {r.range(1, 3)} {r.range(200, 400)}"] + ([f"smoke.drop {r.range(50, 90)}"] if k % 2 == 0 else [])
                          + ([f"smoke.chain {r.range(8, 14)} {r.range(20, 40)} 100", f"smoke.chain {r.range(50, 70)} {r.range(8, 12)} 1000",
                              f"smoke.yields {r.range(1, 500)} 200"] if k % 3 == 0 else [])))
    for c in cases:
        for l in c.lines:
            ctx.count(l.split()[0])
    ctx.differential(ENGINE, cases, nontrivial=nontrivial, oracle=oracle)


TECHNIQUE = ("Lean 4 invariants over arbitrary operation lists of the timer logic + differential correspondence with the real "
             "TimerHeap / Sleep in virtual time through a cfg-guarded hook + real-time smoke test of the public API")
LEVEL = "proof"
LEVEL_TEXT = ("PARTIAL (logic only). Kernel-checked Lean theorems for ALL operation lists of the model of timer.rs: heap order "
              "invariant (C42_heap_order), a wake happens only strictly after the entry's deadline (C42_not_early), one wake loop "
              "wakes every entry whose deadline has passed and leaves none behind, in deadline order (C42_never_forgotten), a "
              "removed / cancelled id is not woken (C42_removed_never_woken), the thread never sleeps past the earliest deadline "
              "(C42_next_delay); Sleep::poll is Ready iff now > first poll + duration (C42_sleep_ready_iff), a wake is followed by "
              "a Ready poll (C42_wake_then_ready), a sleep whose last poll was Pending always has a Wake with its deadline queued "
              "or in the heap and is woken by the first wake loop after the deadline once the queue is drained (C42_eventually), "
              "a dropped sleep is silent for ever once its Cancel is processed (C42_cancelled_silent; the wake in flight before "
              "that is exhibited by C42_wake_before_cancel_witness); block_timeout returns Timeout "
              "never before start + duration whatever the number of wake-ups, always decides, and returns the value whenever a poll is "
              "Ready (C42_block_timeout_no_early_timeout, _decides, _ok_iff, for ALL wake-up sequences). The heap, "
              "Sleep::poll, Drop and the thread's message handling are tied to the real code in virtual time through the hook "
              "std_runtime::timer::verif; block_on / block_timeout / real sleeps only by a real-time smoke test.")
LEVEL_NOTE = ("Outside the model, hence NOT proved: thread scheduling, recv_timeout / thread::park latency and spurious wake-ups, the "
              "OS monotonic clock, the std BinaryHeap and mpsc implementations, the Sleep::reset overflow fallback, the loop "
              "structure of the timer thread itself (the harness replays its two halves - wake loop and message handling - through "
              "the hook, which mirrors timer.rs:217-220 and 239-242), block_on's park/unpark protocol and the executor. An upper "
              "bound on real completion time is therefore only smoke-tested (bound 5 s). The race 'wake in flight when the Sleep "
              "is dropped' is real and benign (the task is gone). Trusted: Lean kernel, Model/Timer.lean, the timer harness, the "
              "Python oracle.")
DESIGN_REF = "DESIGN.md section 5 C42"
TRUSTED_EXTRA = ["cfg(dust_dds_verif) hook std_runtime::timer::verif: mirrors the two halves of the timer thread loop and shifts stored "
                 "deadlines (virtual time)"]
