"""C28: writer instance-management calls honour their documented contract."""
from vlib.core import Case
from vlib.tree_common import *

RULE = ("histories of register/unregister/dispose/lookup/write (6-40 calls, 1-3 keys from {0,1,2,3,-1,i32::MIN,i32::MAX}) on 1-3 "
        "writers of keyed (i32 key) and keyless types with max_instances in {inf,1,2,3}, created enabled or not (factory / participant / "
        "publisher autoenable off), with enable and delete in between; plus general entity-tree histories with instance calls; "
        "non-trivial = at least 3 entities created and at least one instance call or delete")
ASSUMPTIONS = ["the tree under check contains fixes/D33.patch and fixes/D33b.patch; the behaviour before is kept as wopOld (Model/TreeOld.lean), the C28_*_counterexample theorems and the `#inst old` switch of the Lean driver",
               "KEEP_ALL history and unlimited max_samples / max_samples_per_instance, no matched reader: a write is never refused or blocked for history reasons",
               "instance handle of the test types = big-endian i32 key zero-padded to 16 bytes (checked byte-wise by the harness, printed as h(<key>)); keyless = all-zero handle"]
PROFILE = Profile(loops=0, nops=(10, 35), inst_heavy=True, cft=0,
                  weights={"inst": 40, "writer": 14, "enable": 8, "delete": 8, "reader": 2, "subscriber": 2})
CORPUS = [
    # regression D33 (fixed): unregister forgets the instance (lookup None, BadParameter, the max_instances slot is free)
    ["participant P", "publisher pb P", "topic t P K ki", "writer w pb t max_instances=1 history=keep_all",
     "register w 1", "unregister w 1", "lookup w 1", "unregister w 1", "dispose w 1", "register w 2", "lookup w 2", "register w 1",
     "unregister w 2", "write w 1 00", "lookup w 1", "write w 2 00"],
    ["participant P", "publisher pb P", "topic t P K ki", "writer w pb t max_instances=2 history=keep_last:1",
     "write w 1 11", "write w 1 42", "unregister w 1", "lookup w 1", "write w 1 00", "lookup w 1", "write w 2 00", "write w 3 00",
     "unregister w 2", "write w 3 00", "dispose w 3", "dispose w 2"],
    # regression D33b (fixed): lookup_instance refuses keyless types
    ["participant P", "publisher pb P", "topic t P N ni", "writer w pb t history=keep_all", "lookup w 5", "write w 5 00", "lookup w 7",
     "register w 1", "dispose w 1", "unregister w 1"],
    ["factory-qos autoenable=0", "participant P", "publisher pb P", "topic t P K kb", "writer w pb t history=keep_all",
     "register w 1", "write w 1 -", "lookup w 1", "dispose w 1", "unregister w 1", "enable w", "register w 1", "register w 1",
     "lookup w 1", "lookup w 2", "dispose w 2", "unregister w 2", "write w 2 00ff", "lookup w 2", "dispose w 2", "delete w", "register w 1"],
]

oracle = oracle_for("C28")


def nontrivial28(case, out):
    return nontrivial(case, out) and any(l.split()[0] in INST_OPS for l in case.lines if l.split())


def run(ctx):
    r = ctx.rng
    n = 120 if ctx.tier == "quick" else 3000
    cases = [Case(list(c)) for c in CORPUS]
    for k in range(n):
        cases.append(inst_case(r) if k % 3 else gen_case(r, PROFILE))
    count_ops(ctx, cases)
    outs = ctx.differential(ENGINE, cases, nontrivial=nontrivial28, oracle=oracle)
    count_answers(ctx, outs)
    for c, o in zip(cases, outs):
        for k, v in shadow_run(c, o).stats.items():
            if k.startswith("inst:"):
                ctx.count(k, v)


TECHNIQUE = "Lean 4 theorems per clause over arbitrary writer states + refinement to the documented contract + differential correspondence through the deterministic simulator"
LEVEL_TEXT = ("Kernel-checked Lean theorems about ONE call on an ARBITRARY writer state (hence every call of every history): C28_not_enabled "
              "(every operation -> NotEnabled), C28_keyless_illegal (register/unregister/dispose/lookup -> IllegalOperation), "
              "C28_register_returns_key_handle, C28_register_idempotent, C28_lookup_iff_registered, C28_unknown_instance_bad_parameter, "
              "C28_unregister_forgets (after unregister: lookup None, second unregister / dispose BadParameter, max_instances slot free), "
              "C28_write_registers; over ALL histories: C28_contract (every history on any writer gets exactly the answers of the documented "
              "contract specWop, no exclusion) and C28_lookup_tracks_history (an instance is registered exactly when the last "
              "register/write/unregister of its key was a register or write). The pre-patch behaviour (D33: the instance stayed known after "
              "unregister; D33b: keyless lookup not refused) is kept as regression witnesses on wopOld (C28_unregister_counterexample, "
              "C28_lookup_keyless_counterexample). Model and DataWriterAsync agree on every return code and handle of random histories on "
              "keyed and keyless types before and after enable.")
LEVEL_NOTE = ("Trusted: Lean kernel; the hand-written model `wop` of data_writer_entity.rs:70-312 and writer_methods.rs:249-295; the dsim harness "
              "(it checks the 16 handle bytes against the expected key hash before printing h(<key>)) and the Python shadow oracle.")
DESIGN_REF = "DESIGN.md section 5 C28"
LEAN_MODULES = ["DustVerif.Props.C28"]
