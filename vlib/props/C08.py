"""C08: RTPS messages round-trip through their wire encoding."""
import struct
from vlib.core import Case
from vlib import wire_common as W

ENGINE = "wire"
RULE = ("one message per case: `rt <msg>` builds the message with the real constructors, encodes it with "
        "RtpsMessageWrite and decodes the bytes with RtpsMessageRead; `decx <hex> <msg>` decodes a big-endian / "
        "mixed-endian encoding of a generated message written by the independent Python encoder. Messages have "
        "0..6 submessages of all 12 kinds; sequence numbers, set bases, counts and 32-bit fields from boundary "
        "classes of the whole i64/i32/u32 range, set members anywhere in base..base+255, inline QoS with 0..5 "
        "parameters, payload sizes 0..1500 and around 2^16 (65000..131077). A case is non-trivial when the message "
        "has at least one submessage; distinct by canonical op line")
ASSUMPTIONS = [
    "well-formed message = what the constructors can represent on the wire: every submessage body < 65536 octets, set "
    "members within base..base+255, parameter ids != PID_SENTINEL, parameter value lengths multiples of 4 (the "
    "oracle compares other lengths modulo the zero padding the wire format adds), inline QoS / payload present only "
    "with their flags, an invalidated INFO_TS carries TIME_INVALID, at most 65536 submessages",
    "DATA_FRAG payload is compared as the byte slice `SerializedDataFragment::as_ref()` (the Rust struct also "
    "holds the backing buffer and range, which differ by construction between writer and reader)",
    "INFO_REPLY carries multicast locators only with its MulticastFlag (written since fixes/D-wire-2.patch; finding "
    "D-wire-2 on a tree without it); the repository never builds INFO_REPLY, INFO_SRC, HEARTBEAT_FRAG or PAD itself, "
    "they are included because their writers exist",
]
D14 = "submessage-length-truncated-to-u16"
DW2 = "info-reply-multicast-flag-not-written"


def msg_ok_for_ctor(m):
    return all(W.members_ok(s["base"], s["members"]) for s in m["subs"] if "base" in s)


def check_lengths(m, b):
    """every octetsToNextHeader of the encoding equals the octet length of that submessage's elements
    (lengths computed by the independent encoder)"""
    pos = 20
    for i, s in enumerate(m["subs"]):
        body = len(W.sub_body(s))
        if pos + 4 > len(b):
            return f"submessage {i} ({s['k']}): encoding ends before its header (offset {pos})"
        if b[pos] != W.IDS[s["k"]]:
            return f"submessage {i} ({s['k']}): id octet {b[pos]:#x} at offset {pos}"
        ln = struct.unpack("<H", b[pos + 2:pos + 4])[0]
        if ln != body:
            return f"submessage {i} ({s['k']}): octetsToNextHeader {ln} but the elements take {body} octets"
        pos += 4 + body
    if pos != len(b):
        return f"encoding has {len(b)} octets, header + submessages take {pos}"
    return None


def compare_decoded(m, toks):
    if toks[:1] != ["ok"]:
        return f"decoder returned {' '.join(toks)[:80]}"
    try:
        got = W.parse_rendering(toks[1:])
    except Exception as ex:                                  # unparsable canonical line = harness problem
        return f"unparsable rendering: {ex}"
    if got["h"] != m["h"]:
        return f"header: expected {m['h']}, got {got['h']}"
    exp = [W.normalise(s) for s in m["subs"]]
    for i, (e, g) in enumerate(zip(exp, got["subs"])):
        d = W.same_sub(e, g)
        if d:
            return f"submessage {i}: {d}"
    if len(exp) != len(got["subs"]):
        return f"{len(exp)} submessages encoded, {len(got['subs'])} decoded"
    return None


def cause_of(m):
    if any(len(W.sub_body(s)) >= 65536 for s in m["subs"]):
        return D14
    if any(s["k"] == "IREPLY" and s["m"] for s in m["subs"]):
        return DW2
    return None


def oracle(case, out):
    op = case.lines[0].split()[0].split("@")[0]
    if "msg" not in (case.meta or {}):     # replay: the op line carries the message
        case.meta = {"msg": W.parse_spec(case.lines[0].split()[2 if op == "decx" else 1:])}
    m = case.meta["msg"]
    line = out[0] if out else ""
    toks = line.split()
    viol = []

    def bad(what, cause=None):
        viol.append({"what": what, "op": case.lines[0][:400], "got": line[:400], "cause": cause})

    if toks[:1] in (["PANIC"], ["ALLOC-LIMIT"]) or not toks or toks[0].startswith("CRASH"):
        if op == "rt" and not msg_ok_for_ctor(m) and toks[:1] == ["PANIC"]:
            return []                      # precondition of SequenceNumberSet::new / FragmentNumberSet::new (D44)
        bad(f"operation ended with {toks[:1]}")
        return viol
    if op == "rt":
        if not msg_ok_for_ctor(m):
            return []                      # aliased member (`as u32`): nothing to compare against
        b = bytes.fromhex(toks[0]) if toks[0] != "-" else b""
        exp = W.msg_bytes(m)
        d = check_lengths(m, b)
        if d:
            bad("length field: " + d, cause_of(m))
        elif b != exp:
            k = next((i for i in range(min(len(b), len(exp))) if b[i] != exp[i]), min(len(b), len(exp)))
            bad(f"encoding differs from the RTPS wire format at octet {k}: got {b[k:k+8].hex()}, expected {exp[k:k+8].hex()}",
                cause_of(m))
        d = compare_decoded(m, toks[1:])
        if d:
            bad("decode(encode m) != m: " + d, cause_of(m))
    elif op == "decx":
        d = compare_decoded(m, toks)
        if d:
            bad("decoding of a valid " + case.meta.get("order", "") + " encoding: " + d, cause_of(m))
    return viol


def nontrivial(case, out):
    return len(case.meta["msg"]["subs"]) > 0


def corpus():
    h = (bytes([2, 3]), bytes([9, 8]), bytes([3] * 12))
    e1, e2 = bytes([1, 2, 3, 4]), bytes([6, 7, 8, 9])
    data = lambda n, **kw: dict({"k": "DATA", "q": False, "d": True, "key": False, "n": False, "r": e1, "w": e2, "sn": 5, "qos": [],
                                 "p": bytes(i % 256 for i in range(n))}, **kw)
    hb = {"k": "HB", "f": False, "l": False, "r": e1, "w": e2, "first": 1, "last": 4, "count": 2}
    ms = [
        {"h": h, "subs": []},
        {"h": h, "subs": [data(0), hb]},
        {"h": h, "subs": [data(65515), hb]},                          # body 65535: largest that fits
        {"h": h, "subs": [data(65537)]},                              # D14 exemplar (body 65557 -> length 21)
        {"h": h, "subs": [data(65537), hb]},
        {"h": h, "subs": [data(65516)]},                              # body 65536 -> length 0 = "to the end": survives alone
        {"h": h, "subs": [data(65516), hb]},                          # ... and swallows what follows
        {"h": h, "subs": [{"k": "IREPLY", "m": True, "uni": [], "multi": [(1, 7400, bytes(16))]}]},   # D-wire-2 exemplar
        {"h": h, "subs": [{"k": "GAP", "r": e1, "w": e2, "start": 3, "base": 10, "members": [10, 12, 265]},
                          {"k": "ACK", "f": True, "r": e1, "w": e2, "base": W.I64MIN, "members": [], "count": 7},
                          {"k": "NFRAG", "r": e1, "w": e2, "sn": 4, "base": 2, "members": [2, 257], "count": 3}]},
        {"h": h, "subs": [{"k": "ACK", "f": False, "r": e1, "w": e2, "base": W.I64MAX - 255, "members": [W.I64MAX], "count": -1}]},
        {"h": h, "subs": [{"k": "NFRAG", "r": e1, "w": e2, "sn": -1, "base": W.U32MAX - 255, "members": [W.U32MAX], "count": W.I32MIN}]},
        {"h": h, "subs": [{"k": "GAP", "r": e1, "w": e2, "start": 3, "base": 10, "members": [266]}]},  # ctor panic (D44 family)
        {"h": h, "subs": [data(3, q=True, qos=[(0x70, bytes(16)), (0x71, bytes([0, 0, 0, 1])), (-1, b"")]),
                          {"k": "ITS", "inv": False, "sec": 5, "frac": 6}, {"k": "ITS", "inv": True, "sec": W.U32MAX, "frac": W.U32MAX},
                          {"k": "PAD"}, {"k": "IDST", "prefix": bytes(range(12))}]},
    ]
    return ms


def run(ctx):
    r = ctx.rng
    quick = ctx.tier == "quick"
    n_rt, n_be, n_big, n_nonwf = (5000, 2000, 40, 700) if quick else (60000, 20000, 400, 6000)
    cases = []
    sfx = W.model_suffix(ctx)
    for m in corpus():
        cases.append(Case(["rt" + sfx + " " + W.msg_spec(m)], {"msg": m}))
        ctx.count("corpus")
    for _ in range(n_rt):
        m = W.gen_msg(r, wf=True)
        cases.append(Case(["rt" + sfx + " " + W.msg_spec(m)], {"msg": m}))
        ctx.count("rt-wf")
    for _ in range(n_big):
        m = W.gen_msg(r, wf=False, big=True, nsubs=r.choice([1, 1, 2, 3]))
        cases.append(Case(["rt" + sfx + " " + W.msg_spec(m)], {"msg": m}))
        ctx.count("rt-big")
    for _ in range(n_nonwf):
        m = W.gen_msg(r, wf=False)
        cases.append(Case(["rt" + sfx + " " + W.msg_spec(m)], {"msg": m}))
        ctx.count("rt-nonwf")
    for _ in range(n_be):
        m = W.gen_msg(r, wf=True)
        mixed = r.chance(1, 3)
        les = [r.chance(1, 2) for _ in m["subs"]] if mixed else None
        b = W.msg_bytes(m, le=False, les=les)
        cases.append(Case(["decx" + sfx + " " + W.hx(b) + " " + W.msg_spec(m)], {"msg": m, "order": "mixed-endian" if mixed else "big-endian"}))
        ctx.count("dec-mixed" if mixed else "dec-be")
    for c in cases:
        for s in c.meta["msg"]["subs"]:
            ctx.count("kind-" + s["k"])
    ctx.differential(ENGINE, cases, nontrivial=nontrivial, oracle=oracle, shrink=False)


LEVEL_TEXT = ("Kernel-checked Lean theorems over ALL well-formed messages of the model Model/Wire.lean: C08_roundtrip "
              "(decode (encode m) = ok m), C08_roundtrip_be (the same for the big-endian encoding and in fact for any "
              "per-message byte order, one proof parametric in the order), C08_lengths (every octetsToNextHeader equals "
              "the length of the submessage's elements), C08_roundtrip_mixed_endianness (byte order per submessage), "
              "per-kind round trips, and C08_snset_any_contents / C08_fnset_any_contents: SequenceNumberSet::new / "
              "FragmentNumberSet::new for ANY member list within base..base+255 never panic, build a well-formed set "
              "that survives the wire and whose accessor returns exactly the members. "
              "WF is an explicit decidable predicate stating the real limits (element length < 2^16, <= 65536 "
              "submessages, parameter lengths multiples of 4, ...). The `as u16` truncation (D14) is real: "
              "C08_big_payload_counterexample. The model is tied to the code by running thousands of boundary-biased "
              "messages through the real constructors, RtpsMessageWrite and RtpsMessageRead and comparing bytes and "
              "decoded fields with the model, and the oracle re-checks round trip and length fields against an "
              "independent Python encoder.")
LEVEL_NOTE = ("Trusted: Lean kernel; hand-written model Model/Wire.lean (bytes as Nat, fixed-width casts explicit); the "
              "differential harness over the public doc-hidden rtps_messages API; Python encoder used by the oracle. "
              "Excluded by hypothesis: submessage elements >= 65536 octets (finding D14). INFO_REPLY with multicast "
              "flag is covered since fixes/D-wire-2.patch (C08_info_reply_flag_counterexample is the regression witness).")
TECHNIQUE = "Lean 4 theorems (round trip by structural induction, bit-level extensionality for the bitmaps) + differential correspondence with the real codec"
DESIGN_REF = "DESIGN.md section 5 C08"
