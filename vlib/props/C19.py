"""C19: resource limits enforced; rejections not stored and reported with the matching reason (reader side)."""
from vlib.hist_common import *

RULE = ("random op lists over 1-4 instances with finite max_samples / max_instances / max_samples_per_instance in most cases; "
        "a `dump` follows every op and `rejstatus` is sampled; non-trivial = >=2 instances or >=1 non-alive change, and >=1 "
        "read/take between additions; distinct by hash of the op list")
ASSUMPTIONS = ["max_samples bounds DATA (alive) samples as coded (ChangeKind::Alive); markers count towards max_samples_per_instance",
               "writer-side clause (OutOfResources stores nothing) is checked by the `wrt` engine when built; this check covers the reader"]
PROFILE = Profile(own=["shared"], minsep=[0], depths=["all", "all", 1, 2, 3], kinds=["A"] * 10 + ["D", "U"], p_read=20)


def oracle(case, out):
    q = parse_qos(case.lines[0]) if case.lines and case.lines[0].startswith("qos") else None
    if q is None:
        return []
    viol = []
    rejected = 0
    last_reason, last_inst = "none", 0
    change = 0
    for i, t, o, before, after in walk(case, out):
        if o in ("PANIC", "POISONED") or o.startswith("CRASH"):
            viol.append({"what": f"op {i} {' '.join(t)} panicked", "at": i}); break
        if t[0] == "add" and after is not None:
            sb, sa = before[0], after[0]
            inst = int(t[2])
            if o.startswith("rejected"):
                reason = o.split()[2]
                rejected += 1; change += 1; last_reason = reason; last_inst = inst
                if [s["data"] for s in sb] != [s["data"] for s in sa]:
                    viol.append({"what": f"op {i}: rejected sample changed the stored samples", "at": i})
                alive = sum(1 for s in sb if s["kind"] == "A")
                dist = []
                for s in sb:
                    if s["inst"] not in dist:
                        dist.append(s["inst"])
                ninst = sum(1 for s in sb if s["inst"] == inst)
                nalive_i = sum(1 for s in sb if s["inst"] == inst and s["kind"] == "A")
                repl = 1 if (q["depth"] is not None and q["depth"] == nalive_i) else 0
                hit_s = q["ms"] is not None and alive - repl >= q["ms"]
                hit_i = q["mi"] is not None and inst not in dist and len(dist) >= q["mi"]
                hit_p = q["mspi"] is not None and ninst - repl >= q["mspi"]
                exp = "samples" if hit_s else "instances" if hit_i else "spi" if hit_p else None
                if exp is None:
                    viol.append({"what": f"op {i}: sample rejected ({reason}) although no limit would be exceeded", "at": i})
                elif exp != reason:
                    viol.append({"what": f"op {i}: rejection reason {reason}, first exceeded limit is {exp}", "at": i})
            # limits hold afterwards
            alive = sum(1 for s in sa if s["kind"] == "A")
            if q["ms"] is not None and alive > q["ms"]:
                viol.append({"what": f"op {i}: {alive} data samples stored with max_samples={q['ms']}", "at": i})
            dist = set(s["inst"] for s in sa)
            if q["mi"] is not None and len(dist) > q["mi"]:
                viol.append({"what": f"op {i}: {len(dist)} instances stored with max_instances={q['mi']}", "at": i})
            if q["mspi"] is not None:
                for h in dist:
                    c = sum(1 for s in sa if s["inst"] == h)
                    if c > q["mspi"]:
                        viol.append({"what": f"op {i}: instance {h} stores {c} samples with max_samples_per_instance={q['mspi']}", "at": i})
        if t[0] == "rejstatus":
            a = o.split()
            exp = f"{rejected} {change} {last_reason} {last_inst}"
            if o != exp:
                viol.append({"what": f"op {i}: sample-rejected status is '{o}', expected '{exp}'", "at": i})
            change = 0
    return viol


import vlib.wrt_common as wrt

LEAN_MODULES = ["DustVerif.Props.C19", "DustVerif.Props.C19Writer"]
BINS = ["hist", "wrt", "dsim"]


def run(ctx):
    run_hist(ctx, PROFILE, oracle, 1500, 30000)                       # reader half
    # writer half (engine wrt on the simulator): a write that would exceed a limit answers OutOfResources and stores nothing
    impl = wrt.differential(ctx, wrt.writer_cases(ctx.rng, ctx.tier), wrt.writer_nontrivial, wrt.writer_oracle)
    for io in impl:
        for o in io:
            if o in ("err:OutOfResources",):
                ctx.count("writer:refused")
    ctx.count("writer:cases", len(impl))

TECHNIQUE = "Lean 4 invariant proofs over op lists + differential correspondence with DataReaderEntity (reader) and DataWriterAsync in the simulator (writer)"
LEVEL_TEXT = 'Kernel-checked Lean theorems for all states/op lists of the reader-history model: a rejected sample leaves the store untouched, raises sample_rejected total_count by exactly one with the reason of the first limit hit (C19_rejected_not_stored_and_reported), the status changes only on rejection, and the max_samples / max_samples_per_instance bounds are invariants of every op list (C19_reader_limits_partial; max_instances is checked by the oracle). WRITER half (Props/C19Writer.lean, engine wrt): C19_writer_rejects_iff / C19_writer_refuses / C19_writer_accepts / C19_writer_limits - a write is refused with OutOfResources exactly when a limit would be exceeded, a refused write changes nothing (defect D25, a refused write registered its instance, was found and repaired), an accepted one keeps all three limits; tied to the real writer through the public API in the simulator. Tied to DataReaderEntity by per-op differential runs with boundary-biased limits; oracle recounts the limits on every dump.'
LEVEL_NOTE = 'Trusted: Lean kernel (axioms audited: propext, Classical.choice, Quot.sound at most); the hand-written model Model/ReaderHist.lean of data_reader_entity.rs / user_defined_data_reader.rs (handles as Nat, times as total ns, Vec as List); the hist harness that drives the real DataReaderEntity<()> / UserDefinedDataReader through the cfg(dust_dds_verif) re-export and prints canonical lines; the Python oracle. The differential run validates the model on sampled op sequences only; the theorems are about the model.'
DESIGN_REF = 'DESIGN.md section 5 C19'
