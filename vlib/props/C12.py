"""C12: the 16-byte key hash / instance handle follows DDS-XTypes 7.6.8 (RTPS 9.6.4.8): big-endian serialization of the
key members, zero-padded when the MAXIMUM key size of the type is at most 16 bytes, MD5 of it otherwise."""
import hashlib
import os
import sys
from vlib.core import Case
from vlib import xcdr_common as X

ENGINE = "xcdr"
RULE = ("one op line per case: `khx <type> <value> <specification key bytes>` on the real "
        "`get_instance_handle_from_dynamic_data`; the specification bytes come from a pre-pass through the Lean "
        "specification (Spec/Xcdr.lean `fmembers`, big-endian XCDR1) and, for keys without optional / mutable parts, "
        "are recomputed by an independent Python serializer (both must agree); the expected handle is computed in "
        "Python (zero padding / hashlib.md5) from the maximum key size computed in Python from the type; random keyed "
        "types with distinct flattened ids: fixed-size keys around the 16-byte border (8..24 bytes), string and "
        "sequence keys (bounded and unbounded), nested key structures; FOLLOW-UP 3: one generated type in twelve has an OPTIONAL "
        "member of structure type with key members of its own (value present or absent): those members are not key members, "
        "the specification bytes and the independent Python key bytes leave them out; FOLLOW-UP 5: one generated type in twelve "
        "has a KEY member of structure type with key flags of its own whose first inner id meets an earlier outer key id: "
        "the key bytes contain that member's whole value once and the outer key member unchanged; non-trivial: key of more than one member or a "
        "key of maximum size > 16; distinct by canonical op line")
ASSUMPTIONS = [
    "member order of the key serialization = declaration order (the order the code uses; for the types IDL produces "
    "it coincides with member-id order of 7.6.8.3.1 b)",
    "XCDR1 encoding of the key (7.6.8.3.1 a of XTypes 1.3 asks for XCDR2 big-endian: for keys made of primitives "
    "up to 4 bytes, strings, and sequences / arrays of those the two coincide; 8-byte primitives differ in alignment "
    "(recorded as a note, not checked here))",
    "model = tree configuration detected from the sources (see C09)",
]
D16 = "key-hash-uses-actual-size-not-maximum-size"


def expected_handle(t, b):
    """-> (handle bytes or None when this calculator cannot tell, rule name)"""
    m = X.max_key_size(t)
    if m is None:
        if len(b) > 16:
            return hashlib.md5(b).digest(), "md5 (actual > 16)"
        return None, "undetermined"
    if m <= 16:
        return b + b"\0" * (16 - len(b)), "padded"
    return hashlib.md5(b).digest(), "md5"


def nontrivial(case, out):
    try:
        t = X.parse_ty(case.lines[0].split()[1])
    except ValueError:
        return False
    m = X.max_key_size(t)
    return len(X.flat_key_members(t)) > 1 or (m is not None and m > 16)


def oracle(case, out):
    if len(out) != 1:
        return [{"what": "case crashed", "ops": case.lines, "got": out}]
    _, ty, vs, spec = case.lines[0].split()
    t, v = X.parse_ty(ty), X.parse_val(vs)
    b = bytes.fromhex(spec) if spec != "-" else b""
    viol = []

    def bad(what, cause):
        if cause is None and os.environ.get("XCDR_DEBUG"):
            print("UNATTRIBUTED", what, case.lines, out, file=sys.stderr)
        viol.append({"what": what, "ops": case.lines, "got": out, "cause": cause})

    py = X.key_bytes_py(t, v)
    if py is not None and py != b:
        bad(f"the Lean specification bytes differ from the independent Python key serialization {py.hex()}", None)
    if not out[0].startswith("ok "):
        cs = X.constructs(X.key_holder(t, v)[0], X.key_holder(t, v)[1], 1)
        cause = next((c for c in ("xcdr1-parameter-id-overflows-u16",) if c in cs), None)
        bad(f"no handle: {out[0]}", cause)
        return viol
    h = bytes.fromhex(out[0][3:])
    exp, rule = expected_handle(t, b)
    if exp is None or h == exp:
        return viol
    padded = b + b"\0" * (16 - len(b)) if len(b) <= 16 else None
    if X.max_key_size(t) == X.UNBOUNDED and padded is not None and h == padded:
        bad(f"key of unbounded maximum size is zero-padded, not hashed: expected {exp.hex()}", D16)
    elif isinstance(X.max_key_size(t), int) and X.max_key_size(t) > 16 and padded is not None and h == padded:
        bad(f"key of maximum size {X.max_key_size(t)} > 16 is zero-padded, not hashed: expected {exp.hex()}", D16)
    else:
        kt, kv = X.key_holder(t, v)
        # attributed to an XCDR finding only if the Lean hypothesis wfKey rejects the case
        inside = X.model_outputs([f"wfk {ty} {vs}"])[0].endswith(" 1")
        bad(f"handle differs from the rule ({rule}): expected {exp.hex()}", None if inside else X.attribute(kt, kv, 1))
    return viol


KEY_PRIMS = ["u8", "i16", "u16", "i32", "u32", "u64", "i64", "b", "y", "f32", "f64"]


def gen_border_type(r):
    """fixed-size keys of 8..24 bytes made of primitives / arrays / a nested final struct, plus non-key filler"""
    ms, mid, size = [], 0, 0
    target = 8 + r.below(17)
    while size < target and len(ms) < 8:
        c = r.below(10)
        if c < 6:
            mt = ("prim", r.choice(KEY_PRIMS))
        elif c < 8:
            mt = ("arr", ("prim", r.choice(["u8", "u16", "u32"])), 1 + r.below(5))
        elif c < 9:
            mt = ("struct", "F", [(0, False, False, False, ("prim", r.choice(KEY_PRIMS))),
                                  (1, False, False, False, ("prim", r.choice(KEY_PRIMS)))])
        else:
            mt = ("enum", r.choice(["i8", "i16", "i32"]), [0, 1, 2])
        key = not r.chance(1, 5)
        ms.append((mid, False, key, False, mt))
        mid += 1 + r.below(2)
        if key:
            size = X.max_key_size(("struct", "F", ms))
    if not any(m[2] for m in ms):
        ms[0] = (ms[0][0], False, True, False, ms[0][4])
    return ("struct", r.choice("FAM"), ms)


def gen_cases(ctx):
    r = ctx.rng
    n = 700 if ctx.tier == "quick" else 12000
    pre = [tuple(c) for c in CORPUS]
    for k in range(n):
        if k % 2 == 0:
            t = gen_border_type(r)
        else:
            t = X.gen_keyed_type(r, ver=1, collide=False, exotic=(k % 13 == 1), optkey=(k % 6 == 1), keystruct=(k % 6 == 3))
        v = X.gen_value(r, t, X.Knobs(ver=1), ver=1)
        if not X.legal_sample(t, v) or "_" in X.key_view(t, v):
            continue
        pre.append((X.ty_text(t), X.val_text(v)))
    specs = X.model_outputs([f"keyspec {a} {b}" for a, b in pre])
    cases = []
    for (a, b), s in zip(pre, specs):
        if not s.startswith("ok "):
            ctx.count("no specification bytes: " + s.split()[1] if len(s.split()) > 1 else s)
            continue
        cases.append(Case([f"khx {a} {b} {s[3:] or '-'}"]))
    return cases


CORPUS = [
    # follow-up 5 (seed C12_c): a key member of structure type with key members of its own, inner id = earlier outer key id
    ("SF{0k:u32,1k:SF{0k:u32,2:u8},3:u16}", "{7,{3,1},5}"),
    ("SA{0k:u8,1k:SF{0k:u16,2k:u8}}", "{7,{3,1}}"),
    # follow-up 3: the key members of an OPTIONAL nested structure are not part of the key (present / absent)
    ("SF{0k:u8,5o:SF{6k:u8,7k:u16},2:u32}", "{5,{1,2},7}"),
    ("SF{0k:u8,5o:SF{6k:u8,7k:u16},2:u32}", "{5,_,7}"),
    ("SA{0k:u16,3:SF{4:u8,8o:SA{9k:s}}}", "{7,{1,{x6162}}}"),
    ("SM{3o:SF{4k:u64,5k:u64,6k:u8},2k:u32}", "{{1,2,3},9}"),          # with the optional members 21 bytes -> MD5; the key is 4
    ("SF{0k:s,1:u32}", "{x6162,7}"),                                   # D16 exemplar
    ("SF{0k:Q(u8)}", "{[1,2,3]}"),                                     # D16, sequence
    ("SF{0k:u64,1k:u64}", "{1,2}"),                                    # exactly 16
    ("SF{0k:u64,1k:u64,2k:u8}", "{1,2,3}"),                            # 17 -> md5
    ("SF{0k:u8,1k:u64,2k:u8}", "{1,2,3}"),                             # padding inside: 17
    ("SF{0k:s}", "{x616263646566676869707172737475}"),                 # long string -> md5 both ways
    ("SF{0:SF{0:SF{0k:u8},1k:u16}}", "{{{1},3}}"),                     # unit test of the repository
    ("SF{0k:SF{0:u8,1:u16}}", "{{1,3}}"),
    ("SM{5k:u32,1k:u16,9:s}", "{7,3,x61}"),
    ("SF{0k:Q5(u8)}", "{[1,2]}"),                                      # bounded sequence: maximum 9 -> padded
    ("SF{0k:Q100(u8)}", "{[1,2]}"),                                    # bounded sequence: maximum 104 -> md5 (D16)
]


def run(ctx):
    cases = gen_cases(ctx)
    eng = X.model_engine()
    ctx.count("model-engine " + eng)
    for c in cases:
        _, ty, vs, spec = c.lines[0].split()
        t = X.parse_ty(ty)
        m = X.max_key_size(t)
        b = bytes.fromhex(spec) if spec != "-" else b""
        ctx.count("maximum key size: " + ("unknown to the calculator" if m is None else "unbounded" if m == X.UNBOUNDED
                                          else "<= 16" if m <= 16 else "> 16"))
        if isinstance(m, int) and m != X.UNBOUNDED and 14 <= m <= 18:
            ctx.count(f"maximum key size = {m}")
        ctx.count("actual key size " + ("<= 16" if len(b) <= 16 else "> 16"))
        if X.key_struct_paths(t):
            ctx.count("type has a key member of structure type whose inner key id meets an earlier outer key id")
        ps = X.opt_keyed_struct_paths(t)
        if ps:
            ctx.count("type has an optional structure member with key members of its own: value " +
                      ("absent" if any(X.value_at(X.parse_val(vs), p) is None for p in ps) else "present"))
        ctx.count("independent Python key bytes " + ("computed" if X.key_bytes_py(t, X.parse_val(vs)) is not None else "n/a"))
    for i in range(0, len(cases), 4000):
        ctx.differential(ENGINE, cases[i:i + 4000], nontrivial=nontrivial, oracle=oracle, model_engine=eng, shrink=False)


TECHNIQUE = ("Lean 4 theorem over the key-holder model + differential correspondence with "
             "get_instance_handle_from_dynamic_data; oracle = Lean specification bytes / independent Python serializer + hashlib.md5")
LEVEL_TEXT = ("Kernel-checked Lean theorems: C12_rule_partial (for every keyed structure whose key has a fixed serialized size n "
              "(primitives, enumerations, arrays, final / appendable structures of those) and every value inside wfKey: the key "
              "serialization has exactly n bytes and the handle is pad16 if n <= 16, MD5 otherwise, i.e. the 7.6.8 rule with the "
              "maximum size), C12_small_keys_are_padded, C12_optional_nested_struct_not_in_key (every keyed structure type, value, optional "
              "non-key member - in particular an optional nested structure with key members of its own - and replacement value incl. "
              "none: key holder, key serialization, handle and the outcome of the real function unchanged), "
              "C12_key_struct_member_not_flattened (key flags inside a key member's type are irrelevant), and the as-is witness C12_asis_counterexample (string key \"ab\": the type "
              "has no maximum size, the code pads; finding D16, replayed). For keys of variable size the rule of the standard is "
              "violated by the code exactly as D16 says; the differential run checks every handle against the Python computation "
              "and reports those cases as the known finding. The model is tied to the code by the bytes of the handles of "
              "hundreds of random keyed types (fixed-size keys of 8..24 bytes around the border, strings, sequences, nested).")
LEVEL_NOTE = ("Trusted: Lean kernel; Model/Key.lean, Model/Md5.lean (validated: every MD5 handle is compared with the md5 crate "
              "and with hashlib); Spec/Xcdr.lean for the specification bytes (cross-checked by the Python serializer where the key "
              "has no optional / mutable part); the Python maximum-size calculator; harness and oracle.")
DESIGN_REF = "DESIGN.md section 5 C12"
