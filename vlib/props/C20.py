"""C20: read/take return exactly the matching samples with correct SampleInfo."""
from vlib.hist_common import *

RULE = ("random op lists with every mask subset (sample 0..3, view 0..3, instance 0..7), max_samples in {-1,0,1,2,3}, optional "
        "instance handle (incl. unknown); `dump` after every op gives the stored samples and the instance states the oracle "
        "filters by; read/take_next_instance ops are judged too (exact selection of one later instance; NoData only when no later instance matches); non-trivial as for the hist engine; distinct by hash of the op list")
ASSUMPTIONS = ["ranks follow DDS 1.4 2.2.2.5.1: sample_rank = later same-instance samples in the collection; generation_rank = generations between "
               "the sample and the most recent same-instance sample of the collection; absolute_generation_rank = generations between the "
               "sample and the instance's most recent received state"]
PROFILE = Profile(own=["shared"], minsep=[0], full_masks=25, p_read=45, readops=["read", "take", "read", "take", "readni", "takeni"],
                  kinds=["A"] * 6 + ["D", "U", "DU"])


def sel(samples, insts, ss, vs, is_, inst, mx):
    outl = []
    for idx, s in enumerate(samples):
        if mx >= 0 and len(outl) == mx:
            break
        if inst is not None and s["inst"] != inst:
            continue
        ist = insts.get(s["inst"])
        if ist is None:
            continue
        if not ((ss & 1 and s["read"]) or (ss & 2 and not s["read"])):
            continue
        if not ((vs & 1 and ist["view"] == "new") or (vs & 2 and ist["view"] == "old")):
            continue
        if not ((is_ & 1 and ist["st"] == "A") or (is_ & 2 and ist["st"] == "D") or (is_ & 4 and ist["st"] == "W")):
            continue
        outl.append(idx)
    return outl


def next_instance_step(q, i, t, o, before):
    """read/take_next_instance seen from C20: what is returned is exactly the selection of ONE instance behind the previous handle,
    and NoData only when no instance behind the previous handle has a matching sample (which instance it must be is C23's subject)"""
    samples, insts, _ = before
    mx = int(t[1]); prev = None if t[2] == "-" else int(t[2]); ss, vs, is_ = int(t[3]), int(t[4]), int(t[5])
    kind, infos = parse_infos(o)
    if not q["enabled"]:
        return []
    cands = sorted(h for h in insts if (prev is None or h > prev) and sel(samples, insts, ss, vs, is_, h, mx))
    if kind == "err":
        if infos == "NoData" and cands:
            return [{"what": f"op {i} {' '.join(t)}: NoData although instance(s) {cands} behind {prev} hold matching samples", "at": i}]
        return []
    if kind != "ok":
        return []
    hs = sorted(set(x["inst"] for x in infos))
    if len(hs) != 1 or (prev is not None and hs[0] <= prev):
        return [{"what": f"op {i} {' '.join(t)}: returned samples of instances {hs}, expected one instance behind {prev}", "at": i}]
    exp = [samples[k]["data"] for k in sel(samples, insts, ss, vs, is_, hs[0], mx)]
    if [x["data"] for x in infos] != exp:
        return [{"what": f"op {i} {' '.join(t)}: returned {[x['data'] for x in infos]} of instance {hs[0]}, its matching samples are {exp}", "at": i}]
    return []


def oracle(case, out):
    q = parse_qos(case.lines[0]) if case.lines and case.lines[0].startswith("qos") else None
    if q is None:
        return []
    viol = []
    for i, t, o, before, after in walk(case, out):
        if o in ("PANIC", "POISONED") or o.startswith("CRASH"):
            viol.append({"what": f"op {i} {' '.join(t)} panicked", "at": i}); break
        if t[0] in ("readni", "takeni") and after is not None:
            viol += next_instance_step(q, i, t, o, before)
            continue
        if t[0] not in ("read", "take") or after is None:
            continue
        samples, insts, _ = before
        mx, ss, vs, is_ = int(t[1]), int(t[2]), int(t[3]), int(t[4])
        inst = None if t[5] == "-" else int(t[5])
        kind, infos = parse_infos(o)
        if not q["enabled"]:
            if (kind, infos) != ("err", "NotEnabled"):
                viol.append({"what": f"op {i}: disabled reader answered {o}", "at": i})
            continue
        if inst is not None and inst not in insts:
            if (kind, infos) != ("err", "BadParameter"):
                viol.append({"what": f"op {i}: unknown instance handle answered {o[:40]}", "at": i})
            continue
        idxs = sel(samples, insts, ss, vs, is_, inst, mx)
        if not idxs:
            if (kind, infos) != ("err", "NoData"):
                viol.append({"what": f"op {i}: nothing matches but got {o[:60]}", "at": i})
            continue
        if kind != "ok":
            viol.append({"what": f"op {i}: {len(idxs)} samples match but got {o}", "at": i}); continue
        exp = [samples[k] for k in idxs]
        if [e["data"] for e in exp] != [x["data"] for x in infos]:
            viol.append({"what": f"op {i}: returned {[x['data'] for x in infos]}, matching samples in storage order are {[e['data'] for e in exp]}", "at": i})
            continue
        # per-sample info
        for k, (e, x) in enumerate(zip(exp, infos)):
            ist = insts[e["inst"]]
            later_same = [y for y in exp[k + 1:] if y["inst"] == e["inst"]]
            mrsic = ([y for y in exp if y["inst"] == e["inst"]])[-1]
            exp_info = {"read": e["read"], "view": ist["view"], "st": ist["st"], "dgc": e["dgc"], "nwgc": e["nwgc"],
                        "srank": len(later_same),
                        "grank": (mrsic["dgc"] + mrsic["nwgc"]) - (e["dgc"] + e["nwgc"]),
                        "agrank": (ist["dgc"] + ist["nwgc"]) - (e["dgc"] + e["nwgc"]),
                        "sts": e["sts"], "inst": e["inst"], "pub": e["writer"], "valid": e["kind"] in ("A", "F")}
            for f, v in exp_info.items():
                if x[f] != v:
                    cause = None
                    if f in ("agrank", "grank"):
                        cause = "agrank-replayed-over-collection"
                    viol.append({"what": f"op {i}: sample {e['data']} SampleInfo.{f} = {x[f]}, expected {v}", "at": i, "cause": cause})
                    break
        # grouping: same-instance samples consecutive
        seen, prev = set(), None
        for x in infos:
            if x["inst"] != prev:
                if x["inst"] in seen:
                    viol.append({"what": f"op {i}: samples of instance {x['inst']} are not consecutive in the returned collection", "at": i,
                                 "cause": "storage-order-interleaves-instances"})
                    break
                seen.add(x["inst"]); prev = x["inst"]
        # effect on the store
        sa = after[0]
        if t[0] == "read":
            exp_after = [dict(s, read=True) if k in idxs else s for k, s in enumerate(samples)]
        else:
            exp_after = [s for k, s in enumerate(samples) if k not in idxs]
        if [(s["data"], s["read"]) for s in sa] != [(s["data"], s["read"]) for s in exp_after]:
            viol.append({"what": f"op {i}: store after {t[0]} is not (read: same samples, returned marked READ / take: returned removed)", "at": i})
        # view state: instances in the collection become NOT_NEW
        for h in set(x["inst"] for x in infos):
            if after[1].get(h, {}).get("view") != "old":
                viol.append({"what": f"op {i}: instance {h} still NEW after its samples were returned", "at": i})
    return viol


def run(ctx):
    run_hist(ctx, PROFILE, oracle, 1500, 30000)

TECHNIQUE = "Lean 4 refinement proof (selection = filter spec) + differential correspondence with DataReaderEntity"
LEVEL_TEXT = 'Kernel-checked Lean theorems: C20_selection (for every store, masks, instance filter, max_samples and read/take flag the returned data is exactly the specified selection — the first max matching samples in storage order — and NoData exactly when nothing matches), C20_sample_rank and C20_generation_ranks (absolute_generation_rank and generation_rank of every returned SampleInfo follow the DDS definitions, computed from the counts stored with the samples; a defect here, D26b, was found by the oracle and repaired). The grouping-by-instance clause fails on the code as it is (recorded finding D26a, reproduced by the oracle on the real reader). Model tied to DataReaderEntity::read/take by per-op differential comparison of every SampleInfo field and of the store before/after.'
LEVEL_NOTE = 'Trusted: Lean kernel (axioms audited: propext, Classical.choice, Quot.sound at most); the hand-written model Model/ReaderHist.lean of data_reader_entity.rs / user_defined_data_reader.rs (handles as Nat, times as total ns, Vec as List); the hist harness that drives the real DataReaderEntity<()> / UserDefinedDataReader through the cfg(dust_dds_verif) re-export and prints canonical lines; the Python oracle. The differential run validates the model on sampled op sequences only; the theorems are about the model.'
DESIGN_REF = 'DESIGN.md section 5 C20'
