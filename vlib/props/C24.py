"""C24: EXCLUSIVE ownership - only the strongest live writer affects an instance."""
from vlib.hist_common import *

RULE = ("EXCLUSIVE readers with 2-3 matched writers of strengths from {-1,0,1,5,10} (ties included), writes/disposes/unregisters "
        "from all of them interleaved with reads, unmatching of writers, time-based filter off or 5 / 10 ns (so that an owner's unregister can be dropped by the filter); non-trivial as for hist plus >=2 writers")
ASSUMPTIONS = ["ownership hand-over on deadline expiry is exercised through the deadline engine on the simulator (second part of this check)",
               "owner = writer recorded as owner by the reader when the sample arrives (first come on ties)"]
PROFILE = Profile(own=["excl"], minsep=[0, 0, 0, 5, 10], nwriters=(2, 3), kinds=["A"] * 6 + ["D", "U", "DU"], ninst=(1, 2), limits=False, unpub=6)


def oracle(case, out):
    q = parse_qos(case.lines[0]) if case.lines and case.lines[0].startswith("qos") else None
    if q is None or q["own"] != "excl":
        return []
    viol = []
    strength = {}
    released = set()   # instances whose owner unregistered / was deleted and that nobody has claimed since (reference)
    ref_owner = {}     # instance -> writer, by the DDS rule (first writer, stronger takes over, released on unregister / deletion)
    unsure = set()     # instances the reference has given up on (time-based filter + a writer that is not matched: see below)
    for i, t, o, before, after in walk(case, out):
        if o in ("PANIC", "POISONED") or o.startswith("CRASH"):
            viol.append({"what": f"op {i} {' '.join(t)} panicked", "at": i}); break
        if t[0] == "pub":
            strength[int(t[1])] = int(t[2])
        elif t[0] == "unpub":
            if int(t[1]) in strength:
                for h_, w_ in list(ref_owner.items()):
                    if w_ == int(t[1]):
                        del ref_owner[h_]; released.add(h_)
            strength.pop(int(t[1]), None)
        elif t[0] == "add" and after is not None:
            w, inst = int(t[1]), int(t[2])
            # reference ownership (independent of the implementation's own bookkeeping)
            # the time-based filter may drop a sample legitimately; it cannot when the sample is at least minimum_separation
            # behind every stored sample of its instance (or the instance holds none)
            stamps = [x["sts"] for x in before[0] if x["inst"] == inst]
            sts_new = None if t[4] == "-" else int(t[4])
            tbf_cannot_drop = q["minsep"] == 0 or not stamps or (
                q["minsep"] is not None and sts_new is not None and all(x is not None for x in stamps) and sts_new >= max(stamps) + q["minsep"])
            if inst in released and inst not in unsure and t[3] == "A" and w in strength and tbf_cannot_drop:
                if o != "added":
                    viol.append({"what": f"op {i}: instance {inst} was released by its owner (unregistered or deleted) but the sample of matched writer {w} was not accepted: {o}", "at": i})
            own_b = before[2].get(inst)
            was_owner = ref_owner.get(inst) == w and w in strength and inst not in unsure   # only matched writers: see the note below
            if t[3] in ("U", "DU") and (o == "added" or was_owner):
                # the owner's unregister releases the instance whether or not the marker sample itself is stored
                # (the time-based filter may drop it): seeded change C24_d tied the release to the storing
                if was_owner and (own_b is None or own_b["owner"] == w) and after[2].get(inst) is not None:
                    viol.append({"what": f"op {i}: owner {w} unregistered instance {inst} ({o}) but the reader still records writer "
                                         f"{after[2][inst]['owner']} as its owner", "at": i})
                ref_owner.pop(inst, None); released.add(inst)
            elif t[3] in ("A", "F"):
                cur = ref_owner.get(inst)
                if w not in strength:
                    # a sample of a writer that is not matched (cannot happen through the RTPS reader, the harness allows it):
                    # followed as before when it is stored; when the time-based filter drops it the reference gives up on the
                    # instance until a matched writer's sample is stored
                    if o == "added":
                        ref_owner[inst] = w; released.discard(inst)
                    elif q["minsep"] != 0:
                        unsure.add(inst)
                elif o == "added":
                    ref_owner[inst] = w; released.discard(inst)
                elif not tbf_cannot_drop:
                    # not stored, and the time-based filter may be the reason: the writer claims the instance before the filter
                    # is consulted if it passes the ownership rule; an owner that is not matched makes the reference give up
                    if cur is None or cur == w or (cur in strength and strength[w] > strength[cur]):
                        ref_owner[inst] = w; released.discard(inst)
                    elif cur not in strength:
                        unsure.add(inst)
                # else: not stored although the filter cannot drop it = blocked by the ownership rule, nothing changes
            elif t[3] == "D" and o == "added":
                released.discard(inst); ref_owner.pop(inst, None)   # dispose: either behaviour is accepted
            ist_b = before[1].get(inst)
            ist_a = after[1].get(inst)
            if own_b is not None and own_b["owner"] != w and own_b["owner"] in strength:
                weaker = (w not in strength) or strength[w] <= strength[own_b["owner"]]
                if weaker:
                    if o == "added":
                        viol.append({"what": f"op {i}: sample of writer {w} (strength {strength.get(w)}) stored although {own_b['owner']} (strength {strength[own_b['owner']]}) owns instance {inst}", "at": i})
                    if ist_b is not None and ist_a is not None and (ist_b["st"], ist_b["dgc"], ist_b["nwgc"]) != (ist_a["st"], ist_a["dgc"], ist_a["nwgc"]):
                        viol.append({"what": f"op {i}: {t[3]} from non-owner {w} changed instance {inst} from {ist_b['st']} to {ist_a['st']}", "at": i,
                                     "cause": "state-updated-before-ownership-filter"})
                elif o != "added" and t[3] in ("A",) and tbf_cannot_drop:
                    # stronger writer must take over (unless resource limits, none in this profile)
                    viol.append({"what": f"op {i}: stronger writer {w} ({strength.get(w)}) not accepted over owner {own_b['owner']} ({strength[own_b['owner']]}): {o}", "at": i})
    return viol


def nt(case, out):
    return nontrivial(case, out) and len(set(l.split()[1] for l in case.lines if l.startswith("add "))) >= 2


def run(ctx):
    r = ctx.rng
    n = 1500 if ctx.tier == "quick" else 30000
    cases = [gen_case(r, PROFILE, long=(ctx.tier == "thorough" and k % 10 == 0)) for k in range(n)]
    for c in cases:
        for l in c.lines:
            ctx.count(l.split()[0])
    ctx.differential(ENGINE, cases, nontrivial=nt, oracle=oracle)
    # deadline clause: ownership of EVERY instance whose deadline expired is released (check_missed_reader_deadline,
    # engine `deadline` on the simulator; theorem C24_handover_on_deadline_miss in Props/C24Deadline.lean)
    from vlib import deadline_common as DL
    from vlib.worker_common import run_differential
    dcases = DL.c24_deadline_cases(r, ctx.tier)
    ctx.count("deadline-clause-cases", len(dcases))
    run_differential(ctx, DL.ENGINE, dcases, DL.c24_deadline_oracle, DL.c24_nontrivial)


LEAN_MODULES = ["DustVerif.Props.C24", "DustVerif.Props.C24Deadline"]
BINS = ["hist", "dsim", "deadline"]

TECHNIQUE = "Lean 4 theorems on the ownership filter of add_reader_change + differential correspondence"
LEVEL_TEXT = 'Kernel-checked Lean theorems for all states / op lists: with EXCLUSIVE ownership a change from a matched writer that is not the owner and not strictly stronger is never stored and does not change ownership (C24_non_owner_not_stored, ties keep the first owner), unmatched writers are dropped, a strictly stronger writer takes over (C24_stronger_takes_over), SHARED never filters; each instance has at most one owner in every reachable state (C24_owner_unique, induction over arbitrary op lists); ownership is released when the owner disposes/unregisters (C24_handover_on_unregister), also when that change itself is then dropped by the time-based filter or rejected by a resource limit (C24_handover_even_if_not_stored), and when the owning writer is removed (C24_handover_on_writer_removed) - two genuine defects here (D54, D55: ownership never passed on) were found by probing the model and repaired. Instance-state changes by non-owners remain a recorded finding (D29); hand-over on a missed deadline (check_missed_reader_deadline in discovery_methods.rs) is covered by the deadline engine: C24_handover_on_deadline_miss (for all instance lists, every expired instance loses its ownership entry and all others keep theirs), tied to the real code by simulator scenarios with several instances expiring in one worker pass.'
LEVEL_NOTE = 'Trusted: Lean kernel (axioms audited: propext, Classical.choice, Quot.sound at most); the hand-written model Model/ReaderHist.lean of data_reader_entity.rs / user_defined_data_reader.rs (handles as Nat, times as total ns, Vec as List); the hist harness that drives the real DataReaderEntity<()> / UserDefinedDataReader through the cfg(dust_dds_verif) re-export and prints canonical lines; the Python oracle. The differential run validates the model on sampled op sequences only; the theorems are about the model.'
DESIGN_REF = 'DESIGN.md section 5 C24'
