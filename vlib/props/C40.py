"""C40: #[derive(DdsType)] describes and converts types faithfully.

The implementation under test is the proc-macro: a crate with N random declarations + values is generated, compiled
against the repo checkout (the real macro expands them) and its binary answers the same op lines as the Lean model."""
import os
from vlib.core import Case, run_lines, model_bin
from vlib import gen_common as G

ENGINE = "gen"
BINS = ["gen"]
LEAN_MODULES = ["DustVerif.Props.C40"]
RULE = ("random declaration trees (struct with named / tuple fields, C-like enum with explicit discriminants and bit bound, union-like "
        "enum with case / default attributes; member types: 13 primitives, String, Vec, [T; N] incl. N = 0 and 33, Option, nested "
        "declared types up to 3 deep; attributes key, id, optional, non_serialized, hashid, extensibility, nested, name) with three "
        "values each (all-default, boundary, random); hand-written corpus with the exemplar of every known finding first; a case "
        "(declaration + its values) is non-trivial when the description has at least one member or discriminator and at least one "
        "round trip returned a value; distinct by op lines")
ASSUMPTIONS = [
    "attribute language as documented in dds/README.md ('Rust type definition using #[derive(DdsType)]'); not generated: default_value, "
    "try_construct, external/Box, base_type, generic types, char/enum/bool union discriminators",
    "a `None` in an `Option` member that is not marked `optional` panics by design (data_storage.rs:663, the message names the missing "
    "attribute): predicted by the model (PANIC) and compared, but not counted as a violation of the property",
    "values: integers over the full range of their type, floats k/4 (exact in f32), ASCII alphanumeric chars and strings",
    "rustc and the derived Debug / PartialEq / Clone / Default impls of the generated crate are trusted; the expansion itself is "
    "compared (description + round trip), not proved",
]
N_QUICK, N_THOROUGH, CRATES_THOROUGH = 60, 150, 4


def corpus():
    """hand-written declarations; the exemplar of every known finding comes first"""
    P, S, F = G.prim, G.struct, G.field
    out = []
    # D-gen-2 explicit id in a final / appendable struct is ignored
    out.append(S("C2Ign", [F("a", P("u8"), id=10), F("b", P("i32"))], "appendable"))
    # D-gen-3 enum literals are not published
    out.append(G.enum("C3Enum", [("Red", 1), ("Green", None), ("Blue", 10)], 16, 1))
    # D-gen-4 Vec<i8> element described as UINT8
    out.append(S("C4Vec", [F("v", G.vec(P("i8"))), F("w", G.arr(2, P("i8")))]))
    # D-gen-5 a default variant that is not the last one shadows the arms after it
    out.append(G.union("C5Union", "i32", [G.variant("Dflt", P("u8"), [], True), G.variant("X", P("i16"), [5])]))
    # D-gen-6 implicit labels are index + 1 (README: index) and may collide with explicit ones
    out.append(G.union("C6Union", "u8", [G.variant("A", P("u8"), [2]), G.variant("B", P("u8"), []), G.variant("C", None, [])]))
    # regular shapes
    inner = S("C7In", [F("k", P("i32"), key=True), F("name", P("string"))], "appendable", nested=True)
    out.append(S("C7Out", [F("id", P("u64"), key=True), F("inner", inner, key=True), F("o", G.opt(G.vec(P("u8"))), optional=True),
                           F("skip", P("u32"), nonser=True), F("h", P("f64"), hashid=True)], "mutable", rename="my::Renamed"))
    out.append(S("C8Tup", [F("0", P("u8")), F("1", G.vec(P("string")))], "mutable", tuple_=True))
    out.append(S("C9Bare", [F("o", G.opt(P("u8")))]))
    out.append(S("C10Ids", [F("a", P("u8"), id=5), F("b", P("u8")), F("c", P("u8"), id=2), F("d", P("u8"))], "mutable"))
    # members that carry several attributes: written combined `#[dust_dds(key, id = 5)]` or split `#[dust_dds(id = 5)] #[dust_dds(key)]`
    # in any order (gen_common.spell_attrs) -- the same declaration for the macro, which reads every dust_dds attribute (D-gen-14)
    out.append(S("C11Attrs", [F("a", P("u8"), key=True, id=5), F("b", G.opt(P("u16")), id=9, optional=True), F("c", P("u32"), key=True, hashid=True),
                              F("d", P("i64"), id=20, nonser=True), F("e", P("string"), key=True, id=30), F("f", G.opt(G.vec(P("u8"))), optional=True, id=31),
                              F("g", P("i8"), key=True, id=40), F("h", P("bool"), id=41, key=True)], "mutable", rename="Attrs::Split", nested=True))
    out.append(S("C12Attrs", [F("a", P("u8"), key=True, id=5), F("b", G.opt(P("u16")), optional=True, hashid=True), F("c", P("u32"), key=True, id=7)],
                 "appendable", rename="Attrs::Two", nested=True, tuple_=True))
    return out


def rejected_corpus():
    """declarations the macro must REJECT at compile time (D-gen-1 repaired: a repeated member id is an error)"""
    P, S, F = G.prim, G.struct, G.field
    return [
        S("C1Dup", [F("a", P("u8")), F("b", P("u16")), F("c", P("u32"), id=1)], "mutable"),       # explicit id = an earlier sequential id
        S("C1Dup2", [F("a", P("u8"), id=5), F("b", P("u16"), id=4), F("c", P("u32"))], "mutable"),   # sequential id runs into an earlier explicit one
    ]


def has_duplicate_ids(t):
    found = []
    def fn(x):
        if x["k"] == "struct":
            ids = G.code_ids(x)
            if len(set(ids)) != len(ids):
                found.append(x["ident"])
    G.walk(t, fn)
    return bool(found)


def reject_rs(t):
    items = []
    G.rust_decls(t, set(), items)
    return ("#![allow(warnings)]\nuse dust_dds::infrastructure::type_support::DdsType;\n" + "\n".join(items) + "\nfn main() {}\n")


def compile_culprits(crate_dir, out, live):
    """{declaration id: first error message} for the errors rustc reports in src/main.rs"""
    import re
    src = open(os.path.join(crate_dir, "src", "main.rs")).read().splitlines()
    owner = {}
    for i, (t, _) in live.items():
        G.walk(t, lambda x, i=i: owner.__setitem__(x["ident"], i) if "ident" in x else None)
    found = {}
    lines = out.splitlines()
    msg = ""
    for k, l in enumerate(lines):
        if l.startswith("error"):
            msg = l[:200]
        m = re.match(r"\s*--> src/main\.rs:(\d+):", l)
        if m and msg:
            text = src[int(m.group(1)) - 1] if int(m.group(1)) <= len(src) else ""
            for ident in re.findall(r"(?:struct|enum)\s+(\w+)|(?:describe|rt)::<(\w+)>", text):
                ident = ident[0] or ident[1]
                if ident in owner:
                    found.setdefault(owner[ident], msg)
    return found


def corpus_values(g, t):
    return [g.val(t, 0), g.val(t, 1), g.val(t, 2), g.val(t, 2)]


def parse_out(line):
    """'eq=1 dyn=(d ...) rt=Some(...)' -> dict"""
    if not line.startswith("eq="):
        return None
    a = line.index(" dyn=")
    b = line.index(" rt=")
    return {"eq": line[3:a], "dyn": line[a + 5:b], "rt": line[b + 4:]}


def nontrivial(case, out):
    if not out or not out[0].startswith("T "):
        return False
    d = G.parse_sexp(out[0][2:])[0]
    has_member = bool(d[7]) or d[6] != "-"
    return has_member and any(o.startswith("eq=") and " rt=Some(" in o for o in out[1:])


def oracle(case, out):
    """on the implementation's answers alone: description = the declaration (documented rules), round trip = identity up to
    non_serialized members"""
    viol = []
    decls = G.parse_derive_lines(case.lines)
    for li, (line, o) in enumerate(zip(case.lines, out)):
        tk = line.split(None, 3)
        if tk[0] == "decl":
            t = decls[int(tk[1])][0]
            if not o.startswith("T "):
                viol.append({"what": f"no description: {o}", "op": line[:300]})
                continue
            got = G.parse_sexp(o[2:])
            vs = []
            G.compare_desc(t, got[0], t["ident"], vs)
            for v in vs:
                v["op"] = line[:400]
            viol.extend(vs)
        elif tk[0] == "val":
            t, vals = decls[int(tk[1])]
            v = vals[int(tk[2])]
            r = parse_out(o)
            if r is None:
                viol.append({"what": f"no round-trip answer: {o}", "op": line[:300]})
                continue
            if G.has_bare_none(t, v):
                continue          # documented panic (ASSUMPTIONS)
            exp = G.scrub(t, v)
            want = f"Some({G.dbg(t, exp)})"
            if r["rt"] != want:
                blockers = set()
                G.roundtrip_blockers(t, v, blockers)
                d = {"what": f"round trip of {G.dbg(t, v)} returned {r['rt']}, expected {want}", "op": line[:400]}
                if len(blockers) >= 1:
                    d["cause"] = sorted(blockers)[0]
                viol.append(d)
            elif (r["eq"] == "1") != (exp == v):
                viol.append({"what": f"PartialEq of the round-tripped value says {r['eq']}, expected {int(exp == v)}", "op": line[:400]})
    return viol


def model_lines(lines):
    rc, out, err = run_lines([model_bin(), "gen"], lines)
    if rc != 0 or len(out) != len(lines):
        raise RuntimeError(f"model driver failed: rc={rc} {err}")
    return out


def make_cases(ctx, g, n, with_corpus):
    decls = []
    if with_corpus:
        for t in corpus():
            decls.append((t, corpus_values(g, t)))
    while len(decls) < n:
        batch = [g.top() for _ in range(n - len(decls))]
        # the model's `supported` says which declarations must compile: ask it first, drop what it refuses
        # (then a crate that does not build is a disagreement: the model accepts what rustc / the macro reject)
        ans = model_lines([f"decl {i} {G.sx(G.ty_sexp(t))}" for i, t in enumerate(batch)])
        for t, a in zip(batch, ans):
            if a.startswith("T "):
                decls.append((t, [g.val(t, 0), g.val(t, 1), g.val(t, 2)]))
            else:
                ctx.count("dropped:model-says-unsupported")
                if has_duplicate_ids(t) and len(ctx.gen_rejects) < 3:
                    ctx.gen_rejects.append(t)
    cases = [Case(G.derive_case_lines(i, t, vals), {"decl": t}) for i, (t, vals) in enumerate(decls)]
    return decls, cases


def count(ctx, decls):
    for t, vals in decls:
        def fn(x):
            ctx.count("node:" + x["k"])
            if x["k"] == "struct":
                ctx.count("struct:" + x["ext"] + (":tuple" if x["tuple"] else ""))
                for f in x["fields"]:
                    for a in ("key", "optional", "nonser", "hashid"):
                        if f[a]:
                            ctx.count("attr:" + a)
                    if f["id"] is not None:
                        ctx.count("attr:id")
        G.walk(t, fn)
        depth = [0]

        def dep(x, d=0):
            depth[0] = max(depth[0], d)
            k = x["k"]
            if k in ("vec", "arr", "opt"):
                dep(x["t"], d)
            elif k == "struct":
                for f in x["fields"]:
                    dep(f["t"], d + 1)
            elif k == "union":
                for v in x["variants"]:
                    if v["t"] is not None:
                        dep(v["t"], d + 1)
        dep(t)
        ctx.count(f"depth:{depth[0]}")


def run(ctx):
    G.clean_gencrates("derive_")
    ncrates = 1 if ctx.tier == "quick" else CRATES_THOROUGH
    n = N_QUICK if ctx.tier == "quick" else N_THOROUGH
    for c in range(ncrates):
        g = G.DeriveGen(ctx.rng, prefix=f"T{c}x")
        ctx.gen_rejects = list(rejected_corpus()) if c == 0 else []
        decls, cases = make_cases(ctx, g, n, with_corpus=(c == 0))
        count(ctx, decls)
        rejects = {f"reject_{i}": t for i, t in enumerate(ctx.gen_rejects)}
        for b in list(rejects) + ["gen_derive"]:
            try:
                os.remove(G.bin_path(b))
            except OSError:
                pass
        live = {i: (t, dict(enumerate(vals))) for i, (t, vals) in enumerate(decls)}
        pending = []          # reported after the differential run, so that a description / round-trip violation (better replay) comes first
        for attempt in range(4):
            d = G.write_crate(f"derive_{ctx.seed}_{c}", "gen_derive", G.derive_main_rs(live), {b: reject_rs(t) for b, t in rejects.items()})
            ok, out, secs = G.cargo_build(d, ctx.log, keep_going=True)
            ctx.count("crate_build_s", int(secs))
            if os.path.exists(G.bin_path("gen_derive")):
                break
            # the crate does not compile although the model accepts every declaration in it: find the declarations the errors point at,
            # report each as a violation (replay = its op lines) and go on without them
            culprits = compile_culprits(d, out, live)
            if not culprits or attempt == 3:
                errs = "\n".join(l for l in out.splitlines() if l.startswith("error"))[:3000]
                ctx.disagreements.append({"what": "the generated crate does not compile: a declaration the model accepts is rejected by the "
                                                  "macro / rustc (or the generator is wrong)", "crate": d, "detail": errs})
                return
            for i, msg in sorted(culprits.items()):
                ctx.stats["evaluations"] += 1
                ctx.count("does-not-compile")
                pending.append({"what": f"{live[i][0]['ident']}: a declaration of the documented attribute language (accepted by the model) does not "
                                               f"compile: {msg}", "ops": cases[i].lines})
                del live[i]
        cases = [cases[i] for i in sorted(live)]
        # declarations with a repeated member id must be refused by the macro (property: the ids of every accepted type are distinct)
        for b, t in rejects.items():
            ctx.stats["evaluations"] += 1
            ctx.count("reject-probe")
            if os.path.exists(G.bin_path(b)):
                ctx.violations.append({"what": f"{t['ident']}: a declaration with a repeated member id {G.code_ids(t) if t['k'] == 'struct' else ''} "
                                               "is accepted by the macro (every value of it is lost in the round trip)",
                                       "ops": [f"decl 0 {G.sx(G.ty_sexp(t))}"]})
            elif "is already used by another member" not in out:
                ctx.violations.append({"what": f"{t['ident']}: rejected, but not with the duplicate-member-id diagnostic",
                                       "ops": [f"decl 0 {G.sx(G.ty_sexp(t))}"]})
        ctx.differential("gen_derive", cases, nontrivial=nontrivial, oracle=oracle, model_engine="gen", shrink=False)
        ctx.violations.extend(pending)


LEVEL_TEXT = ("Kernel-checked Lean theorems over ALL declaration trees and ALL values of the model of the macro expansion: "
              "C40_roundtrip (create_sample (create_dynamic_sample v) = v with non_serialized members defaulted, for every well-formed "
              "declaration), C40_roundtrip_union (every union with pairwise distinct written labels and at most one default variant, at any "
              "position), C40_describe_faithful (names, order, key / optional / must-understand flags, extensibility, nested, type name), "
              "C40_explicit_ids_mutable and C40_sequential_ids (member-id rule), C40_ids_distinct (every accepted struct has pairwise distinct "
              "member ids), C40_describe_vec_elem. Three defects found by this check were repaired (fixes/D-gen-1, D-gen-4, D-gen-5: repeated "
              "member ids are a compile error, Vec<i8> element type, default arm emitted last); their old behaviour is kept as Lean "
              "regression witnesses and as corpus cases. Still FALSE for the code as it is: 'explicit ids are respected' in final/appendable "
              "types, enumerators published, implicit union labels (known findings D-gen-2, 3, 6, 7). The model is tied to the real "
              "proc-macro by compiling a generated crate per run and comparing description and round-trip lines; declarations with a "
              "repeated member id are compiled as separate binaries that must fail with the macro's diagnostic.")
LEVEL_NOTE = ("Trusted: Lean kernel; Model/Derive.lean (transcription of type_support.rs / attributes.rs / enum_support.rs, the Type and "
              "DataStorageMapping impls, DynamicData set/remove); the crate generator and its prelude (walks DynamicType / DynamicData "
              "through the public API); rustc; Python oracle (documented id rule, Debug printer). Not covered: default_value, "
              "try_construct, external, base_type, generics, non-integer union discriminators; the serialized form (C39).")
TECHNIQUE = "Lean 4 theorems over the declaration AST + differential correspondence through a generated crate compiled with the real macro"
DESIGN_REF = "DESIGN.md section 5 C40"
TRUSTED_EXTRA = ["generated crate (vlib/gen_common.py: declarations, value literals, prelude printing DynamicType/DynamicData through the public API), compiled by rustc with the real derive macro"]
