#!/bin/sh
# Build the framework offline: Lean project (models, proofs, driver) and the Rust harness binaries.
set -e
cd "$(dirname "$0")"
export CARGO_NET_OFFLINE=true
(cd lean/DustVerif && lake build DustVerif dustmodel)
(cd harness && cargo build --offline --bins 2>&1 | tail -3) || true
