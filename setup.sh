#!/bin/sh
# Build the framework offline: Lean project (models, proofs, property theorems, driver) and the Rust harness binaries.
set -e
cd "$(dirname "$0")"
export CARGO_NET_OFFLINE=true
MODS=$(cd lean/DustVerif && ls DustVerif/Props/*.lean | sed 's/\.lean$//; s/\//./g')
(cd lean/DustVerif && lake build DustVerif dustmodel $MODS)
(cd harness && cargo build --offline --bins 2>&1 | tail -3) || true
