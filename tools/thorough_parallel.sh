#!/bin/sh
# usage: tools/thorough_parallel.sh <parallel> prop...
cd /verif
P=$1; shift
printf '%s\n' "$@" | xargs -P $P -I{} sh -c './check {} --tier thorough > /tmp/thorough_{}.log 2>&1; grep -E "^VIOLATION|thorough:|Traceback" /tmp/thorough_{}.log | cut -c1-260'
echo SWEEP-DONE
