#!/bin/sh
# Run the repository's pinned baseline (guard OFF) in the given checkout (default /repo) and report
# which of the 386 stable tests did not pass.   usage: tools/baseline.sh [repo-dir]
R=${1:-/repo}
cd "$R" || exit 2
export CARGO_NET_OFFLINE=true
cargo nextest run --workspace --no-fail-fast --tool-config-file pb:/w/lib/nextest.toml --profile pb --test-threads 8 --offline > /tmp/baseline_$$.log 2>&1
J=$(ls -t "$R"/target/nextest/pb/junit.xml 2>/dev/null | head -1)
python3 - "$J" <<'PY'
import json, sys, xml.etree.ElementTree as ET
stable = set(json.load(open('/root/.vp/BASELINE.json'))['stable_pass'])
t = ET.parse(sys.argv[1]).getroot()
res = {}
for ts in t.iter('testsuite'):
    for tc in ts.iter('testcase'):
        name = tc.get('classname', '') + '::' + tc.get('name', '')
        bad = any(c.tag in ('failure', 'error') for c in tc)
        res[name] = not bad
# names in BASELINE are "<binary>::<test path>"; try both exact and suffix matching
def find(n):
    if n in res: return res[n]
    for k, v in res.items():
        if k.endswith(n) or n.endswith(k): return v
    return None
missing = [n for n in stable if find(n) is None]
failed = [n for n in stable if find(n) is False]
print(f"junit tests: {len(res)}, stable: {len(stable)}, stable failed: {len(failed)}, stable missing: {len(missing)}")
for n in failed[:40]: print("FAILED", n)
for n in missing[:10]: print("MISSING", n)
sys.exit(1 if failed or missing else 0)
PY
rc=$?
rm -f /tmp/baseline_$$.log
exit $rc
