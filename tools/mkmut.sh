#!/bin/sh
# scratch worktree for a mutation sub-agent: /tmp/m_<name> (git worktree of /repo HEAD), nothing from /verif
set -e
D=/tmp/m_$1
[ -d "$D" ] || git -C /repo worktree add --detach "$D" HEAD >/dev/null
echo "$D"
