#!/bin/sh
for d in "$@"; do
  echo "##### $d"
  # demo_cmd contains the agent's own target dir; rewrite to the shared confirm worktree
  sed -i 's#CARGO_TARGET_DIR=/tmp/m_[A-Za-z0-9]*/target ##' $d/meta.json
  /verif/tools/confirm_mut.sh /tmp/m_confirm $d 2>&1 | tail -4
done
