#!/bin/sh
# confirm a seeded change in a scratch worktree: demo passes without the change, fails with it.
# usage: confirm_mut.sh <worktree> <dir with patch.diff demo.diff meta.json>
W=$1; D=$2
export CARGO_NET_OFFLINE=true CARGO_TARGET_DIR=$W/target
cd "$W" || exit 2
git checkout -q -- . && git clean -fdq -e out -e target
CMD=$(python3 -c "import json,sys; print(json.load(open('$D/meta.json'))['demo_cmd'])")
git apply "$D/demo.diff" || { echo "DEMO-APPLY-FAILED"; exit 2; }
echo "== demo on unchanged code: $CMD"
( eval "$CMD" ) > "$D/confirm_without.log" 2>&1; R1=$?
git apply "$D/patch.diff" || { echo "PATCH-APPLY-FAILED"; exit 2; }
echo "== demo with the change"
( eval "$CMD" ) > "$D/confirm_with.log" 2>&1; R2=$?
git checkout -q -- . && git clean -fdq -e out -e target
echo "without=$R1 with=$R2"
[ "$R1" = 0 ] && [ "$R2" != 0 ] && echo CONFIRMED || echo NOT-CONFIRMED
