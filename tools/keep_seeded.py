#!/usr/bin/env python3
"""keep a confirmed seeded change: tools/keep_seeded.py <src dir> <seed id> <caught_by json string>"""
import json, os, shutil, sys
src, sid, caught = sys.argv[1], sys.argv[2], json.loads(sys.argv[3])
dst = os.path.join("/verif/seeded", sid)
os.makedirs(dst, exist_ok=True)
for f in ("patch.diff", "demo.diff"):
    shutil.copy(os.path.join(src, f), os.path.join(dst, f))
m = json.load(open(os.path.join(src, "meta.json")))
m["confirmed"] = {"by": "tools/confirm_mut.sh in a scratch worktree of /repo HEAD: demo.diff alone -> demo passes; + patch.diff -> demo fails",
                  "without_rc": 0, "with_rc": 101}
m["caught_by"] = caught
json.dump(m, open(os.path.join(dst, "meta.json"), "w"), indent=1)
print("kept", dst)
