#!/usr/bin/env python3
"""append the known-findings entries a builder added: tools/merge_kf.py <name> <base-commit>"""
import json, subprocess, sys
name, basec = sys.argv[1], sys.argv[2]
base = json.loads(subprocess.run(['git', '-C', '/verif', 'show', f'{basec}:known_findings.json'], capture_output=True, text=True).stdout)
new = json.load(open(f'/tmp/b_{name}/verif/known_findings.json'))
cur = json.load(open('/verif/known_findings.json'))
ids = {(e['property'], e['id']) for e in base} | {(e['property'], e['id']) for e in cur}
add = [e for e in new if (e['property'], e['id']) not in ids]
for e in add:
    print(e['property'], e['id'], e['status'], e.get('cause'))
json.dump(cur + add, open('/verif/known_findings.json', 'w'), indent=1)
print("added", len(add))
