#!/usr/bin/env python3
"""update the detection record of a kept seeded change: tools/set_caught.py <seed id> '<caught_by json>' [history note]"""
import json, sys
sid, caught = sys.argv[1], json.loads(sys.argv[2])
p = f"/verif/seeded/{sid}/meta.json"
m = json.load(open(p))
old = m.get("caught_by")
if old and old != caught:
    m.setdefault("caught_by_history", []).append(old)
m["caught_by"] = caught
if len(sys.argv) > 3:
    m["strengthened"] = sys.argv[3]
json.dump(m, open(p, "w"), indent=1)
print("updated", sid)
