#!/bin/sh
# run every claimed quick check; print one summary line each
cd "$(dirname "$0")/.."
for p in $(python3 -c "import json; print(' '.join(c['property_id'] for c in json.load(open('MANIFEST.json'))['checks']))"); do
  ./check $p --tier ${1:-quick} 2>&1 | grep -E "^VIOLATION|quick:|thorough:|Traceback|Error" | cut -c1-230
done
