#!/bin/sh
# usage: tryseed.sh id:prop[,prop] ...  patch from /verif/seeded/<id>/ (rebased variant preferred)
cd /tmp/b_try/verif
for s in "$@"; do
  id=${s%%:*}; props=$(echo ${s##*:} | tr ',' ' ')
  d=/verif/seeded/$id; [ -d $d ] || d=/tmp/m_$(echo $id | cut -d_ -f1)/out/$id
  pf=$d/patch.diff; for c in $d/patch_rebased_on_main.diff; do [ -f $c ] && pf=$c; done
  echo "### $id ($pf)"
  git -C /tmp/b_try/repo checkout -q -- .
  git -C /tmp/b_try/repo apply $pf || { echo "patch does not apply"; continue; }
  for p in $props; do ./check $p --tier quick --skip-lean 2>&1 | grep -E "^VIOLATION|quick:" | cut -c1-260; done
  git -C /tmp/b_try/repo checkout -q -- .
done
echo "### DONE"
