#!/usr/bin/env python3
"""Regenerates /verif/MANIFEST.json from the property modules in vlib/props (claimed) and
tools/not_applicable.json (reasons for everything else)."""
import importlib, json, os, sys, subprocess
V = os.path.dirname(os.path.dirname(os.path.abspath(__file__)))
sys.path.insert(0, V)
props = [json.loads(l) for l in open(os.path.join(V, "properties.jsonl"))]
na_reasons = json.load(open(os.path.join(V, "tools", "not_applicable.json")))
checks, na, engines = [], [], {}
for p in props:
    pid = p["id"]
    path = os.path.join(V, "vlib", "props", pid + ".py")
    if os.path.exists(path) and pid not in na_reasons.get("_withdrawn", {}):
        m = importlib.import_module(f"vlib.props.{pid}")
        if getattr(m, "CLAIMED", True):
            checks.append({
                "property_id": pid,
                "quick_cmd": f"./check {pid} --tier quick",
                "thorough_cmd": f"./check {pid} --tier thorough",
                "evidence_file": f"/verif/evidence/{pid}.json",
                "replay_cmd_template": f"./check {pid} --replay {{path}}",
                "engine": m.ENGINE,
                "level_claimed": {"category": getattr(m, "LEVEL", "proof"), "text": m.LEVEL_TEXT,
                                  "design_ref": getattr(m, "DESIGN_REF", "DESIGN.md section 5")},
                "level_note": m.LEVEL_NOTE,
                "technique": m.TECHNIQUE,
            })
            engines.setdefault(m.ENGINE, []).append(pid)
            continue
    na.append({"property_id": pid, "reason": na_reasons.get(pid, "check not built yet (work in progress; DESIGN.md section 5 describes the planned Lean model and correspondence)")})
hooks_commits = []
try:
    out = subprocess.run(["git", "-C", "/repo", "log", "--format=%H %s"], stdout=subprocess.PIPE).stdout.decode()
    hooks_commits = [l.split()[0] for l in out.splitlines() if " verif-hook:" in l]
except Exception:
    pass
man = {
    "version": 1,
    "setup_cmd": "./setup.sh",
    "hooks": {
        "guard": "dust_dds_verif",
        "enable": "RUSTFLAGS=\"--cfg dust_dds_verif --cap-lints allow\" (set in /verif/harness/.cargo/config.toml; the harness crate depends on /repo/dds by path)",
        "baseline_off_cmd": "cd /repo && cargo nextest run --workspace --no-fail-fast --tool-config-file pb:/w/lib/nextest.toml --profile pb --test-threads 8 --offline",
        "source_commits": hooks_commits,
        "add_only": True,
    },
    "engines": [{"name": e, "path": f"/verif/harness/src/bin/{e}.rs + /verif/lean/DustVerif/DustVerif/Driver", "serves_properties": ps,
                 "kind_free_text": "Rust harness binary driving the real code + Lean model behind the dustmodel line-protocol driver"} for e, ps in sorted(engines.items())],
    "checks": checks,
    "notes": "One pipeline per property (./check Cxx): Lean proof obligations + axiom audit, harness rebuilt from /repo's working tree, model-vs-implementation correspondence, property oracle on the implementation. See DESIGN.md.",
    "not_applicable": na,
}
json.dump(man, open(os.path.join(V, "MANIFEST.json"), "w"), indent=1)
print(f"claimed {len(checks)}, not claimed {len(na)}")
