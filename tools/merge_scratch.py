#!/usr/bin/env python3
"""List (and optionally copy) what a builder changed in its scratch copy relative to the /verif commit it started from.
usage: tools/merge_scratch.py <name> <base-commit> [--copy-new] [--show-diff]"""
import os, subprocess, sys, tempfile, filecmp, shutil
name, base = sys.argv[1], sys.argv[2]
copy_new = "--copy-new" in sys.argv
show = "--show-diff" in sys.argv
scratch = f"/tmp/b_{name}/verif"
tmp = tempfile.mkdtemp(prefix="base_")
subprocess.run(f"git -C /verif archive {base} | tar -x -C {tmp}", shell=True, check=True)
SKIP = (".build", ".lake", "__pycache__", "replays", "evidence", "Audit", ".git")
new, mod = [], []
for root, dirs, files in os.walk(scratch):
    dirs[:] = [d for d in dirs if d not in SKIP]
    for f in files:
        if f.endswith(".pyc"): continue
        p = os.path.join(root, f); rel = os.path.relpath(p, scratch)
        b = os.path.join(tmp, rel)
        if not os.path.exists(b): new.append(rel)
        elif not filecmp.cmp(p, b, shallow=False): mod.append(rel)
print("NEW:"); [print("  ", x) for x in sorted(new)]
print("MODIFIED vs base:"); [print("  ", x) for x in sorted(mod)]
if show:
    for rel in sorted(mod):
        subprocess.run(["diff", "-u", os.path.join(tmp, rel), os.path.join(scratch, rel)])
if copy_new:
    for rel in new:
        dst = os.path.join("/verif", rel)
        os.makedirs(os.path.dirname(dst), exist_ok=True)
        if os.path.exists(dst) and not filecmp.cmp(dst, os.path.join(scratch, rel), shallow=False):
            print("CONFLICT (exists, differs):", rel); continue
        shutil.copy(os.path.join(scratch, rel), dst)
    print("copied", len(new), "new files")
shutil.rmtree(tmp)
