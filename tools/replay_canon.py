#!/usr/bin/env python3
"""Replay a case of a dsim-based property whose comparison is canonicalised (C30, C31, C33):
    tools/replay_canon.py <pid> <replay.json | file with one op per line>
prints every op with the canonicalised implementation answer and the model's answer (`!` marks a difference) and the
oracle's verdict on the raw implementation output. (`./check <pid> --replay` shows the raw answers of both sides.)"""
import sys, os, json, importlib
sys.path.insert(0, os.path.dirname(os.path.dirname(os.path.abspath(__file__))))
from vlib.core import Case, run_cases, harness_bin, model_bin

pid, path = sys.argv[1], sys.argv[2]
mod = importlib.import_module(f"vlib.props.{pid}")
txt = open(path).read()
try:
    obj = json.loads(txt)
    ops = obj.get("shrunk_ops") or obj["ops"]
except ValueError:
    ops = [l for l in txt.splitlines() if l.strip()]
case = Case(ops, {"fam": "c24"} if any("ownership=exclusive" in o for o in ops) else {})
impl, _ = run_cases([harness_bin("dsim")], [case])
model, _ = run_cases([model_bin(), mod.ENGINE], [case])
co, _ = mod.canon(ops, impl[0])
bad = 0
for l, i, m in zip(ops, co, model[0]):
    mark = " " if i == m else "!"
    bad += i != m
    print(f"{mark} {l}\n      impl : {i}\n      model: {m}")
viol = mod.oracle(case, impl[0]) or []
for v in viol:
    print("ORACLE:", json.dumps(v)[:600])
print(f"{bad} line(s) differ, {len(viol)} oracle violation(s)")
sys.exit(1 if bad or viol else 0)
