#!/usr/bin/env python3
"""Runs `./check C19` with the WRITER half plugged in, without editing vlib/props/C19.py.

It shows exactly what the integrator has to add to vlib/props/C19.py:
    import vlib.wrt_common as wrt
    LEAN_MODULES = ["DustVerif.Props.C19", "DustVerif.Props.C19Writer"]
    BINS = ["hist", "wrt", "dsim"]
    def run(ctx):
        run_hist(ctx, PROFILE, oracle, 1500, 30000)                       # reader half, unchanged
        wrt.differential(ctx, wrt.writer_cases(ctx.rng, ctx.tier), wrt.writer_nontrivial, wrt.writer_oracle)
(the oracle of the module stays the reader oracle; `--replay` of a writer case: `python3 -m vlib.wrt_common <file>`)

usage: tools/c19_with_writer.py [--tier quick|thorough] [--writer-only]
"""
import os, sys
sys.path.insert(0, os.path.dirname(os.path.dirname(os.path.abspath(__file__))))
import vlib.core as core
import vlib.props.C19 as m
import vlib.wrt_common as wrt

args = [a for a in sys.argv[1:] if a != "--writer-only"]
writer_only = "--writer-only" in sys.argv[1:]
m.LEAN_MODULES = ["DustVerif.Props.C19", "DustVerif.Props.C19Writer"]
m.BINS = ["hist", "wrt", "dsim"]
_reader_run = m.run


def run(ctx):
    if not writer_only:
        _reader_run(ctx)
    impl = wrt.differential(ctx, wrt.writer_cases(ctx.rng, ctx.tier), wrt.writer_nontrivial, wrt.writer_oracle)
    for io in impl:
        for o in io:
            if o in ("err:OutOfResources",):
                ctx.count("writer:refused")
    ctx.count("writer:cases", len(impl))


m.run = run
sys.exit(core.main(["C19"] + args))
