#!/bin/sh
# Create an isolated builder workspace: /tmp/b_<name>/{verif,repo}
#   repo  = detached git worktree of /repo HEAD
#   verif = copy of /verif (with Lean build output, without cargo output), harness pointed at the scratch repo
set -e
N=$1
[ -n "$N" ] || { echo "usage: mkscratch.sh <name>"; exit 2; }
D=/tmp/b_$N
rm -rf "$D/verif"
mkdir -p "$D"
[ -d "$D/repo" ] || git -C /repo worktree add --detach "$D/repo" HEAD >/dev/null
rsync -a --exclude .build --exclude .git --exclude replays /verif/ "$D/verif/"
sed -i "s#/repo/#$D/repo/#g" "$D/verif/harness/Cargo.toml"
true
sed -i "s#R=\${1:-/repo}#R=\${1:-$D/repo}#" "$D/verif/tools/baseline.sh"
echo "$D"
