import sys, json
pid = sys.argv[1]
prop = open(f"/tmp/prop_{pid}.json").read()
print(f"""You are testing how robust a Rust code base's correctness is against subtle regressions. The project is dust-dds (a Rust implementation of the OMG DDS publish-subscribe middleware over RTPS). You have your own scratch git worktree of it at /tmp/m_{pid} (work ONLY there; never touch /repo or /verif; do not look at /verif). No network is available; build and test offline (`cargo ... --offline`, or set CARGO_NET_OFFLINE=true). To keep disk use low, use `CARGO_TARGET_DIR=/tmp/m_{pid}/target`.

Here is a semantic property the code is supposed to satisfy (JSON; `anchors` tells you where the mechanism lives):

{prop}

YOUR TASK: produce TWO different, independent source changes (variant C and variant D) to dust-dds, each of which BREAKS this property while the code still compiles and the project's existing tests still pass. Requirements for each variant:
  * It must be a realistic regression — the kind of slip a maintainer could make in a refactoring or "optimisation" (a changed comparison, a reordered statement, a dropped update, a boundary off by one, a stale cached value, a condition that is right for the common case only) — a few lines, not sabotage, no dead code, no special-casing of magic values, no cfg tricks, no changes to tests.
  * It must need something SPECIFIC to manifest: a particular interleaving or order of operations, a multi-step sequence, an unusual but legal input/QoS combination, a boundary value, or two cooperating sites that each look fine alone. A change that ordinary use (the common path of the existing tests) would expose at once is not acceptable.
  * The existing test suite must still pass with it: at least `cargo test -p dust_dds --lib --offline` and the integration tests that touch the changed area (`cargo test -p dust_dds --test <name> --offline`; some network integration tests are flaky on a loaded machine — re-run a failing one without your change before blaming the change).
  * A demonstration: ONE new self-contained Rust test (a new file under /tmp/m_{pid}/dds/tests/, e.g. dds/tests/demo_{pid}_c.rs, using the public API; or, if the behaviour is only reachable internally, a new `#[test]` in a `#[cfg(test)] mod` at the bottom of the changed source file) that PASSES on the unchanged code and FAILS with the change. Make it deterministic and fast (avoid real-time sleeps longer than a second or two; prefer direct calls into the entity/state machine if the public API path is slow or flaky).
  * The two variants must attack different clauses or mechanisms of the property, in different code locations if possible.

Deliver, for each variant X in {{c, d}}, in /tmp/m_{pid}/out/{pid}_X/ :
  - patch.diff  : `git diff` of the source change ONLY (no test), applicable with `git apply` to a clean checkout of HEAD;
  - demo.diff   : `git diff`/new-file diff adding ONLY the demonstration test, applicable to a clean checkout independently of patch.diff;
  - meta.json   : {{"property": "{pid}", "variant": "X", "summary": "<what was changed>", "breaks": "<which clause of the property and how>", "needs": "<what specific input / sequence / interleaving is needed to manifest>", "demo_cmd": "<exact cargo test command that runs the demonstration>", "ran": ["<commands you ran and their outcome: demo passes without / fails with the change; which existing tests you ran with the change>"]}}
Verify everything yourself: clean checkout + demo.diff → demo passes; + patch.diff → demo fails; existing tests pass with patch.diff. Leave the worktree clean at the end (`git -C /tmp/m_{pid} checkout -- . && git -C /tmp/m_{pid} clean -fd -e out -e target`), and delete /tmp/m_{pid}/target when done. Final message: a 5-line summary of both variants. Work autonomously; do not ask questions.""")
