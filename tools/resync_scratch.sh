#!/bin/sh
# bring a builder's scratch workspace up to date with /verif and /repo main (discarding local changes of both!)
#   usage: tools/resync_scratch.sh <name>        (workspace /tmp/b_<name>)
set -e
N=$1; D=/tmp/b_$N
[ -d "$D/repo" ] || { echo "no such workspace"; exit 2; }
git -C "$D/repo" checkout -q -- . ; git -C "$D/repo" clean -fdq -e target
git -C "$D/repo" checkout -q --detach main
mkdir -p "$D/old"; rm -rf "$D/old/verif"; [ -d "$D/verif" ] && mv "$D/verif" "$D/old/verif"
mkdir -p "$D/verif"
rsync -a --exclude .build --exclude .git --exclude replays /verif/ "$D/verif/"
# keep the previous build output to save time
[ -d "$D/old/verif/.build" ] && mv "$D/old/verif/.build" "$D/verif/.build"
[ -d "$D/old/verif/lean/DustVerif/.lake" ] && rm -rf "$D/verif/lean/DustVerif/.lake" && mv "$D/old/verif/lean/DustVerif/.lake" "$D/verif/lean/DustVerif/.lake"
sed -i "s#/repo/#$D/repo/#g" "$D/verif/harness/Cargo.toml"
sed -i "s#R=\${1:-/repo}#R=\${1:-$D/repo}#" "$D/verif/tools/baseline.sh"
echo "resynced $D (previous scratch copy kept in $D/old/verif); repo at $(git -C $D/repo log --oneline -1)"
