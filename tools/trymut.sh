#!/bin/sh
# run checks against a seeded change: apply to /repo, run ./check for each property, always revert.
# usage: trymut.sh <patch.diff> <pid> [pid...]
P=$1; shift
cd /verif
git -C /repo diff --quiet || { echo "/repo has uncommitted changes"; exit 2; }
git -C /repo apply "$P" || { echo "patch does not apply"; exit 2; }
for pid in "$@"; do
  echo "--- $pid"
  ./check "$pid" --tier quick 2>&1 | grep -E "VIOLATION|KNOWN-FINDING|quick:" | cut -c1-300
done
git -C /repo checkout -- .
git -C /repo diff --quiet && echo "reverted"
